"""C09 - pair-symmetric momentum equations conserve linear and angular momentum (E3 prover, DESIGN.md C09)."""
import ast
import os
import re
import sys

sys.path.insert(0, os.path.dirname(os.path.dirname(os.path.abspath(__file__))))
from verif_static.core import run_check, AnalysisError, REPO  # noqa
from verif_static import model as M, symb as S  # noqa
from verif_static.poly import Poly  # noqa

FILES = ['pysph/sph/wc/basic.py', 'pysph/sph/basic_equations.py', 'pysph/sph/wc/transport_velocity.py', 'pysph/sph/wc/edac.py',
         'pysph/sph/wc/viscosity.py', 'pysph/sph/gas_dynamics/basic.py', 'pysph/sph/solid_mech/basic.py']
EQ = 'pysph/sph/equation.py'

# classification of every class in the anchored files whose loop() accumulates into d_au/d_av/d_aw (frozen after reading)
PAIR_SYMMETRIC = {
    ('wc/basic.py', 'MomentumEquation'): 'central', ('wc/basic.py', 'MomentumEquationDeltaSPH'): 'central',
    ('wc/basic.py', 'PressureGradientUsingNumberDensity'): 'central',
    ('basic_equations.py', 'MonaghanArtificialViscosity'): 'central',
    ('wc/transport_velocity.py', 'MomentumEquationPressureGradient'): 'central',
    ('wc/transport_velocity.py', 'MomentumEquationViscosity'): 'pair',
    ('wc/transport_velocity.py', 'MomentumEquationArtificialViscosity'): 'central',
    ('wc/transport_velocity.py', 'MomentumEquationArtificialStress'): 'pair',
    ('wc/edac.py', 'MomentumEquation'): 'central',
    ('wc/viscosity.py', 'LaminarViscosity'): 'pair', ('wc/viscosity.py', 'MonaghanSignalViscosityFluids'): 'central',
    ('wc/viscosity.py', 'ClearyArtificialViscosity'): 'central', ('wc/viscosity.py', 'LaminarViscosityDeltaSPH'): 'pair',
    ('gas_dynamics/basic.py', 'Monaghan92Accelerations'): 'central', ('gas_dynamics/basic.py', 'ADKEAccelerations'): 'central',
    ('gas_dynamics/basic.py', 'MPMAccelerations'): 'central',
    ('solid_mech/basic.py', 'MomentumEquationWithStress'): 'pair',
}
EXCLUDED = {
    ('basic_equations.py', 'BodyForce'): 'body force, excluded by the property ("with body forces off")',
    ('wc/transport_velocity.py', 'SolidWallNoSlipBC'): 'boundary term against a wall array with prescribed wall velocity, not a pair force',
    ('wc/edac.py', 'MomentumEquationPressureGradient'): 'subtracts the destination\'s average pressure (pavg): not in pair-symmetric form by construction',
}
# array constants that must agree between the two arrays for the pair form to be symmetric (stated assumption)
SHARED_CONSTANTS = {'MomentumEquationWithStress': ('d_wdeltap[0]', 'd_n[0]')}
SYMMETRIC_SCALARS = {'HIJ', 'RHOIJ', 'RHOIJ1', 'R2IJ', 'RIJ', 'EPS', 'WIJ', 'WDP', 't', 'dt', 'GHIJ', 'WDASHIJ'}


def U(n):
    return M.unparse(n)


def make_sigma(ctx, keep=()):
    def sigma(name):
        if name in keep:
            return None
        m = re.match(r'^(d|s)_(\w+)\[(.*)\]$', name)
        if m:
            o = 's' if m.group(1) == 'd' else 'd'
            idx = m.group(3).replace('d_idx', '@').replace('s_idx', 'd_idx').replace('@', 's_idx')
            return ctx.var('%s_%s[%s]' % (o, m.group(2), idx))
        m = re.match(r'^(XIJ|VIJ|DWIJ)\[(\d)\]$', name)
        if m:
            return -ctx.var(name)
        m = re.match(r'^DWI\[(\d)\]$', name)
        if m:
            return -ctx.var('DWJ[%s]' % m.group(1))
        m = re.match(r'^DWJ\[(\d)\]$', name)
        if m:
            return -ctx.var('DWI[%s]' % m.group(1))
        swap = {'WI': 'WJ', 'WJ': 'WI', 'GHI': 'GHJ', 'GHJ': 'GHI', 'WDASHI': 'WDASHJ', 'WDASHJ': 'WDASHI'}
        if name in swap:
            return ctx.var(swap[name])
        return None
    return sigma


def rule_sigma_table(chk):
    """the images assumed for the precomputed symbols are themselves consequences of their definitions"""
    eq = M.py(EQ)
    fn = M.find_func(eq, 'precomputed_symbols')
    from verif_static import emit as EM_
    blocks = dict((k_, v_[0]) for k_, v_ in EM_.precomputed_table(EQ).items())
    import textwrap
    want = {'HIJ': +1, 'RHOIJ': +1, 'RHOIJ1': +1, 'R2IJ': +1, 'RIJ': +1, 'EPS': +1, 'XIJ': -1, 'VIJ': -1}
    for sym, sign in sorted(want.items()):
        code = blocks.get(sym)
        if code is None:
            raise AnalysisError('precomputed symbol %s vanished' % sym)
        ctx = S.Ctx()
        t = ast.parse(textwrap.dedent(code).strip())
        ev = S.Evaluator(ctx, ast.FunctionDef(name=sym, args=None, body=t.body, decorator_list=[]))
        try:
            ev.run()
        except (S.Unsupported, S.Budget) as e:
            chk.undecided('renaming-justified', sym, node=fn, file=EQ, func='precomputed_symbols', detail=str(e))
            continue
        sig = make_sigma(ctx)
        ok = True
        keys = [k for k in ev.env if k == sym or k.startswith(sym + '[')]
        for k in keys:
            v = ev.env[k]
            img = ctx.rename(v, sig)
            ok = ok and ctx.simplify(img - Poly.const(sign) * v).is_zero()
        chk.decide(ok and bool(keys), 'renaming-justified', sym, node=fn, file=EQ, func='precomputed_symbols',
                   detail_bad='under the pair swap %s does not map to %s%s: the symmetry argument for every equation using it is void' % (sym, '+' if sign > 0 else '-', sym),
                   detail_ok='swap(%s) = %s%s by its definition' % (sym, '' if sign > 0 else '-', sym))
    # kernel-valued symbols: same kernel call, mean h vs one-sided h
    pairs = {'WIJ': 'KERNEL(XIJ, RIJ, HIJ)', 'DWIJ': 'GRADIENT(XIJ, RIJ, HIJ, DWIJ)', 'WI': 'KERNEL(XIJ, RIJ, d_h[d_idx])', 'WJ': 'KERNEL(XIJ, RIJ, s_h[s_idx])',
             'DWI': 'GRADIENT(XIJ, RIJ, d_h[d_idx], DWI)', 'DWJ': 'GRADIENT(XIJ, RIJ, s_h[s_idx], DWJ)'}
    for sym, want in sorted(pairs.items()):
        got = (blocks.get(sym) or '').strip()
        got = got.split('=')[-1].strip() if '=' in got else got
        chk.decide(got.replace(' ', '') == want.replace(' ', ''), 'renaming-justified', sym, node=fn, file=EQ, func='precomputed_symbols',
                   detail_bad='%s is computed as %s; the pair swap used here (W even / grad W odd in XIJ, I <-> J through the one-sided h) assumes %s' % (sym, got, want),
                   detail_ok=want)


def rule_snapshot(chk):
    """The pair forces cancel only if both particles of a pair see the same state.  A Group is evaluated destination by destination; if a group holds a pair-symmetric momentum
    equation B (dest in a role list R, sources including R) together with an equation A that writes, for the arrays of the same list R, a property B reads from its source side
    (s_X), then with two arrays in R the first one's pair loop reads the other's X from the previous evaluation while the other reads fresh values: the cross-array contributions
    no longer cancel.  Decided over every configuration of every shipped scheme (get_equations interpreted by E8)."""
    import importlib.util
    spec = importlib.util.spec_from_file_location('c12mod', os.path.join(os.path.dirname(os.path.abspath(__file__)), 'c12.py'))
    c12 = importlib.util.module_from_spec(spec)
    spec.loader.exec_module(c12)
    from verif_static import absint as A, eqindex as EI
    ci = EI.index()
    pair_names = set((('pysph/sph/' + f), n) for (f, n) in PAIR_SYMMETRIC)
    PAIRH = ('loop', 'loop_all', 'initialize_pair')

    def writes(cref):
        out = set()
        for hook, (rel, c2, fn) in EI.resolved_hooks(ci, cref.rel, cref.node, EI.HOOKS).items():
            for a in ast.walk(fn):
                tg = a.targets if isinstance(a, ast.Assign) else [a.target] if isinstance(a, ast.AugAssign) else []
                for t in tg:
                    if isinstance(t, ast.Subscript) and isinstance(t.value, ast.Name) and t.value.id.startswith('d_'):
                        out.add(t.value.id[2:])
        return out

    def sreads(cref):
        out = set()
        for hook, (rel, c2, fn) in EI.resolved_hooks(ci, cref.rel, cref.node, PAIRH).items():
            for a in fn.args.args:
                if a.arg.startswith('s_'):
                    out.add(a.arg[2:])
        return out

    def leaf_groups(it, v, out):
        if isinstance(v, (list, tuple)):
            eqs = [x for x in v if isinstance(x, A.Inst) and 'Equation' in [c.name for r, c in it.mro(x.cls)]]
            if eqs:
                out.append(eqs)
            for x in v:
                if not any(x is e for e in eqs):
                    leaf_groups(it, x, out)
        elif isinstance(v, A.Inst):
            for x in list(v.args) + list(v.kwargs.values()):
                leaf_groups(it, x, out)
    nsch = ncfg = npair = 0
    hits = {}
    wcache, rcache = {}, {}
    for rel, cls, own in c12.scheme_classes(ci):
        nsch += 1

        def run(cfg, rel=rel, cls=cls):
            it = A.Interp(ci, cfg)
            cref = A.ClassRef(rel, cls)
            obj = c12.instantiate(it, cref)
            f = it.find_method(cref, 'get_equations')
            return it, it.call_function(A.FuncRef(f[0], f[2], self_obj=obj, cls=f[1]), [], {}, f[2])
        try:
            for cfg, res in A.explore(run, cap=3000):
                if isinstance(res, A.Raised):
                    continue
                ncfg += 1
                it, eqs = res
                groups = []
                leaf_groups(it, eqs, groups)
                for g in groups:
                    for b in g:
                        if (b.cls.rel, b.cls.node.name) not in pair_names:
                            continue
                        db = b.kwargs.get('dest', b.args[0] if b.args else None)
                        sb = b.kwargs.get('sources', b.args[1] if len(b.args) > 1 else None)
                        if not isinstance(db, str) or not isinstance(sb, (list, tuple)) or db not in sb:
                            continue
                        npair += 1
                        kb = (b.cls.rel, b.cls.node.name)
                        if kb not in rcache:
                            rcache[kb] = sreads(b.cls)
                        for a in g:
                            if a is b:
                                continue
                            da = a.kwargs.get('dest', a.args[0] if a.args else None)
                            if da != db:
                                continue
                            ka = (a.cls.rel, a.cls.node.name)
                            if ka not in wcache:
                                wcache[ka] = writes(a.cls)
                            common = wcache[ka] & rcache[kb]
                            if common:
                                hits.setdefault((cls.name, ka[1], kb[1], db, tuple(sorted(common))), (c12.describe(cfg), a.node, a.rel))
        except A.Unsupported as e:
            chk.undecided('pair-state-is-one-snapshot', cls.name, file=rel, func=cls.name + '.get_equations', line=cls.lineno, detail='get_equations not interpretable: %s' % e)
    for (sname, an, bn, role, props), (cfgtext, node, rel2) in sorted(hits.items()):
        chk.violated('pair-state-is-one-snapshot', '%s:%s->%s:%s' % (sname, an, bn, ','.join(props)), node=node, file=rel2, func=sname + '.get_equations',
                     detail='%s (dest %s) writes %s in the same group in which %s (dest %s, sources including %s) reads s_%s: with two arrays in that list one of them computes its '
                            'pair forces from the other\'s %s of the previous evaluation and the other from fresh values, so the forces between the bodies do not cancel (%s)'
                            % (an, role, list(props), bn, role, role, props[0], props[0], cfgtext))
    if not hits:
        chk.holds('pair-state-is-one-snapshot', 'all-schemes', file='pysph/sph/scheme.py', func='get_equations', line=0,
                  detail='%d schemes, %d configurations, %d pair-symmetric equations with their own role among the sources: no equation of the same group writes what they read from the source side'
                         % (nsch, ncfg, npair))
    chk.floor('pair-symmetric equation uses in scheme groups', npair, 20)


# who may write the per-thread pair arrays XIJ / VIJ / DWIJ / DWI / DWJ (they are computed once per pair and handed to every equation of the group for that pair):
# confirmed by reading, one reason each - any other hook that stores into them changes what the equations after it see, by a factor that depends on the destination
PAIR_ARRAY_WRITERS = {
    ('pysph/sph/wc/kernel_correction.py', 'GradientCorrection', 'loop', 'DWIJ'): 'kernel-gradient correction: replaces DWIJ by the corrected gradient for the equations that follow, by design',
    ('pysph/sph/wc/kernel_correction.py', 'MixedGradientCorrection', 'loop', 'DWIJ'): 'as GradientCorrection',
    ('pysph/sph/swe/basic.py', 'GradientCorrection', 'loop', 'DWJ'): 'corrects the source-side gradient for the shallow-water equations that follow, by design',
    ('pysph/sph/wc/crksph.py', 'CRKSPH', 'loop', 'DWIJ'): 'CRKSPH replaces the gradient by the reproducing-kernel one, by design',
    ('pysph/sph/wc/crksph.py', 'CRKSPHSymmetric', 'loop', 'DWIJ'): 'as CRKSPH (symmetrised form)',
    ('pysph/sph/wc/crksph.py', 'CRKSPHSymmetric', 'loop', 'DWI'): 'as CRKSPH (symmetrised form)',
    ('pysph/sph/wc/crksph.py', 'CRKSPHSymmetric', 'loop', 'DWJ'): 'as CRKSPH (symmetrised form)',
    ('pysph/sph/gas_dynamics/basic.py', 'MPMAccelerations', 'loop', 'XIJ'): 'normalises XIJ for its own use; the shipped scheme puts it alone in its group',
}


def rule_pair_arrays_read_only(chk):
    """the pair arrays are shared by all equations of a group for one pair: only the listed correctors store into them"""
    import glob as _glob
    S = ('XIJ', 'VIJ', 'DWIJ', 'DWI', 'DWJ')
    seen, n = set(), 0
    for p_ in sorted(_glob.glob(os.path.join(REPO, 'pysph/**/*.py'), recursive=True)):
        if '/tests/' in p_ or '/examples/' in p_:
            continue
        rel = os.path.relpath(p_, REPO)
        try:
            t = M.py(rel)
        except SyntaxError:
            continue
        for c in M.classes(t):
            for fn in [f for f in c.body if isinstance(f, ast.FunctionDef)]:
                params = [a.arg for a in fn.args.args]
                if not any(x in S for x in params):
                    continue
                n += 1
                for a in ast.walk(fn):
                    tg = a.targets[0] if isinstance(a, ast.Assign) else a.target if isinstance(a, ast.AugAssign) else None
                    if isinstance(tg, ast.Subscript) and isinstance(tg.value, ast.Name) and tg.value.id in S and tg.value.id in params:
                        key = (rel, c.name, fn.name, tg.value.id)
                        if key in seen:
                            continue
                        seen.add(key)
                        chk.decide(key in PAIR_ARRAY_WRITERS, 'pair-arrays-read-only', '%s.%s:%s' % (c.name, fn.name, tg.value.id), node=a, file=rel, func='%s.%s' % (c.name, fn.name),
                                   detail_bad='`%s`: %s is the per-thread array every equation of the group receives for this pair - the equations called after this one see it '
                                              'multiplied by a factor of the destination particle, so their pair terms are no longer equal and opposite' % (U(a)[:60], tg.value.id),
                                   detail_ok=PAIR_ARRAY_WRITERS.get(key, ''))
    chk.floor('hooks that receive pair arrays', n, 100)
    gone = sorted(k for k in PAIR_ARRAY_WRITERS if k not in seen)
    for k in gone:
        chk.note('listed writer of a pair array no longer writes it: %s.%s %s' % (k[1], k[2], k[3]))


def main(chk):
    chk.explanation = ('For every momentum equation classified pair-symmetric in the anchored files, loop() is abstractly evaluated (if-conversion, '
                       'polynomial normal form with reciprocal / abs / max / indicator atoms) and the obligation swap(m_a * delta a_k) = -m_a * delta a_k is '
                       'discharged for k = 0, 1, 2 under the signed renaming of the pair swap (d_X[d_idx] <-> s_X[s_idx], XIJ, VIJ, DWIJ -> -, DWI <-> -DWJ, '
                       'WI <-> WJ); central-force equations additionally satisfy delta a x DWIJ = 0.  The renaming of each precomputed symbol is itself '
                       'derived from its definition.  New accumulating classes must be classified (exit 2 otherwise).')
    rule_sigma_table(chk)
    rule_snapshot(chk)
    rule_pair_arrays_read_only(chk)
    # summation density is positive wherever a particle sees itself: every kernel is non-negative inside its support and exactly zero outside
    # (pairs are accepted up to radius_scale*max(h_a, h_b) but W is evaluated with the mean h, so q beyond the cut-off does occur) - rules shared with C08
    import importlib.util
    spec8 = importlib.util.spec_from_file_location('c08mod', os.path.join(os.path.dirname(os.path.abspath(__file__)), 'c08.py'))
    c08 = importlib.util.module_from_spec(spec8)
    spec8.loader.exec_module(c08)
    pyk = dict((c.name, c) for c in c08.kernel_classes(M.py(c08.KER)))
    c08.rule_cutoff(chk, pyk)
    c08.rule_monotone(chk, pyk)
    # DWIJ is what gradient() writes into a per-thread scratch buffer: it is the radial gradient, written in full for every pair (rule shared with C08)
    c08.rule_gradient_form(chk, pyk)
    # "every neighbour algorithm": the sums only cancel when j is a neighbour of i exactly when i is one of j - the symmetric acceptance test, no candidate dropped
    # on one side only, the list post-processing keeps every entry (rules shared with C01 / C05); pair terms are computed in per-thread scratch (shared with C02)
    def load(name):
        sp_ = importlib.util.spec_from_file_location(name + 'mod', os.path.join(os.path.dirname(os.path.abspath(__file__)), name + '.py'))
        m_ = importlib.util.module_from_spec(sp_)
        sp_.loader.exec_module(m_)
        return m_
    c01, c05, c02 = load('c01'), load('c05'), load('c02')
    ci1, concrete1 = c01.load_classes()
    c01.rule_acceptance(chk, ci1, concrete1)
    c01.rule_no_pruning(chk, ci1, concrete1)
    c01.rule_cached_entry(chk)
    # ... and the stencils reach the query's own radius as well as the candidates': a one-sided stencil gives one-sided neighbour lists (rules shared with C01)
    c01.rule_level_stencil(chk)
    c01.rule_subcell_radius(chk)
    c01.rule_every_level_searched(chk)
    ci5, classes5 = c05.nnps_classes()
    c05.rule_sorting(chk, ci5, classes5, [c.name for r, c in concrete1 if c.name != 'DictBoxSortNNPS'])
    c02.rule_scratch(chk)
    ker = M.py('pysph/base/kernels.py')
    nk = 0
    for kc in M.classes(ker):
        g = M.methods(kc).get('gradient')
        if g is None:
            continue
        nk += 1
        st = dict((U(a.targets[0]).replace(' ', ''), U(a.value).replace(' ', '')) for a in ast.walk(g) if isinstance(a, ast.Assign) and isinstance(a.targets[0], ast.Subscript))
        # one common factor (a local of any name) times the three components of xij
        facs = set()
        for i in range(3):
            v_ = st.get('grad[%d]' % i) or ''
            for pat in ('*xij[%d]' % i,):
                if v_.endswith(pat):
                    facs.add(v_[:-len(pat)])
            if v_.startswith('xij[%d]*' % i):
                facs.add(v_[len('xij[%d]*' % i):])
        ok = len(facs) == 1 and all(st.get('grad[%d]' % i) in ('%s*xij[%d]' % (list(facs)[0], i), 'xij[%d]*%s' % (i, list(facs)[0])) for i in range(3)) and \
            list(facs)[0].isidentifier()
        chk.decide(ok, 'renaming-justified', 'gradient-is-radial:' + kc.name, node=g, file='pysph/base/kernels.py', func=kc.name + '.gradient',
                   detail_bad='gradient components are %s: not one scalar times xij' % st, detail_ok='grad[k] = tmp * xij[k]')
    chk.floor('kernel gradient methods', nk, 10)
    seen = set()
    n = 0
    for rel in FILES:
        t = M.py(rel)
        short = rel.split('pysph/sph/')[1]
        for cls in M.classes(t):
            lp = M.methods(cls).get('loop')
            if lp is None:
                continue
            args = M.arg_names(lp)
            if not any(a in args for a in ('d_au', 'd_av', 'd_aw')):
                continue
            stores = [a for a in ast.walk(lp) if isinstance(a, (ast.AugAssign, ast.Assign)) and
                      U(a.target if isinstance(a, ast.AugAssign) else a.targets[0]).replace(' ', '') in ('d_au[d_idx]', 'd_av[d_idx]', 'd_aw[d_idx]')]
            if not stores:
                continue
            key = (short, cls.name)
            seen.add(key)
            if key in EXCLUDED:
                chk.note('%s.%s excluded: %s' % key + '' if False else '%s %s excluded: %s' % (short, cls.name, EXCLUDED[key]))
                continue
            if key not in PAIR_SYMMETRIC:
                chk.error('unclassified class %s in %s accumulates into d_au/d_av/d_aw: classify it as pair-symmetric or excluded (with a reason) in checks/c09.py' % (cls.name, rel))
                continue
            kind = PAIR_SYMMETRIC[key]
            n += 1
            ctx = S.Ctx()
            who = '%s.loop' % cls.name
            try:
                ev = S.Evaluator(ctx, ast.FunctionDef(name='loop', args=lp.args, body=M.docstring_stripped(lp.body), decorator_list=[]))
                ev.run()
                keep = SHARED_CONSTANTS.get(cls.name, ())
                sig = make_sigma(ctx, keep)
                deltas = []
                for k, comp in enumerate(('d_au[d_idx]', 'd_av[d_idx]', 'd_aw[d_idx]')):
                    if comp not in ev.env:
                        deltas.append(Poly())
                        continue
                    delta = ev.env[comp] - ctx.var(comp)
                    deltas.append(delta)
                    P = ctx.mul(ctx.var('d_m[d_idx]'), delta)
                    tot = ctx.simplify(ctx.rename(P, sig) + P)
                    inst = '%s:%s:%s' % (short, cls.name, comp[2:4])
                    if tot.is_zero():
                        chk.holds('pair-antisymmetry', inst, node=lp, file=rel, func=who, detail='swap(m_a*da) + m_a*da == 0 (%d terms in m_a*da)' % len(P.t))
                    else:
                        opaque = [a for a in tot.atoms() if a.startswith(('SQRT{', 'POW{')) or '{' in a and not a.startswith(('INV{', 'IND{', 'ABS{', 'MAX{'))]
                        mono = sorted(tot.t.items(), key=lambda kv: len(kv[0]))[0]
                        wit = '*'.join(a if e == 1 else '%s^%d' % (a, e) for a, e in mono[0])
                        chk.violated('pair-antisymmetry', inst, node=stores[min(k, len(stores) - 1)], file=rel, func=who,
                                     detail='m_a * (contribution of b to a) + m_b * (contribution of a to b) does not vanish: residual has %d terms, e.g. %s*%s; '
                                            'the pair force is not equal and opposite, so sum(m a) != 0' % (len(tot.t), mono[1], wit))
                if kind == 'central':
                    # every kernel gradient is a scalar multiple of the separation vector: grad[k] = tmp * xij[k] (checked below on kernels.py)
                    def radial(name):
                        m = re.match(r'^(DWIJ|DWI|DWJ)\[(\d)\]$', name)
                        if m:
                            return ctx.mul(ctx.var('g_' + m.group(1)), ctx.var('XIJ[%s]' % m.group(2)))
                        return None
                    dl = [ctx.rename(d, radial) for d in deltas]
                    X = [ctx.var('XIJ[%d]' % i) for i in range(3)]
                    ok = True
                    for (i, j) in ((0, 1), (0, 2), (1, 2)):
                        cr = ctx.simplify(ctx.mul(dl[i], X[j]) - ctx.mul(dl[j], X[i]))
                        ok = ok and cr.is_zero()
                    chk.decide(ok, 'central-force', '%s:%s' % (short, cls.name), node=lp, file=rel, func=who,
                               detail_bad='the pair acceleration is not parallel to the separation x_ab (with grad W = (dW/dr) x_ab/r): it exerts a torque, '
                                          'sum(m x cross a) != 0', detail_ok='delta a x XIJ == 0 with every kernel gradient radial')
            except (S.Unsupported, S.Budget) as e:
                chk.undecided('pair-antisymmetry', '%s:%s' % (short, cls.name), node=lp, file=rel, func=who, detail='prover gave up: %s' % e)
            if cls.name in SHARED_CONSTANTS:
                chk.assume('%s: array constants %s are equal for the two interacting arrays' % (cls.name, ', '.join(SHARED_CONSTANTS[cls.name])))
    missing = set(PAIR_SYMMETRIC) - seen
    for k in sorted(missing):
        chk.error('classified equation %s in %s vanished or no longer accumulates into d_au/d_av/d_aw' % (k[1], k[0]))
    chk.floor('pair-symmetric equations proved', n, 17)
    chk.extra['checker_cmd'] = './check C09 --tier %s' % chk.tier
    chk.assume('ties in branch conditions (e.g. v.x == 0) are ignored; rounding is not modelled')
    chk.assume('the kernel is radially symmetric: W even and grad W odd in XIJ (C08), neighbour lists are symmetric (C01)')
    chk.assume('"summation density positive where a particle sees itself" needs W(0) > 0, a numeric fact; not decided')


if __name__ == '__main__':
    run_check('C09', main, level='proof')
