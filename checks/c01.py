"""C01 - every neighbour-search algorithm returns exactly the true neighbour set (static rules, DESIGN.md C01)."""
import ast
import glob
import os
import re
import sys
from fractions import Fraction

sys.path.insert(0, os.path.dirname(os.path.dirname(os.path.abspath(__file__))))
from verif_static.core import run_check, AnalysisError, REPO  # noqa
from verif_static.norm import same, same_stmt  # noqa
from verif_static import model as M, cfg as C, norm as N  # noqa
from verif_static.poly import Poly  # noqa

NB = 'pysph/base/nnps_base.pyx'


def U(n):
    return M.unparse(n)


def compact(n):
    return U(n).replace(' ', '')


def load_classes():
    rels = [os.path.relpath(p, REPO) for p in sorted(glob.glob(os.path.join(REPO, 'pysph/base/*_nnps.pyx'))) if 'gpu' not in p]
    rels.append(NB)
    ci = M.ClassIndex(rels)
    concrete = []
    for rel, cls in ci.subclasses('NNPS'):
        concrete.append((rel, cls))
    return ci, sorted(concrete, key=lambda x: x[1].name)


# ---------------------------------------------------------------------------
# symbolic resolution of the acceptance predicate
# ---------------------------------------------------------------------------

class Resolver(object):
    """Backward substitution of straight-line definitions inside one function (nearest textually preceding definition),
    with parameters of a helper bound at its call site in the calling method."""

    def __init__(self, ci, rel, cls, fn, caller=None, callsite=None, caller_res=None):
        self.ci, self.rel, self.cls, self.fn = ci, rel, cls, fn
        self.defs = {}
        for a in ast.walk(fn):
            if isinstance(a, ast.Assign):
                for t in a.targets:
                    for x in (t.elts if isinstance(t, ast.Tuple) else [t]):
                        if isinstance(x, ast.Name):
                            self.defs.setdefault(x.id, []).append(a)
            elif isinstance(a, ast.AnnAssign) and a.value is not None and isinstance(a.target, ast.Name):
                self.defs.setdefault(a.target.id, []).append(a)
            elif isinstance(a, ast.AugAssign) and isinstance(a.target, ast.Name):
                self.defs.setdefault(a.target.id, []).append(a)
        self.params = M.arg_names(fn)
        self.bind = {}
        if callsite is not None:
            names = [p for p in self.params if p != 'self']
            for p, a in zip(names, callsite.args):
                self.bind[p] = (a, caller_res)
        self.attr_defs = self._attr_defs()

    def _attr_defs(self):
        """self.<attr> = <expr over constructor parameters>, from the constructors in the MRO"""
        out = {}
        for r, c in self.ci.mro(self.rel, self.cls):
            for mn in ('__init__', '__cinit__'):
                f = M.methods(c).get(mn)
                if f is None:
                    continue
                for a in ast.walk(f):
                    if isinstance(a, ast.Assign) and isinstance(a.targets[0], ast.Attribute) and U(a.targets[0].value) == 'self':
                        out.setdefault(a.targets[0].attr, a.value)
        return out

    def pos(self, n):
        return (getattr(n, 'lineno', 0), getattr(n, 'col_offset', 0))

    def reaching(self, name, at):
        best = None
        for d in self.defs.get(name, []):
            if self.pos(d) < self.pos(at) and (best is None or self.pos(d) > self.pos(best)):
                best = d
        return best

    def sym(self, e, at, depth=0):
        """-> Poly over canonical atoms, or None"""
        if depth > 40:
            return None
        if isinstance(e, ast.Constant) and isinstance(e.value, (int, float)) and not isinstance(e.value, bool):
            return Poly.const(Fraction(e.value).limit_denominator(10 ** 12))
        if isinstance(e, ast.Name):
            d = self.reaching(e.id, at)
            if d is not None:
                if isinstance(d, ast.AugAssign):
                    prev = self.sym(ast.Name(id=e.id, ctx=ast.Load()), d, depth + 1)
                    rhs = self.sym(d.value, d, depth + 1)
                    if prev is None or rhs is None:
                        return None
                    if isinstance(d.op, ast.Mult):
                        return prev * rhs
                    if isinstance(d.op, ast.Add):
                        return prev + rhs
                    if isinstance(d.op, ast.Sub):
                        return prev - rhs
                    return None
                return self.sym(d.value, d, depth + 1)
            if e.id in self.bind:
                arg, res = self.bind[e.id]
                return res.sym(arg, arg, depth + 1)
            if e.id in ('radius_scale',):
                return Poly.var('RS')
            return Poly.var('?' + e.id)
        if isinstance(e, ast.Attribute) and isinstance(e.value, ast.Name) and e.attr in ('x', 'y', 'z'):
            d = self.reaching(e.value.id, at)
            if d is not None and not isinstance(d, ast.AugAssign) and isinstance(d.value, ast.Call) and M.call_name(d.value) == 'cPoint_new' \
                    and len(d.value.args) == 3:
                return self.sym(d.value.args['xyz'.index(e.attr)], d, depth + 1)
        if isinstance(e, ast.Attribute):
            s = compact(e)
            if s == 'self.radius_scale':
                return Poly.var('RS')
            if s.startswith('self.') and s.count('.') == 1 and e.attr in self.attr_defs:
                # attribute defined in the constructor from its parameters
                v = self.attr_defs[e.attr]
                sub = Resolver.__new__(Resolver)
                sub.__dict__.update(self.__dict__)
                sub.defs = {}
                sub.bind = {}
                return sub.sym(v, v, depth + 1)
            return Poly.var('?' + s)
        if isinstance(e, ast.Subscript):
            base = self.array(e.value, at)
            if base is None:
                return Poly.var('?' + compact(e))
            idx = e.slice
            if isinstance(idx, ast.Name) and idx.id in self.bind:
                idx = self.bind[idx.id][0]
            return Poly.var('%s[%s]' % (base, compact(idx)))
        if isinstance(e, ast.UnaryOp) and isinstance(e.op, ast.USub):
            p = self.sym(e.operand, at, depth + 1)
            return None if p is None else -p
        if isinstance(e, ast.BinOp):
            a, b = self.sym(e.left, at, depth + 1), self.sym(e.right, at, depth + 1)
            if a is None or b is None:
                return None
            if isinstance(e.op, ast.Add):
                return a + b
            if isinstance(e.op, ast.Sub):
                return a - b
            if isinstance(e.op, ast.Mult):
                return a * b
            return None
        if isinstance(e, ast.Call):
            nm = M.call_name(e) or ''
            if nm == 'norm2' and len(e.args) == 3:
                ps = [self.sym(a, at, depth + 1) for a in e.args]
                if any(p is None for p in ps):
                    return None
                return ps[0] * ps[0] + ps[1] * ps[1] + ps[2] * ps[2]
            if nm == 'sqrt' and len(e.args) == 1:
                p = self.sym(e.args[0], at, depth + 1)
                return None if p is None else Poly.var('SQRT{%s}' % p)
            return Poly.var('?' + compact(e))
        return None

    def array(self, e, at, depth=0):
        """canonical 'SRC.x' / 'DST.h' for an expression denoting the data of a coordinate/h array"""
        if depth > 12:
            return None
        if isinstance(e, ast.Name):
            d = self.reaching(e.id, at)
            if d is not None and not isinstance(d, ast.AugAssign):
                return self.array(d.value, d, depth + 1)
            if e.id in self.bind:
                arg, res = self.bind[e.id]
                return res.array(arg, arg, depth + 1)
            return None
        s = compact(e)
        if s.endswith('.data'):
            return self.array(e.value, at, depth + 1)
        if isinstance(e, ast.Attribute) and e.attr in ('x', 'y', 'z', 'h', 'gid'):
            side = self.side(e.value, at)
            return None if side is None else '%s.%s' % (side, e.attr)
        return None

    def side(self, e, at, depth=0):
        s = compact(e)
        if s == 'self.src':
            return 'SRC'
        if s == 'self.dst':
            return 'DST'
        if s in ('self.pa_wrappers[src_index]',):
            return 'SRC'
        if s in ('self.pa_wrappers[dst_index]',):
            return 'DST'
        if isinstance(e, ast.Name) and depth < 6:
            d = self.reaching(e.id, at)
            if d is not None and not isinstance(d, ast.AugAssign):
                return self.side(d.value, d, depth + 1)
        return None


def accept_sites(fn):
    """`if <test>: nbrs.append(j)` sites"""
    out = []
    for i in ast.walk(fn):
        if isinstance(i, ast.If):
            for b in ast.walk(ast.Module(body=i.body, type_ignores=[])):
                if isinstance(b, ast.Expr) and isinstance(b.value, ast.Call) and (M.call_name(b.value) or '').split('.')[-1] in ('append', 'c_append') \
                        and (M.call_name(b.value) or '').startswith('nbrs') and M.enclosing(b, (ast.If,)) is not None:
                    inner = M.enclosing(b, (ast.If,))
                    while inner is not None and inner is not i and not contains_dist_test(inner):
                        inner = M.enclosing(inner, (ast.If,))
                    if inner is i and contains_dist_test(i):
                        out.append((i, b))
    uniq = []
    for i, b in out:
        if not any(b is y for x, y in uniq):
            uniq.append((i, b))
    return uniq


def contains_dist_test(i):
    return isinstance(i.test, (ast.BoolOp, ast.Compare)) and any(isinstance(x, ast.Compare) and isinstance(x.ops[0], (ast.Lt, ast.LtE)) for x in ast.walk(i.test)) \
        and ('xij' in U(i.test) or 'dist' in U(i.test) or 'r2' in U(i.test))


def rule_acceptance(chk, ci, concrete):
    seen = {}
    bodies = []
    for rel, cls in concrete:
        got = ci.lookup_method(rel, cls, 'find_nearest_neighbors')
        if got is None or got[1].name in ('NNPSBase',):
            got = ci.lookup_method(rel, cls, 'get_nearest_particles_no_cache')
        if got is None:
            chk.violated('acceptance-predicate', cls.name + ':query', node=cls, file=rel, func=cls.name, detail='no neighbour query implementation')
            continue
        r2, c2, fn = got
        bodies.append((cls.name, r2, c2, M.continues_as_nesting(fn)))          # `if not accepted: continue; nbrs.append(j)` is `if accepted: nbrs.append(j)`
    # brute force reference too
    t = M.cy(NB)
    base = M.find_class(t, 'NNPSBase')
    bodies.append(('NNPSBase(brute_force)', NB, base, M.find_func(base, 'brute_force_neighbors')))
    ndistinct = 0
    for cname, rel, cdef, fn in bodies:
        key = (rel, cdef.name, fn.name)
        if key in seen:
            chk.holds('acceptance-predicate', cname + ':inherits', node=fn, file=rel, func='%s.%s' % (cdef.name, fn.name), detail='uses %s.%s' % (cdef.name, fn.name))
            continue
        seen[key] = True
        res = Resolver(ci, rel, cdef, fn)
        sites = [(fn, res, s) for s in accept_sites(fn)]
        # helpers called with the arrays as arguments (octree)
        if not sites:
            for c in M.calls(fn):
                nm = M.call_name(c) or ''
                if nm.startswith('self.') and nm.count('.') == 1:
                    h = ci.lookup_method(rel, cdef, nm[5:])
                    if h is not None and accept_sites(h[2]):
                        hres = Resolver(ci, h[0], h[1], h[2], caller=fn, callsite=c, caller_res=res)
                        sites += [(h[2], hres, s) for s in accept_sites(h[2])]
        if not sites:
            chk.undecided('acceptance-predicate', cname, node=fn, file=rel, func='%s.%s' % (cdef.name, fn.name), detail='no acceptance site `if d2 < ...: nbrs.append(j)` found')
            continue
        ndistinct += 1
        # `if d2 < hi2: append(j) else: <...> if d2 < hj2: append(j)` is the same acceptance as `if d2 < hi2 or d2 < hj2: append(j)`: an append site that sits in the
        # else branch of an earlier one for the same candidate is the second half of that test
        merged = []
        for f, r, (iff, app) in sites:
            j_ = compact(app.value.args[0])
            host = [m_ for m_ in merged if m_['f'] is f and m_['j'] == j_ and any(iff is x for b_ in m_['iff'].orelse for x in ast.walk(b_))]
            if host and not (isinstance(iff.test, ast.BoolOp) and isinstance(iff.test.op, ast.And)):
                host[0]['extra'].append(iff)
            else:
                merged.append({'f': f, 'r': r, 'iff': iff, 'app': app, 'j': j_, 'extra': []})
        for m_ in merged:
            f, r, iff, app = m_['f'], m_['r'], m_['iff'], m_['app']
            where = dict(node=iff, file=rel if f is fn else r.rel, func='%s.%s' % (cdef.name, f.name))
            inst = '%s.%s' % (cdef.name, f.name)
            j = compact(app.value.args[0])
            test = iff.test
            if isinstance(test, ast.BoolOp) and isinstance(test.op, ast.And):
                chk.violated('acceptance-predicate', inst, detail='acceptance test %s joins the two radii with `and`: a pair within only one of the two '
                             'support radii is dropped (the criterion is r < radius_scale*max(h_i, h_j))' % U(test), **where)
                continue
            pairs = [(c_, iff) for c_ in (test.values if isinstance(test, ast.BoolOp) else [test])]
            for x_ in m_['extra']:
                pairs += [(c_, x_) for c_ in (x_.test.values if isinstance(x_.test, ast.BoolOp) else [x_.test])]
            cmps = [c_ for c_, at_ in pairs]
            if not all(isinstance(c, ast.Compare) and len(c.ops) == 1 and isinstance(c.ops[0], (ast.Lt, ast.LtE)) for c in cmps):
                chk.undecided('acceptance-predicate', inst, detail='unrecognised acceptance test %s' % U(test), **where)
                continue
            lefts = [r.sym(c.left, at_) for c, at_ in pairs]
            rights = [r.sym(c.comparators[0], at_) for c, at_ in pairs]
            if any(p is None for p in lefts + rights):
                chk.undecided('acceptance-predicate', inst, detail='cannot resolve %s symbolically' % U(test), **where)
                continue
            d = 'd_idx'
            def v(s):
                return Poly.var(s)
            D2 = sum(((v('SRC.%s[%s]' % (a, j)) - v('DST.%s[%s]' % (a, d))) ** 2 for a in 'xyz'), Poly())
            RS = v('RS')
            HI, HJ = RS * v('DST.h[%s]' % d), RS * v('SRC.h[%s]' % j)
            squared = all(l == D2 for l in lefts)
            rooted = all(l == v('SQRT{%s}' % D2) for l in lefts)
            want = [HI * HI, HJ * HJ] if squared else [HI, HJ]
            if not (squared or rooted):
                chk.violated('acceptance-predicate', inst, detail='the quantity compared (%s) is not the squared distance between destination d_idx and '
                             'candidate %s taken from the source array' % (lefts[0], j), **where)
                continue
            got = sorted(str(x) for x in rights)
            if len(cmps) == 2 and got == sorted(str(x) for x in want):
                chk.holds('acceptance-predicate', inst, detail='d2 < (k h_dst[d_idx])^2 or d2 < (k h_src[%s])^2, candidate appended is %s' % (j, j), **where)
            else:
                chk.violated('acceptance-predicate', inst, detail='radii compared are %s; expected %s (both the destination\'s and the candidate\'s own '
                             'smoothing length, each times radius_scale, %s)' % (got, sorted(str(x) for x in want), 'squared' if squared else 'unsquared'), **where)
    chk.floor('distinct neighbour query bodies', ndistinct, 10)


# ---------------------------------------------------------------------------
# context wiring / cross-array indices
# ---------------------------------------------------------------------------

def rule_cached_entry(chk):
    """NNPSBase.get_nearest_particles (the Python-level query), per path with locals substituted: with the cache on, the answer comes from cache[dst*narrays + src] - the
    slot the compiled loops and set_context use for that pair - after the context was switched when the pair differs from the current one (shared with C09: a list filed
    under the reverse pair is handed to the pair-symmetric equations of that pair)"""
    from verif_static import paths as PT
    t = M.cy(NB)
    base = M.find_class(t, 'NNPSBase')
    f3 = M.find_func(base, 'get_nearest_particles')
    pn = [a.arg for a in f3.args.args if a.arg != 'self']
    src, dst, did, out = (pn + ['?'] * 4)[:4]
    ok, why, ncached, nplain = True, '', 0, 0
    for p_ in PT.enumerate_paths(M.docstring_stripped(f3.body)):
        if p_[-1].kind != 'return' or p_[-1].node.value is None:
            ok, why = False, 'a path returns nothing'
            continue
        cached_t = PT.took(p_, True, 'self.use_cache')
        rv = PT.resolve(p_[-1].node.value, p_[-1].env)
        if cached_t is None:
            nplain += 1
            if not (isinstance(rv, ast.Call) and compact(rv.func) == 'self.get_nearest_particles_no_cache' and [compact(x) for x in rv.args[:4]] == [src, dst, did, out]):
                ok, why = False, 'without the cache the query is %s' % U(rv)[:80]
            continue
        ncached += 1
        if not (isinstance(rv, ast.Call) and isinstance(rv.func, ast.Attribute) and rv.func.attr == 'get_neighbors' and
                same(rv.func.value, 'self.cache[%s*self.narrays+%s]' % (dst, src)) and [compact(x) for x in rv.args] == [src, did, out]):
            ok, why = False, 'with the cache on the answer is %s' % U(rv)[:100]
            continue
        differs = PT.took(p_, True, 'self.src_index != %s or self.dst_index != %s' % (src, dst))
        same_ctx = PT.took(p_, False, 'self.src_index != %s or self.dst_index != %s' % (src, dst))
        if same_ctx is None:
            same_ctx = PT.took(p_, True, 'self.src_index == %s and self.dst_index == %s' % (src, dst))
        sets_ = [i for i, c, cal, env in PT.calls_on(p_) if cal == 'self.set_context' and [compact(PT.resolve(x, env)) for x in c.args] == [src, dst]]
        if differs is None and same_ctx is None and not sets_:
            ok, why = False, 'the context is not compared with the pair asked for'
        elif differs is not None and not [i for i in sets_ if i > differs]:
            ok, why = False, 'the context is not switched when the pair differs'
    chk.decide(ok and ncached > 0 and nplain > 0, 'context-wiring', 'cached-entry', node=f3, file=NB, func='NNPSBase.get_nearest_particles',
               detail_bad='the cached entry does not select cache[dst*narrays + src] after ensuring the context is (src, dst): %s' % why, detail_ok='cache[dst*narrays+src], context switched when the pair changes')


def rule_context(chk, ci, concrete):
    n = 0
    for rel, cls in concrete:
        sc = M.methods(cls).get('set_context')
        if sc is None:
            continue
        n += 1
        who = cls.name + '.set_context'
        binds = {}
        for a in ast.walk(sc):
            if isinstance(a, ast.Assign) and isinstance(a.targets[0], ast.Attribute) and U(a.targets[0].value) == 'self':
                binds[a.targets[0].attr] = a.value
        chk.decide(any(M.call_name(c) in ('NNPS.set_context', 'NNPSBase.set_context') or (M.call_name(c) or '').endswith('.set_context')
                       for c in M.calls(sc)), 'context-wiring', who + ':calls-base', node=sc, file=rel, func=who,
                   detail_bad='base set_context (which records src_index/dst_index and the current cache) is not called', detail_ok='NNPS.set_context first')
        for attr, val in sorted(binds.items()):
            s = compact(val)
            uses_src, uses_dst = 'src_index' in s, 'dst_index' in s
            if not (uses_src or uses_dst):
                continue
            if attr == 'dst' or 'dst' in attr:
                ok = uses_dst and not uses_src
                want = 'dst_index'
            else:
                ok = uses_src and not uses_dst
                want = 'src_index'
            chk.decide(ok, 'context-wiring', '%s:%s' % (who, attr), node=val, file=rel, func=who,
                       detail_bad='self.%s = %s: structures searched for candidates belong to the SOURCE array (src_index), the query point to the '
                                  'destination (dst_index); expected %s here' % (attr, U(val), want), detail_ok='%s <- %s' % (attr, want))
    chk.floor('set_context implementations', n, 9)
    # cross-array index: a value read from a destination-side per-array table must not subscript a source-side per-array table
    for rel, cls in concrete:
        sc = M.methods(cls).get('set_context')
        fn = M.methods(cls).get('find_nearest_neighbors')
        if sc is None or fn is None:
            continue
        side = {}
        for a in ast.walk(sc):
            if isinstance(a, ast.Assign) and isinstance(a.targets[0], ast.Attribute) and U(a.targets[0].value) == 'self':
                s = compact(a.value)
                if a.targets[0].attr in ('src', 'dst'):
                    continue
                if 'dst_index' in s and 'src_index' not in s:
                    side[a.targets[0].attr] = 'DST'
                elif 'src_index' in s and 'dst_index' not in s:
                    side[a.targets[0].attr] = 'SRC'
        if 'DST' not in side.values():
            continue
        res = Resolver(ci, rel, cls, fn)

        def taint(e, at, depth=0):
            """set of destination-side tables this expression's value was read from"""
            out = set()
            if depth > 10:
                return out
            stack = [e]
            while stack:
                x = stack.pop()
                if isinstance(x, ast.Subscript) and isinstance(x.value, ast.Attribute) and U(x.value.value) == 'self':
                    if side.get(x.value.attr) == 'DST':
                        out.add(x.value.attr)
                        continue
                    if side.get(x.value.attr) == 'SRC':
                        continue          # a value read from a source table is a source-side value
                if isinstance(x, ast.Name):
                    d = res.reaching(x.id, at)
                    if d is not None and not isinstance(d, ast.AugAssign):
                        out |= taint(d.value, d, depth + 1)
                stack.extend(ast.iter_child_nodes(x))
            return out
        for x in ast.walk(fn):
            if isinstance(x, ast.Subscript) and isinstance(x.value, ast.Attribute) and U(x.value.value) == 'self' and side.get(x.value.attr) == 'SRC':
                tn = taint(x.slice, x)
                inst = '%s.find_nearest_neighbors:%s' % (cls.name, x.value.attr)
                if tn:
                    chk.violated('cross-array-index', inst, node=x, file=rel, func=cls.name + '.find_nearest_neighbors',
                                 detail='self.%s (a table of the SOURCE array) is subscripted with a value read from self.%s (a table of the '
                                        'DESTINATION array): rows of the source table exist only for cells occupied by source particles, so a '
                                        'destination particle whose cell holds no source particle gets no neighbours when source != destination'
                                        % (x.value.attr, '/'.join(sorted(tn))))
                else:
                    chk.holds('cross-array-index', inst, node=x, file=rel, func=cls.name + '.find_nearest_neighbors', detail='index not derived from a destination-side table')


def rule_own_cell_miss(chk, ci, concrete):
    """a query must not give up (return) because the destination's own cell is absent from a table that only lists cells
    occupied by SOURCE particles: the neighbouring cells may still hold neighbours"""
    for rel, cls in concrete:
        sc = M.methods(cls).get('set_context')
        fn = M.methods(cls).get('find_nearest_neighbors')
        if sc is None or fn is None:
            continue
        src_tabs = set()
        for a in ast.walk(sc):
            if isinstance(a, ast.Assign) and isinstance(a.targets[0], ast.Attribute) and U(a.targets[0].value) == 'self' and \
                    'src_index' in compact(a.value) and a.targets[0].attr not in ('src', 'dst'):
                src_tabs.add(a.targets[0].attr)
        res = Resolver(ci, rel, cls, fn)

        def from_src_table(e, at, depth=0):
            if depth > 8:
                return False
            for x in ast.walk(e):
                if isinstance(x, ast.Attribute) and U(x.value) == 'self' and x.attr in src_tabs:
                    return True
                if isinstance(x, ast.Name):
                    d = res.reaching(x.id, at)
                    if d is not None and not isinstance(d, ast.AugAssign) and from_src_table(d.value, d, depth + 1):
                        return True
            return False
        first_accept = min([i.lineno for i, b in accept_sites(fn)] or [10 ** 9])
        n = 0
        for r in ast.walk(fn):
            if isinstance(r, ast.Return) and r.lineno < first_accept:
                gi = M.enclosing(r, (ast.If,))
                if gi is None or M.enclosing(r, (ast.For, ast.While)) is not None:
                    continue
                n += 1
                if from_src_table(gi.test, gi):
                    chk.violated('own-cell-miss', '%s.find_nearest_neighbors' % cls.name, node=gi, file=rel, func=cls.name + '.find_nearest_neighbors',
                                 detail='the query returns an empty list when `%s` - a look-up of the destination particle\'s own cell in a table that lists '
                                        'only cells occupied by SOURCE particles - finds nothing; neighbours in the adjacent cells are then missed whenever '
                                        'source != destination' % U(gi.test))
        if n == 0:
            chk.holds('own-cell-miss', '%s.find_nearest_neighbors' % cls.name, node=fn, file=rel, func=cls.name + '.find_nearest_neighbors',
                      detail='no early return before the neighbour cells are enumerated')


# ---------------------------------------------------------------------------
# freshness: update order, cache invalidation, context re-established
# ---------------------------------------------------------------------------

def rule_update(chk, ci, concrete):
    t = M.cy(NB)
    nn = M.find_class(t, 'NNPS')
    # helpers a maintainer has split update() into (`_update_caches()`) are written back in place; the steps the rules name stay calls
    up = M.self_aliases_inlined_deep(M.inline_helpers(nn, M.find_func(nn, 'update'), keep=set(['_compute_bounds', '_refresh', '_bin', '_compute_cell_size']) | set(n_ for n_ in M.methods(nn) if not n_.startswith('_'))))
    g = C.build_cfg(up)

    def nodes(pred):
        return [n.id for n in g.nodes if n.ast is not None and isinstance(n.ast, (ast.Expr, ast.Assign)) and pred(n.ast)]
    bounds = nodes(lambda a: any(M.call_name(c) == 'self._compute_bounds' for c in M.calls(a)))
    refresh = nodes(lambda a: any(M.call_name(c) == 'self._refresh' for c in M.calls(a)))
    bins = nodes(lambda a: any(M.call_name(c) == 'self._bin' for c in M.calls(a)))
    cupd = nodes(lambda a: any(M.call_name(c) == 'cache.update' for c in M.calls(a)))
    ctx = nodes(lambda a: any(M.call_name(c) == 'self.set_context' for c in M.calls(a)))
    binloop = None
    if bins:
        bl = M.enclosing(g.nodes[bins[0]].ast, (ast.For,))
        binloop = g.node_of(bl) if bl is not None else bins[0]
    ok = bool(bounds and refresh and bins) and g.dominates(bounds[0], refresh[0]) and g.dominates(refresh[0], bins[0])
    chk.decide(ok, 'results-not-stale', 'update:bounds<refresh<bin', node=up, file=NB, func='NNPS.update',
               detail_bad='update() does not compute bounds, refresh and then bin in this order on every path', detail_ok='_compute_bounds -> _refresh -> _bin')
    if bins:
        loop = M.enclosing(g.nodes[bins[0]].ast, (ast.For,))
        bc = [c for c in M.calls(g.nodes[bins[0]].ast) if M.call_name(c) == 'self._bin'][0]
        kw = dict((k.arg, compact(k.value)) for k in bc.keywords)
        ok = loop is not None and compact(loop.iter) == 'range(self.narrays)' and kw.get('pa_index') == U(loop.target) and \
            not any(isinstance(x, (ast.Continue, ast.Break, ast.If)) for x in ast.walk(loop))
        # what is binned, with the locals of the loop body substituted: every index of the array as it is now
        kwv = dict((k.arg, k.value) for k in bc.keywords)
        ld_ = N.local_defs(loop.body) if loop is not None else {}
        iv_ = U(loop.target) if loop is not None else '?'
        ok = ok and 'indices' in kwv and compact(N.inline(kwv['indices'], ld_)) == 'arange_uint(self.particles[%s].get_number_of_particles())' % iv_
        chk.decide(ok, 'results-not-stale', 'update:every-array-every-particle-binned', node=loop or up, file=NB, func='NNPS.update',
                   detail_bad='not every particle of every array is (re)binned', detail_ok='_bin(pa_index=i, indices=arange(n_i)) for all arrays')
    if cupd:
        cn = g.nodes[cupd[0]].ast
        loop = M.enclosing(cn, (ast.For,))
        gi = M.enclosing(cn, (ast.If,))
        ok = loop is not None and compact(loop.iter) == 'self.cache' and gi is not None and compact(gi.test) == 'self.use_cache' and \
            binloop is not None and g.dominates(binloop, cupd[0])
        chk.decide(ok, 'results-not-stale', 'update:all-caches-invalidated', node=cn, file=NB, func='NNPS.update',
                   detail_bad='with caching on, not every cache is invalidated after re-binning', detail_ok='for cache in self.cache: cache.update() after binning')
    else:
        chk.violated('results-not-stale', 'update:all-caches-invalidated', node=up, file=NB, func='NNPS.update', detail='caches are never invalidated on update()')
    # update() refreshes the caches only while caching is on (the guard checked above), so whatever switches caching on after construction must itself invalidate every cache:
    # lists filled before caching was switched off describe the particles as they were then
    from verif_static import paths as PT_
    ncls = M.find_class(M.cy(NB), 'NNPS')
    gated = bool(cupd) and M.enclosing(g.nodes[cupd[0]].ast, (ast.If,)) is not None
    nsw = 0
    for mname, mfn in sorted(M.methods(ncls).items()):
        if mname in ('__init__', '__cinit__'):
            continue
        if not any(isinstance(a, ast.Assign) and compact(a.targets[0]) == 'self.use_cache' for a in ast.walk(mfn)):
            continue
        nsw += 1
        bad_p = None
        for p_ in PT_.enumerate_paths(M.docstring_stripped(mfn.body)):
            st = [(i, e) for i, e in enumerate(p_) if e.kind == 'stmt' and isinstance(e.node, ast.Assign) and compact(e.node.targets[0]) == 'self.use_cache']
            if not st:
                continue
            i0, e0 = st[-1]
            val = compact(PT_.resolve(e0.node.value, e0.env))
            if val in ('False', '0') or PT_.took(p_, False, val, 'self.use_cache') is not None:
                continue            # switched off on this path
            # every cache invalidated: a loop over self.cache after the store whose body calls update() on the loop variable; the zero-trip path has no cache to invalidate
            lp = [(i, e) for i, e in enumerate(p_) if i > i0 and e.kind == 'loop' and isinstance(e.node, ast.For) and compact(e.node.iter) == 'self.cache']
            okp = False
            for i, e in lp:
                tv = U(e.node.target)
                direct = [x for x in e.node.body if isinstance(x, ast.Expr) and isinstance(x.value, ast.Call) and M.call_name(x.value) == tv + '.update']
                if direct:
                    okp = True
            if not okp and not (not gated and bool(cupd)):
                bad_p = bad_p or [compact(PT_.resolve(e.node, e.env)) + ' is %s' % e.truth for e in p_ if e.kind == 'cond']
        chk.decide(bad_p is None, 'results-not-stale', '%s:switching-the-cache-on-invalidates-it' % mname, node=mfn, file=NB, func='NNPS.' + mname,
                   detail_bad='NNPS.%s sets self.use_cache on a path (%s) that does not call update() on every cache of self.cache, while NNPS.update() skips the caches as long as caching is '
                              'off: after set_use_cache(False); <particles move>; update(); set_use_cache(True) every query is answered from the lists of the old positions' % (mname, bad_p),
                   detail_ok='for cache in self.cache: cache.update() on every path that may switch caching on')
    chk.floor('methods that switch the neighbour cache', nsw, 1)
    # context re-established after re-allocation and before first use
    ok = bool(ctx) and bool(refresh) and binloop is not None and g.dominates(refresh[0], ctx[0]) and g.dominates(binloop, ctx[0])
    if ok:
        gi0 = M.enclosing(g.nodes[ctx[0]].ast, (ast.If,))
        ok = g.must_pass(g.entry, g.exit, ctx) or (gi0 is not None and compact(gi0.test) == 'self.narrays>0' and g.must_pass(g.entry, g.exit, [g.node_of(gi0)]))
    if ok:
        c = [x for x in M.calls(g.nodes[ctx[0]].ast) if M.call_name(x) == 'self.set_context'][0]
        ok = [compact(a) for a in c.args] == ['self.src_index', 'self.dst_index']
        gi = M.enclosing(g.nodes[ctx[0]].ast, (ast.If,))
        ok = ok and (gi is None or compact(gi.test) in ('self.narrays>0',))
    base_ok = ok
    # per class: pointers cached by set_context whose storage the update path re-allocates
    for rel, cls in concrete:
        sc = M.methods(cls).get('set_context')
        if sc is None:
            continue
        P = {}
        for a in ast.walk(sc):
            if isinstance(a, ast.Assign) and isinstance(a.targets[0], ast.Attribute) and U(a.targets[0].value) == 'self' and \
                    isinstance(a.value, ast.Subscript) and isinstance(a.value.value, ast.Attribute) and U(a.value.value.value) == 'self':
                P[a.targets[0].attr] = a.value.value.attr
        # storages re-allocated / freed in _refresh/_bin and their callees
        R = set()
        todo = ['_refresh', '_bin']
        seen = set()
        while todo:
            m = todo.pop()
            if m in seen:
                continue
            seen.add(m)
            got = ci.lookup_method(rel, cls, m)
            if got is None:
                continue
            f = got[2]
            for a in ast.walk(f):
                if isinstance(a, ast.Assign) and isinstance(a.targets[0], ast.Subscript) and isinstance(a.targets[0].value, ast.Attribute) and \
                        U(a.targets[0].value.value) == 'self' and isinstance(a.value, ast.Call) and \
                        (M.call_name(a.value) or '').split('.')[-1] in ('malloc', 'calloc', 'realloc', 'aligned_malloc'):
                    R.add(a.targets[0].value.attr)
                if isinstance(a, ast.Assign) and isinstance(a.targets[0], ast.Subscript) and isinstance(a.targets[0].value, ast.Attribute) and \
                        U(a.targets[0].value.value) == 'self' and isinstance(a.value, ast.Name) and a.value.id.startswith('__new__'):
                    R.add(a.targets[0].value.attr)
                if isinstance(a, ast.Assign) and isinstance(a.targets[0], ast.Subscript) and isinstance(a.targets[0].value, ast.Attribute) and \
                        U(a.targets[0].value.value) == 'self' and isinstance(a.value, ast.Call) and (M.call_name(a.value) or '').startswith('__new__'):
                    R.add(a.targets[0].value.attr)
            for c in M.calls(f):
                nm = M.call_name(c) or ''
                if nm in ('free', 'del') and c.args and isinstance(c.args[0], ast.Subscript) and compact(c.args[0].value).startswith('self.'):
                    R.add(compact(c.args[0].value)[5:])
                if nm.startswith('self.') and nm.count('.') == 1:
                    todo.append(nm[5:])
            for d in ast.walk(f):
                if isinstance(d, ast.Delete):
                    for tg in d.targets:
                        if isinstance(tg, ast.Subscript) and compact(tg.value).startswith('self.'):
                            R.add(compact(tg.value)[5:])
        stale = sorted(p for p, storage in P.items() if storage in R)
        if not stale:
            chk.holds('no-stale-context-pointers', cls.name, node=sc, file=rel, func=cls.name, detail='no cached pointer refers to storage that update() re-allocates')
            continue
        # re-derived in the class itself?
        rederived = set()
        for m in seen:
            got = ci.lookup_method(rel, cls, m)
            if got is None:
                continue
            for a in ast.walk(got[2]):
                if isinstance(a, ast.Assign) and isinstance(a.targets[0], ast.Attribute) and U(a.targets[0].value) == 'self' and \
                        a.targets[0].attr in P and ('self.src_index' in compact(a.value) or 'self.dst_index' in compact(a.value)):
                    rederived.add(a.targets[0].attr)
        missing = [p for p in stale if p not in rederived]
        chk.decide(base_ok or not missing, 'no-stale-context-pointers', cls.name, node=sc, file=rel, func=cls.name,
                   detail_bad='set_context caches %s from per-array storage that _refresh/_bin free and re-allocate, but nothing re-derives them before '
                              'update() returns; with the cache on, the next query for the same (source, destination) pair dereferences freed memory'
                              % missing, detail_ok='%s re-derived (%s)' % (stale, 'NNPS.update re-establishes the context' if base_ok else 'in _refresh'))
    # context exists before the first query: every concrete constructor ends by calling update()
    for rel, cls in concrete:
        got = ci.lookup_method(rel, cls, '__init__')
        ok = False
        if got is not None:
            r2, c2, init = got
            ok = any(M.call_name(c) == 'self.update' for c in M.calls(init))
            if not ok:
                # delegates to a base constructor that does
                for c in M.calls(init):
                    nm = M.call_name(c) or ''
                    if nm.endswith('.__init__') and nm.split('.')[0] not in ('NNPS', 'NNPSBase'):
                        b = ci.resolve(r2, nm.split('.')[0])
                        if b is not None:
                            bi = M.methods(b[1]).get('__init__')
                            ok = bi is not None and any(M.call_name(x) == 'self.update' for x in M.calls(bi))
        guard_init = False
        chk.decide((ok and base_ok) or guard_init, 'context-before-first-query', cls.name, node=cls, file=rel, func=cls.name + '.__init__',
                   detail_bad='the (src_index, dst_index) fields read as (0, 0) before any set_context; with the cache on the first query for pair '
                              '(0, 0) skips set_context and uses unset pointers' if not base_ok else 'constructor does not call update(), so no context is established',
                   detail_ok='constructor calls update(), which establishes the context')
    rule_cache(chk)


def rule_cache(chk):
    t = M.cy(NB)
    # NeighborCache
    nc = M.find_class(t, 'NeighborCache')
    from verif_static import paths as PT
    cu = M.find_func(nc, 'update')
    upaths = PT.enumerate_paths(M.docstring_stripped(cu.body))
    COUNT = 'self._particles[self._dst_index].get_number_of_particles()'

    def loops_entered(pths):
        seen = {}
        for p_ in pths:
            for e in p_:
                if e.kind == 'loop' and e.truth and id(e.node) not in seen:
                    seen[id(e.node)] = e
        return list(seen.values())
    ok = False
    okb = False
    for e in loops_entered(upaths):
        l = e.node
        if not (isinstance(l, ast.For) and isinstance(l.target, ast.Name) and isinstance(l.iter, ast.Call) and M.call_name(l.iter) == 'range' and len(l.iter.args) == 1):
            continue
        bound = compact(PT.resolve(l.iter.args[0], e.env))
        lv = l.target.id
        zero = [a for a in l.body if isinstance(a, ast.Assign) and compact(a.targets[0]) == 'self._cached.data[%s]' % lv and compact(a.value) == '0']
        if zero and bound == COUNT and M.enclosing(l, (ast.If, ast.For, ast.While)) is None and not any(isinstance(x, ast.Return) for x in ast.walk(cu)):
            rs = [c for c in M.calls(cu) if M.call_name(c) == 'self._cached.resize' and compact(PT.resolve(c.args[0], e.env)) == COUNT]
            ok = bool(rs)
        if bound == 'self._n_threads':
            inner = PT.enumerate_paths(list(l.body))
            okb = okb or all(any(cal == 'self._neighbors[%s].c_reset' % lv for i, c, cal, env in PT.calls_on(p2)) for p2 in inner)
    chk.decide(ok, 'results-not-stale', 'cache:every-entry-invalidated-unconditionally', node=cu, file=NB, func='NeighborCache.update',
               detail_bad='NeighborCache.update does not clear the "cached" flag of every current destination particle on every call (an early return '
                          'or a condition keeps old - possibly empty - neighbour lists alive after particles moved)',
               detail_ok='_cached[i] = 0 for all i < current particle count, no early exit')
    chk.decide(okb, 'results-not-stale', 'cache:thread-buffers-reset', node=cu, file=NB, func='NeighborCache.update',
               detail_bad='per-thread neighbour buffers are not emptied on update', detail_ok='every thread buffer c_reset()')
    # a cache fill: append into the calling thread's own buffer; remember (thread, length before, length after) for this particle
    fnb = M.find_func(nc, '_find_neighbors')
    did = fnb.args.args[1].arg
    fpaths = PT.enumerate_paths(M.docstring_stripped(fnb.body))
    ok = len(fpaths) == 1
    why = 'straight-line fill'
    if ok:
        p_ = fpaths[0]
        qs = [(i, c, env) for i, c, cal, env in PT.calls_on(p_) if cal.endswith('.find_nearest_neighbors')]
        ok = len(qs) == 1 and len(qs[0][1].args) == 2 and compact(qs[0][1].args[0]) == did
        why = 'one query for the particle'
        if ok:
            iq, qc, qenv = qs[0]
            buf = compact(PT.resolve(qc.args[1], qenv))
            ok = buf == 'self._neighbors[threadid()]'
            why = 'buffer selected by threadid()'
            sto = PT.stores_on(p_)
            first = [(i, v) for i, tg, v in sto if tg.startswith('self._start_stop.data[') and same(ast.parse(tg, mode='eval').body.slice, '2*%s' % did)]
            second = [(i, v) for i, tg, v in sto if tg.startswith('self._start_stop.data[') and same(ast.parse(tg, mode='eval').body.slice, '2*%s+1' % did)]
            if ok:
                ok = len(first) == 1 and len(second) == 1 and compact(first[0][1]) == buf + '.length' and compact(second[0][1]) == buf + '.length' and first[0][0] < iq < second[0][0] and \
                    len([1 for i, tg, v in sto if tg.startswith('self._start_stop.data[')]) == 2
                why = 'start = buffer length before the query at [2*i], stop = length after it at [2*i+1]'
            if ok:
                cz = [(i, v) for i, tg, v in sto if tg == 'self._cached.data[%s]' % did]
                pt = [(i, v) for i, tg, v in sto if tg == 'self._pid_to_tid.data[%s]' % did]
                ok = len(cz) == 1 and isinstance(cz[0][1], ast.Constant) and cz[0][1].value == 1 and cz[0][0] > iq and len(pt) == 1 and compact(pt[0][1]) == 'threadid()'
                why = 'cached flag set after the query; thread id recorded'
    chk.decide(ok, 'results-not-stale', 'cache:fill-uses-own-thread-buffer', node=fnb, file=NB, func='NeighborCache._find_neighbors',
               detail_bad='a cache fill does not append into the calling thread\'s own buffer and record (thread, start, stop) for the particle [failed: %s]' % why,
               detail_ok='own buffer, start/stop recorded around the query')
    gr = M.find_func(nc, 'get_neighbors_raw')
    did = gr.args.args[1].arg
    out = gr.args.args[2].arg
    # per path, with locals and pointer aliases substituted: a particle not yet cached is filled first; the view handed out is [start, stop) of the buffer of the thread
    # that recorded the particle
    X_ = 'self._cached.data[%s]' % did
    ok, n_miss, n_hit = True, 0, 0
    for p_ in PT.enumerate_paths(M.docstring_stripped(gr.body)):
        if p_[-1].kind == 'raise':
            continue
        cl = PT.calls_on(p_)
        views = [(i, c, env) for i, c, cal, env in cl if cal == out + '.c_set_view']
        fills = [i for i, c, cal, env in cl if cal == 'self._find_neighbors' and [compact(PT.resolve(x, env)) for x in c.args] == [did]]
        miss_t = PT.took(p_, True, X_ + ' == 0')
        if miss_t is None:
            miss_t = PT.took(p_, False, X_)
        hit_t = PT.took(p_, False, X_ + ' == 0')
        if hit_t is None:
            hit_t = PT.took(p_, True, X_)
        if len(views) != 1 or len(views[0][1].args) != 2 or (miss_t is None and hit_t is None):
            ok = False
            continue
        iv, vc, venv = views[0]
        if miss_t is not None:
            n_miss += 1
            if not fills or not (miss_t < fills[0] < iv):
                ok = False
        else:
            n_hit += 1
        ptr, n_e = [PT.resolve(x, venv) for x in vc.args]
        want_ptr = '__addr__(self._neighbors[self._pid_to_tid.data[%s]].data[self._start_stop.data[2*%s]])' % (did, did)
        want_n = 'self._start_stop.data[2*%s+1] - self._start_stop.data[2*%s]' % (did, did)
        if not (same(ptr, want_ptr) and same(n_e, want_n)):
            ok = False
    ok = ok and n_miss > 0 and n_hit > 0
    # the caller's array is re-pointed on every path (also for a particle without neighbours: a view of length 0, not whatever the array held before)
    gpaths = PT.enumerate_paths(M.docstring_stripped(gr.body))
    unset = [p_ for p_ in gpaths if p_[-1].kind != 'raise' and not any(cal == out + '.c_set_view' for i, c, cal, env in PT.calls_on(p_))]
    chk.decide(bool(gpaths) and not unset, 'results-not-stale', 'cache:lookup-sets-the-view-on-every-path', node=gr, file=NB, func='NeighborCache.get_neighbors_raw',
               detail_bad='a path through the cached lookup leaves the caller\'s array untouched (tests on it: %s): a re-used array then still shows the previous particle\'s neighbours'
                          % ([U(e.node) + ' -> %s' % e.truth for e in unset[0] if e.kind == 'cond'] if unset else ''), detail_ok='c_set_view on every path')
    chk.decide(ok, 'results-not-stale', 'cache:lookup-returns-own-slice', node=gr, file=NB, func='NeighborCache.get_neighbors_raw',
               detail_bad='cached lookup does not fill on miss and return exactly [start, stop) of the recording thread\'s buffer', detail_ok='fill on miss; view [start, stop) of buffer[tid]')


def value_of(fn, name):
    """the single value assigned to a local name in fn (None when there is none or several)"""
    vs = [a.value for a in ast.walk(fn) if isinstance(a, (ast.Assign, ast.AnnAssign)) and a.value is not None and
          compact(a.target if isinstance(a, ast.AnnAssign) else a.targets[0]) == name]
    return vs[0] if len(vs) == 1 else None


def resolve(fn, e):
    """a local name replaced by the single value assigned to it"""
    if isinstance(e, ast.Name):
        v = value_of(fn, e.id)
        return v if v is not None else e
    return e


def stores_to(fn, base):
    """(index, value, statement) for every `base[index] = value` in fn"""
    return [(a.targets[0].slice, a.value, a) for a in ast.walk(fn) if isinstance(a, ast.Assign) and isinstance(a.targets[0], ast.Subscript) and compact(a.targets[0].value) == base]


def rule_duplicates(chk):
    t = M.cy(NB)
    base = M.find_class(t, 'NNPSBase')
    nn = M.find_class(t, 'NNPS')
    f = M.find_func(base, 'get_nearest_particles_no_cache')
    g = C.build_cfg(f)
    q = [n.id for n in g.nodes if n.ast is not None and isinstance(n.ast, ast.Expr) and M.call_name(n.ast.value) == 'self.find_nearest_neighbors']
    rs = [n.id for n in g.nodes if n.ast is not None and ((isinstance(n.ast, ast.Expr) and M.call_name(n.ast.value) in ('nbrs.c_reset', 'nbrs.reset')) or
                                                          (isinstance(n.ast, ast.Assign) and compact(n.ast) == 'nbrs.length=0'))]
    sc = [n.id for n in g.nodes if n.ast is not None and isinstance(n.ast, ast.Expr) and M.call_name(n.ast.value) == 'self.set_context']
    chk.decide(bool(q) and bool(rs) and g.must_pass(g.entry, q[0], rs), 'no-duplicates', 'uncached-entry-resets-output', node=f, file=NB,
               func='NNPSBase.get_nearest_particles_no_cache', detail_bad='the output list is not emptied on every path before neighbours are appended',
               detail_ok='reset (or length = 0) before the query')
    chk.decide(bool(q) and bool(sc) and g.dominates(sc[0], q[0]) and [compact(a) for a in g.nodes[sc[0]].ast.value.args] == ['src_index', 'dst_index'],
               'context-wiring', 'uncached-entry-sets-context', node=f, file=NB, func='NNPSBase.get_nearest_particles_no_cache',
               detail_bad='the query runs without set_context(src_index, dst_index) first', detail_ok='set_context(src_index, dst_index) dominates the query')
    # which reset: an output array may be a *view* into a neighbour-cache buffer (the cached entry hands out views); c_reset() detaches it, `length = 0` does not - the search
    # would then append into the cache's storage and later cached queries return those entries.  `length = 0` is therefore only for the caller that says it pre-allocated.
    from verif_static import paths as PT
    n_over = 0
    for p_file in sorted(glob.glob(os.path.join(REPO, 'pysph/base/*_nnps.pyx'))) + [os.path.join(REPO, NB)]:
        if 'gpu' in p_file:
            continue
        rel_ = os.path.relpath(p_file, REPO)
        for cls_ in M.classes(M.cy(rel_)):
            fo = M.methods(cls_).get('get_nearest_particles_no_cache')
            if fo is None:
                continue
            n_over += 1
            params = M.arg_names(fo)
            outp = params[4] if len(params) > 4 else 'nbrs'
            flag = params[5] if len(params) > 5 else 'prealloc'
            bad_ = []
            for p_ in PT.enumerate_paths(M.docstring_stripped(fo.body)):
                qs = [i for i, c, cal, env in PT.calls_on(p_) if cal == 'self.find_nearest_neighbors']
                if not qs:
                    continue
                detached = any(cal in (outp + '.c_reset', outp + '.reset') and i < qs[0] for i, c, cal, env in PT.calls_on(p_))
                trunc = any(e.kind == 'stmt' and isinstance(e.node, ast.Assign) and compact(e.node) == outp + '.length=0' for e in p_[:qs[0]])
                pre = PT.took(p_, True, flag) is not None
                if not detached and not (trunc and pre):
                    bad_.append('truncated only (length = 0)' if trunc else 'not emptied')
            chk.decide(not bad_, 'no-duplicates', '%s:uncached-entry-detaches-a-view' % cls_.name, node=fo, file=rel_, func='%s.get_nearest_particles_no_cache' % cls_.name,
                       detail_bad='on a path where the caller did not say it pre-allocated, the output array is %s before the search: an array that is still a view of a neighbour-cache '
                                  'buffer (it was filled by a cached query) is then appended to in place, and the cache returns these entries for the particle it was filled for' % bad_[0] if bad_ else '',
                       detail_ok='c_reset() unless the caller pre-allocated')
    chk.floor('uncached query entry points', n_over, 2)
    f2 = M.find_func(nn, 'get_nearest_neighbors')
    g2 = C.build_cfg(f2)
    did, out = f2.args.args[1].arg, f2.args.args[2].arg
    # per path: with the cache the answer is current_cache.get_neighbors_raw(d_idx, nbrs) and nothing else; without it the output is reset and then filled by the search
    ok = True
    kinds = set()
    for p_ in PT.enumerate_paths(M.docstring_stripped(f2.body)):
        cl = [(cal, [compact(PT.resolve(a_, env)) for a_ in c.args]) for i, c, cal, env in PT.calls_on(p_)]
        withc = PT.took(p_, True, 'self.use_cache') is not None
        noc = PT.took(p_, False, 'self.use_cache') is not None
        if withc:
            kinds.add('cached')
            ok = ok and [x for x in cl if x[0] in ('self.current_cache.get_neighbors_raw', 'self.find_nearest_neighbors')] == [('self.current_cache.get_neighbors_raw', [did, out])]
        elif noc:
            kinds.add('uncached')
            names_ = [x[0] for x in cl]
            ok = ok and ('self.find_nearest_neighbors', [did, out]) in cl and any(n_ in (out + '.c_reset', out + '.reset') for n_ in names_) and \
                min(k for k, n_ in enumerate(names_) if n_ in (out + '.c_reset', out + '.reset')) < names_.index('self.find_nearest_neighbors') and \
                'self.current_cache.get_neighbors_raw' not in names_
        else:
            ok = False
    ok = ok and kinds == set(['cached', 'uncached'])
    chk.decide(ok, 'no-duplicates', 'evaluator-entry-resets-output', node=f2, file=NB, func='NNPS.get_nearest_neighbors',
               detail_bad='the evaluator entry point does not reset the output before an uncached query (or the cached path is not current_cache.get_neighbors_raw(d_idx, nbrs) under use_cache)',
               detail_ok='c_reset() dominates the query; cached path returns a view')
    rule_cached_entry(chk)
    init = M.find_func(nn, '__init__')
    M.set_parents(init)
    apps = [c for c in M.calls(init) if isinstance(c.func, ast.Attribute) and c.func.attr == 'append' and c.args and M.call_name(c.args[0]) == 'NeighborCache']
    ok = len(apps) == 1
    if ok:
        mk = apps[0].args[0]
        inner = M.enclosing(apps[0], (ast.For,))
        outer = M.enclosing(inner, (ast.For,)) if inner is not None else None
        np_ = 'range(len(particles))'
        ok = inner is not None and outer is not None and compact(inner.iter) in (np_, 'range(self.narrays)') and compact(outer.iter) in (np_, 'range(self.narrays)') and \
            len(mk.args) == 3 and compact(mk.args[1]) == compact(outer.target) and compact(mk.args[2]) == compact(inner.target) and \
            not any(isinstance(x, (ast.If, ast.Continue, ast.Break)) for x in ast.walk(outer))
        lst = compact(apps[0].func.value)
        ok = ok and any(isinstance(a, ast.Assign) and compact(a.targets[0]) == 'self.cache' and compact(a.value) == lst for a in ast.walk(init))
    chk.decide(ok, 'context-wiring', 'cache-table-layout', node=init, file=NB, func='NNPS.__init__',
               detail_bad='caches are not created for every (destination, source) pair in destination-major order, which idx = dst*narrays + src relies on', detail_ok='dst-major order')
    sc0 = M.find_func(base, 'set_context')
    st = dict((compact(a.targets[0]), a.value) for a in ast.walk(sc0) if isinstance(a, ast.Assign))
    cc = st.get('self.current_cache')
    ok = st.get('self.src_index') is not None and st.get('self.dst_index') is not None and compact(st.get('self.src_index')) == 'src_index' and compact(st.get('self.dst_index')) == 'dst_index' and isinstance(cc, ast.Subscript) and \
        compact(cc.value) == 'self.cache' and same(resolve(sc0, cc.slice), 'dst_index*self.narrays+src_index')
    chk.decide(ok, 'context-wiring', 'base-set_context', node=sc0, file=NB, func='NNPSBase.set_context', detail_bad='base context bookkeeping changed',
               detail_ok='records the pair and selects cache[dst*narrays+src]')


# ---------------------------------------------------------------------------
# stencil completeness for the fixed-grid algorithms
# ---------------------------------------------------------------------------

def loop_halfwidths(fn):
    """half widths m of loops `for p in range(-m, m+1)` (or range(3) over shifts -1,0,1) found in fn"""
    out = []
    for l in ast.walk(fn):
        if isinstance(l, ast.For) and isinstance(l.iter, ast.Call) and M.call_name(l.iter) == 'range':
            a = [compact(x) for x in l.iter.args]
            if a == ['-1', '2']:
                out.append(('1', l))
            elif len(a) == 2 and a[0].startswith('-') and a[1] == a[0][1:] + '+1':
                out.append((a[0][1:], l))
            elif a == ['3'] and 'shifts[' in U(l) or (a == ['3'] and 'cell_shifts' in U(fn)):
                out.append(('1', l))
    return out


def rule_stencil(chk, ci, concrete):
    """cells searched must cover radius_scale*max(h): half-width m (in cells) times the cell edge >= cell_size"""
    for rel, cls in concrete:
        # cell edge used by this class: cell_size, or cell_size / H when it sub-divides
        edge_H = None
        for r, c in ci.mro(rel, cls):
            for mn, f in M.methods(c).items():
                for a in ast.walk(f):
                    if isinstance(a, ast.Assign) and compact(a.targets[0]) == 'self.h_sub' and compact(a.value) == 'self.cell_size/self.H':
                        edge_H = 'self.H'
        # stencil enumerators reachable from the query / refresh path
        enum = []
        reach = set()
        todo = ['find_nearest_neighbors', 'get_nearest_particles_no_cache', '_refresh', '_bin']
        while todo:
            mname = todo.pop()
            if mname in reach:
                continue
            gotm = ci.lookup_method(rel, cls, mname)
            if gotm is None or gotm[1].name in ('NNPS', 'NNPSBase'):
                continue
            reach.add(mname)
            for c in M.calls(gotm[2]):
                nmc = M.call_name(c) or ''
                if nmc.startswith('self.') and nmc.count('.') == 1:
                    todo.append(nmc[5:])
        for mn in sorted(reach):
            got = ci.lookup_method(rel, cls, mn)
            if got is None or got[1].name in ('NNPS', 'NNPSBase'):
                continue
            # a local that merely names the attribute (`n_sub = self.H`, assigned once) is the attribute
            hw = loop_halfwidths(M.self_aliases_inlined_deep(got[2]))
            if len(hw) >= 3:
                enum.append((got, hw))
        if not enum:
            if cls.name in ('OctreeNNPS', 'CompressedOctreeNNPS', 'StratifiedHashNNPS', 'StratifiedSFCNNPS'):
                chk.note('%s: tree / multi-level search, stencil rule not applicable' % cls.name)
            elif cls.name == 'DictBoxSortNNPS':
                chk.note('DictBoxSortNNPS: neighbour cells enumerated by Cell.get_centroid/box queries; not covered by the stencil rule')
            else:
                chk.note('%s: no explicit triple stencil loop found' % cls.name)
            continue
        for (r2, c2, f), hw in enum:
            ms = set(m for m, l in hw[:3]) if len(hw) >= 3 else set()
            need = 'self.H' if edge_H else '1'
            have = list(ms)[0] if len(ms) == 1 else None
            # more cells than necessary is a superset (fine); fewer is a miss
            # (a half-width handed in as a parameter is judged where it is computed - rule_level_stencil / rule_subcell_radius; a local that is assigned again inside the
            # loops is not the sub-division factor any more)
            ok = have is not None and (have == need or need == '1' or (edge_H and (have == 'self.H' or have in M.arg_names(f))))
            inst = '%s:%s.%s' % (cls.name, c2.name, f.name)
            chk.decide(ok, 'stencil-covers-cutoff', inst, node=hw[0][1], file=r2, func='%s.%s' % (c2.name, f.name),
                       detail_bad='cells are %s wide but the stencil spans only +/-%s cells in each direction: it covers +/-%s*edge < radius_scale*max(h) '
                                  'whenever H > 1, so neighbours are missed' % ('cell_size/H' if edge_H else 'cell_size', have, have),
                       detail_ok='+/-%s cells of edge %s' % (have, 'cell_size/H' if edge_H else 'cell_size'))
        # the three nested loops must be complete (no early `break`/parity tricks): 3 loops with the same bounds
        for (r2, c2, f), hw in enum:
            chk.decide(len(hw) % 3 == 0, 'stencil-covers-cutoff', '%s:%s.%s:three-axes' % (cls.name, c2.name, f.name), node=f, file=r2,
                       func='%s.%s' % (c2.name, f.name), detail_bad='stencil loops: %d (expected one per axis)' % len(hw), detail_ok='one loop per axis')


SENTINELS = ('NULL', '-1', '0', 'UINT_MAX')


def is_sentinel_test(t):
    """`x == NULL`, `idx > -1`, `it == table.end()`, `n == 0`, `_next != UINT_MAX` (also under not / and / or): the cell, bucket or link is absent"""
    if isinstance(t, ast.BoolOp):
        return all(is_sentinel_test(v) for v in t.values)
    if isinstance(t, ast.UnaryOp) and isinstance(t.op, ast.Not):
        return is_sentinel_test(t.operand)
    if isinstance(t, ast.Compare) and len(t.ops) == 1:
        l, r = t.left, t.comparators[0]
        for a, b in ((l, r), (r, l)):
            sb = compact(b)
            if sb in SENTINELS or sb.endswith('.end()'):
                # the tested value is a looked-up handle: a name, an element, or a parameterless query of a container
                if isinstance(a, (ast.Name, ast.Subscript, ast.Attribute)) or (isinstance(a, ast.Call) and not a.args):
                    return True
    return False


GEOM = re.compile(r'(^|[._])([xyzh]|hmax|hmin|xmin|xmax|length|radius_scale2?|cell_size|cell_sizes)(_ptr|_boxes)?$')


def geometry_tainted(fn):
    """names of fn whose value depends (flow-insensitively, through assignments in fn) on a coordinate, a smoothing length, the search radius or a cell size"""
    defs = {}
    for a in ast.walk(fn):
        if isinstance(a, ast.Assign):
            tg, val = a.targets, a.value
        elif isinstance(a, ast.AugAssign):
            tg, val = [a.target], a.value
        elif isinstance(a, ast.AnnAssign) and a.value is not None:
            tg, val = [a.target], a.value
        else:
            continue
        for t in tg:
            for n in ([t] if not isinstance(t, ast.Tuple) else t.elts):
                base = n
                while isinstance(base, (ast.Subscript, ast.Attribute)) and not isinstance(base, ast.Name):
                    if isinstance(base, ast.Attribute) and isinstance(base.value, ast.Name) and base.value.id == 'self':
                        break
                    base = base.value
                defs.setdefault(compact(base), []).append(val)
        # out-parameters: f(..., &c_x, &c_y) makes c_x depend on the other arguments
    for c in M.calls(fn):
        outs = [x.args[0] for x in c.args if isinstance(x, ast.Call) and M.call_name(x) == '__addr__' and x.args]
        for o in outs:
            defs.setdefault(compact(o), []).append(ast.Tuple(elts=[x for x in c.args if not (isinstance(x, ast.Call) and M.call_name(x) == '__addr__')], ctx=ast.Load()))
    memo = {}

    def seed(text):
        last = re.split(r'\[', text)[0]
        return bool(GEOM.search(last))

    def tainted_expr(e, stack):
        for n in ast.walk(e):
            if isinstance(n, (ast.Name, ast.Attribute)):
                tx = compact(n)
                if seed(tx) or tainted_name(tx, stack):
                    return True
        return False

    def tainted_name(name, stack):
        if name in memo:
            return memo[name]
        if name in stack:
            return False
        r = seed(name) or any(tainted_expr(v, stack | set([name])) for v in defs.get(name, []))
        memo[name] = r
        return r
    tainted_any = lambda e: tainted_expr(e, frozenset())     # noqa

    # second question: does a value depend on the destination's smoothing length and on no source-side / global length?
    def reaches(e, pat, stack=frozenset()):
        for n in ast.walk(e):
            if isinstance(n, (ast.Name, ast.Attribute, ast.Subscript)):
                tx = compact(n).split('[')[0]
                if pat.search(tx):
                    return True
                if tx in defs and tx not in stack and any(reaches(v, pat, stack | set([tx])) for v in defs[tx]):
                    return True
        return False
    tainted_any.dest_radius_only = lambda e: reaches(e, DEST_H) and not reaches(e, OTHER_LEN)
    return tainted_any


DEST_H = re.compile(r'(^|[._])(d_h|q_h|dst_h_ptr|dst_h|hi)$|^h$')
OTHER_LEN = re.compile(r'(^|[._])(s_h|src_h_ptr|src_h|hmax|cell_size|cell_sizes|hj|hj2)$')


def allowed_control(t, tainted):
    """a condition under which candidates may be skipped: absence of a cell / bucket / link, equality of looked-up keys, a flag or a counter bound that does not
    depend on geometry"""
    if isinstance(t, ast.BoolOp):
        return all(allowed_control(v, tainted) for v in t.values)
    if isinstance(t, ast.UnaryOp) and isinstance(t.op, ast.Not):
        return allowed_control(t.operand, tainted)
    if is_sentinel_test(t):
        return True
    if isinstance(t, ast.Compare) and len(t.ops) == 1:
        if isinstance(t.ops[0], (ast.Eq, ast.NotEq, ast.Is, ast.IsNot)):
            return True
        # a bound check of a looked-up index against a stored count (`idx < num_particles`)
        if any(isinstance(x, (ast.Name, ast.Attribute)) and not tainted(x) for x in (t.left, t.comparators[0])):
            return True
        return not tainted(t)
    if isinstance(t, (ast.Name, ast.Attribute)):
        return not tainted(t)
    return False


def controlling_conditions(fn, site_if, stmt):
    """conditions the examination of a candidate depends on inside fn: tests of the ifs / whiles enclosing the acceptance test and the guards of every
    continue / break that precedes it in an enclosing loop body"""
    out = []
    cur = site_if
    while True:
        par = getattr(cur, 'parent', None)
        if par is None or par is fn:
            break
        if isinstance(par, (ast.If, ast.While)):
            out.append((par.test, par))
        if isinstance(par, (ast.For, ast.While)):
            for x in ast.walk(par):
                if isinstance(x, (ast.Continue, ast.Break)) and M.enclosing(x, (ast.For, ast.While)) is par and x.lineno < stmt.lineno:
                    g = M.enclosing(x, (ast.If,))
                    if g is not None and any(g is y for y in ast.walk(par)):
                        out.append((g.test, g))
                    else:
                        out.append((None, x))
        cur = par
    uniq = []
    for t, n in out:
        if not any(n is m for _, m in uniq):
            uniq.append((t, n))
    return uniq


def rule_no_pruning(chk, ci, concrete):
    """a candidate is rejected only by the acceptance predicate; a cell of the stencil is skipped only when it does not exist"""
    seen = set()
    n = 0
    for rel, cls in concrete:
        got = ci.lookup_method(rel, cls, 'find_nearest_neighbors')
        if got is None or got[1].name in ('NNPSBase',):
            got = ci.lookup_method(rel, cls, 'get_nearest_particles_no_cache')
        if got is None:
            continue
        r2, c2, fn = got
        fns = [(r2, c2, fn)]
        for c in M.calls(fn):
            nm = M.call_name(c) or ''
            if nm.startswith('self.') and nm.count('.') == 1:
                h = ci.lookup_method(r2, c2, nm[5:])
                if h is not None and accept_sites(h[2]):
                    fns.append(h)
        for r3, c3, f3 in fns:
            key = (r3, c3.name, f3.name)
            if key in seen:
                continue
            seen.add(key)
            M.set_parents(f3)
            tainted = geometry_tainted(f3)
            sites_ = accept_sites(f3)
            accept_ifs = set(id(si) for si, ap in sites_)
            for site_if, app in sites_:
                for test, node in controlling_conditions(f3, site_if, app):
                    if id(node) in accept_ifs and node is not site_if:
                        # the else branch of the first half of a split acceptance test (`if d2 < hi2: append else: if d2 < hj2: append`): part of the predicate, not a pruning
                        continue
                    n += 1
                    who = '%s.%s' % (c3.name, f3.name)
                    inst = '%s:%s' % (who, compact(test)[:60] if test is not None else 'unconditional-skip@%d' % node.lineno)
                    okk = test is not None and allowed_control(test, tainted)
                    if not okk and test is not None:
                        gather_only = [c for c in ast.walk(test) if isinstance(c, ast.Compare) and isinstance(c.ops[0], (ast.Lt, ast.LtE, ast.Gt, ast.GtE)) and
                                       any(tainted.dest_radius_only(x) for x in (c.left, c.comparators[0]))]
                        if not gather_only:
                            chk.undecided('candidates-only-rejected-by-predicate', inst, node=node, file=r3, func=who,
                                          detail='a geometric pruning test `%s` this checker has no rule for: whether it keeps every particle the predicate accepts needs review' % compact(test)[:120])
                            continue
                    chk.decide(bool(okk), 'candidates-only-rejected-by-predicate', inst, node=node, file=r3, func=who,
                               detail_bad='whether a source particle is examined depends on `%s`: a bound built from the query particle\'s own radius only, so sources whose larger h reaches '
                                          'the query point (accepted by the predicate through xij2 < hj2) are pruned' % (compact(test) if test is not None else 'an unconditional skip'),
                               detail_ok='absence / key-equality / geometry-independent test')
    chk.floor('conditions controlling candidate examination', n, 11)


def rule_subcell_radius(chk):
    """ExtendedSpatialHashNNPS visits a sub-cell when it lies within H sub-cells of the query on every axis; H*h_sub must cover the largest
    cut-off any pair (query, particle of the sub-cell) can have: radius_scale*max(h_query, h_max of the sub-cell)"""
    from verif_static import symb as S
    rel = 'pysph/base/spatial_hash_nnps.pyx'
    t = M.cy(rel)
    cls = M.find_class(t, 'ExtendedSpatialHashNNPS')
    # helper functions of the module a maintainer has moved the radius computation into are inlined again (parameters become locals bound to the arguments)
    fn = M.inline_helpers(cls, M.find_func(cls, '_neighbor_boxes'), keep=set(M.methods(cls)), module=t)
    who = 'ExtendedSpatialHashNNPS._neighbor_boxes'
    M.set_parents(fn)
    defs_sr = N.local_defs(fn.body)
    # the number of sub-cells to visit: the one ceil(..) of the method, however its argument is spelled (radius/h_sub, h*(radius_scale/h_sub) with the factor hoisted, ...)
    ceils = [c for c in M.calls(fn) if M.call_name(c) == 'ceil' and len(c.args) == 1]
    if len(ceils) != 1:
        raise AnalysisError('%s: the `ceil(<radius>/self.h_sub)` computing the number of sub-cells to visit vanished' % who)
    st = ceils[0]
    while not isinstance(st, ast.stmt):
        st = st.parent
    blk = st.parent.body if hasattr(st.parent, 'body') and st in st.parent.body else None
    if blk is None:
        raise AnalysisError('%s: cannot locate the block computing the sub-cell radius' % who)
    # single-assignment locals of the method body in front of the search loops (hoisted factors) and the assignments of the block in front of the ceil
    outer = [x for x in fn.body if isinstance(x, (ast.Assign, ast.AnnAssign)) and x.lineno < st.lineno and getattr(x, 'value', None) is not None and
             not any(isinstance(c_, ast.Call) and M.call_name(c_) in ('malloc', '__cast__') for c_ in ast.walk(x.value))]
    pre = outer + [x for x in blk[:blk.index(st)] if isinstance(x, (ast.Assign, ast.AnnAssign, ast.AugAssign)) and not any(x is o_ for o_ in outer)]
    ctx = S.Ctx(seconds=20)
    ctx.positive.add('self.radius_scale')
    ctx.positive.add('self.h_sub')
    try:
        ev = S.Evaluator(ctx, ast.FunctionDef(name='f', args=fn.args, body=pre, decorator_list=[]))
        ev.run()
        got = ctx.mul(ev.ev(ceils[0].args[0]), ctx.var('self.h_sub'))
        rs = ctx.var('self.radius_scale')
        want = ctx.mul(rs, ctx.fn('max', [ctx.var('cell.h_max'), ctx.var('h')]))
        ok = ctx.prove_zero(got - want)[0]
        chk.decide(ok, 'subcell-search-radius', 'ExtendedSpatialHashNNPS', node=st, file=rel, func=who,
                   detail_bad='the number of sub-cells searched is ceil(%s); it must be ceil(radius_scale*max(cell.h_max, h) / h_sub): with a smaller radius a query whose own '
                              'h is the larger one misses sub-cells that hold neighbours within radius_scale*h' % compact(N.inline(ceils[0].args[0], defs_sr)),
                   detail_ok='ceil(radius_scale*max(cell.h_max, h)/h_sub)')
    except (S.Unsupported, S.Budget) as e:
        chk.undecided('subcell-search-radius', 'ExtendedSpatialHashNNPS', node=st, file=rel, func=who, detail=str(e))


def rule_bounds(chk):
    """NNPS._compute_bounds: the box handed to the binning structures strictly contains every particle on both sides of every axis
    (cell counts are ceil(extent/cell_size) and cell indices floor((x - xmin)/cell_size): a particle exactly on an un-padded upper
    face gets the index one past the last cell)"""
    rel = 'pysph/base/nnps_base.pyx'
    t = M.cy(rel)
    fn = M.find_func(M.find_class(t, 'NNPS'), '_compute_bounds')
    who = 'NNPS._compute_bounds'
    M.set_parents(fn)
    loops = [l for l in fn.body if isinstance(l, ast.For)]
    if not loops:
        raise AnalysisError('%s: the loop gathering the extent of every array vanished' % who)
    gather = loops[0]
    for ax in 'xyz':
        for side, fname, opk in (('min', 'fmin', ast.Sub), ('max', 'fmax', ast.Add)):
            v = ax + side
            # gathered over every array: v = fmin/fmax(<array extreme>, v)
            g = [a for a in ast.walk(gather) if isinstance(a, ast.Assign) and compact(a.targets[0]) == v and isinstance(a.value, ast.Call)
                 and M.call_name(a.value) in (fname, side) and v in [compact(x) for x in a.value.args]]
            chk.decide(bool(g), 'bounds-contain-particles', '%s:gathered' % v, node=gather, file=rel, func=who,
                       detail_bad='%s is not the running %s over every particle array' % (v, side), detail_ok='%s = %s(<array %simum>, %s)' % (v, fname, side, v))
            # widened unconditionally after the gather loop by a positive amount
            wid = []
            for st in fn.body:
                if st.lineno <= gather.lineno:
                    continue
                if isinstance(st, ast.AugAssign) and compact(st.target) == v and isinstance(st.op, opk):
                    wid.append(st)
                elif isinstance(st, ast.Assign) and len(st.targets) == 1 and compact(st.targets[0]) == v and isinstance(st.value, ast.BinOp) and isinstance(st.value.op, opk) \
                        and compact(st.value.left) == v:
                    wid.append(st)
            chk.decide(bool(wid), 'bounds-contain-particles', '%s:padded' % v, node=wid[0] if wid else fn, file=rel, func=who,
                       detail_bad='%s is not moved outwards after the extent has been gathered: particles exactly on that face of the bounding box fall outside the last / first cell '
                                  '(index = number of cells) for round geometries' % v, detail_ok='%s widened by %s' % (v, compact(wid[0].value) if wid else ''))


def rule_distinct_containers(chk):
    """the per-array containers of the search structures are one object per particle array: a list built by replication (`[UIntArray()]*narrays`) holds the same object narrays
    times, so what is binned for one array shows up in the lists of all the others (expected count of such constructions: zero; the rule is exercised by a kept seed)"""
    import glob as _glob
    n_lists, bad = 0, []
    for p_ in sorted(_glob.glob(os.path.join(REPO, 'pysph/base/*nnps*.pyx'))):
        if 'gpu' in os.path.basename(p_):
            continue
        rel = os.path.relpath(p_, REPO)
        t = M.cy(rel)
        M.set_parents(t)
        for x in ast.walk(t):
            if isinstance(x, ast.ListComp) and isinstance(x.elt, ast.Call):
                n_lists += 1
            if isinstance(x, ast.BinOp) and isinstance(x.op, ast.Mult):
                for lst, cnt in ((x.left, x.right), (x.right, x.left)):
                    if isinstance(lst, ast.List) and any(isinstance(e_, (ast.Call, ast.List, ast.Dict, ast.Set, ast.ListComp)) for e_ in lst.elts):
                        fn = M.enclosing_func(x)
                        bad.append((rel, x, M.qualname(fn) if fn is not None else '<module>'))
    chk.floor('per-array container lists in the NNPS sources', n_lists, 3)
    if bad:
        for rel, x, who in bad:
            chk.violated('per-array-containers-distinct', '%s:%s' % (who, compact(x)[:40]), node=x, file=rel, func=who,
                         detail='`%s` replicates one object: every particle array shares the same container, so indices binned for one array are returned for the others' % U(x)[:70])
    else:
        chk.holds('per-array-containers-distinct', 'no-replicated-containers', file=NB, func='<module>', detail='%d per-array lists are built element by element' % n_lists)


def rule_bins_all(chk):
    """NNPS.update hands every particle of every array to _bin - real, remote and ghost alike (mirror ghosts exist without the domain being
    periodic); shared with C05: algorithms that build their structure from the whole array must agree with those that bin index lists"""
    t = M.cy(NB)
    up = M.find_func(M.find_class(t, 'NNPS'), 'update')
    M.set_parents(up)
    bc = [c for c in M.calls(up) if M.call_name(c) == 'self._bin']
    if not bc:
        raise AnalysisError('NNPS.update no longer calls self._bin')
    defs = {}
    for a in ast.walk(up):
        if isinstance(a, ast.Assign) and len(a.targets) == 1 and isinstance(a.targets[0], ast.Name):
            defs.setdefault(a.targets[0].id, []).append(a.value)
        elif isinstance(a, ast.AnnAssign) and isinstance(a.target, ast.Name) and a.value is not None:
            defs.setdefault(a.target.id, []).append(a.value)

    def resolve(e, depth=0):
        while isinstance(e, ast.Name) and len(defs.get(e.id, [])) == 1 and depth < 5:
            e = defs[e.id][0]
            depth += 1
        return e
    for c in bc:
        kw = dict((k.arg, k.value) for k in c.keywords)
        idx = kw.get('indices', c.args[1] if len(c.args) > 1 else None)
        idx = resolve(idx) if idx is not None else None
        ok = False
        why = 'the index list is `%s`' % (compact(idx) if idx is not None else None)
        if isinstance(idx, ast.Call) and M.call_name(idx) == 'arange_uint' and len(idx.args) == 1:
            n = resolve(idx.args[0])
            if isinstance(n, ast.Call) and (M.call_name(n) or '').endswith('.get_number_of_particles'):
                a0 = n.args[0] if n.args else next((k.value for k in n.keywords if k.arg == 'real'), None)
                ok = a0 is None or (isinstance(a0, ast.Constant) and not a0.value)
                why = 'the number of particles binned is `%s`' % compact(n)
        chk.decide(ok, 'results-not-stale', 'update:bins-every-particle', node=c, file=NB, func='NNPS.update',
                   detail_bad='%s: every particle of the array (real, remote and ghost - mirror ghosts exist in non-periodic domains) must be binned, i.e. '
                              'arange_uint(pa.get_number_of_particles())' % why, detail_ok='arange_uint(pa.get_number_of_particles()): all particles')


def rule_valid_cell(chk):
    """get_valid_cell_index (nnps_base.pxd, used by the linked-list search): a cell is valid only when each of its three indices lies in
    [0, number of cells on that axis) - the range test on the flattened index alone lets an x index one past the end alias into the next row"""
    from verif_static import norm as N
    # ... and every class's own version of it (BoxSortNNPS looks the flattened index up in its map of occupied cells: an aliased index is the index of a real cell)
    import glob as _glob
    targets = [('pysph/base/nnps_base.pxd', f) for f in ast.walk(M.cy('pysph/base/nnps_base.pxd')) if isinstance(f, ast.FunctionDef) and f.name == 'get_valid_cell_index']
    if not targets:
        raise AnalysisError('get_valid_cell_index vanished from nnps_base.pxd')
    for p_ in sorted(_glob.glob(os.path.join(REPO, 'pysph/base/*_nnps.pyx'))):
        if 'gpu' in p_:
            continue
        r_ = os.path.relpath(p_, REPO)
        for c_ in M.classes(M.cy(r_)):
            f_ = M.methods(c_).get('_get_valid_cell_index')
            if f_ is not None and any(M.call_name(x) == 'flatten_raw' for x in M.calls(f_)):
                targets.append((r_, f_))
    for rel, fn in targets:
        _valid_cell_one(chk, rel, fn)
    chk.floor('cell-validity functions', len(targets), 2)


def _valid_cell_one(chk, rel, fn):
    from verif_static import norm as N
    M.set_parents(fn)
    args = [a for a in M.arg_names(fn) if a != 'self']
    who = M.qualname(fn) if hasattr(M, 'qualname') else fn.name
    defs = {}
    for a in ast.walk(fn):
        if isinstance(a, ast.Assign) and len(a.targets) == 1 and isinstance(a.targets[0], ast.Name):
            defs.setdefault(a.targets[0].id, []).append(a.value)
        elif isinstance(a, ast.AnnAssign) and isinstance(a.target, ast.Name) and a.value is not None:
            defs.setdefault(a.target.id, []).append(a.value)
    single = dict((k, v[0]) for k, v in defs.items() if len(v) == 1)
    # the condition under which a flattened index is computed at all
    fl = [c for c in M.calls(fn) if M.call_name(c) == 'flatten_raw']
    if not fl:
        raise AnalysisError('%s no longer calls flatten_raw' % fn.name)
    conds = []
    gi = M.enclosing(fl[0], (ast.If,))
    while gi is not None:
        conds.append(N.inline(gi.test, single))
        gi = M.enclosing(gi, (ast.If,))
    links = []

    def collect(e):
        if isinstance(e, ast.BoolOp) and isinstance(e.op, ast.And):
            for v in e.values:
                collect(v)
        elif isinstance(e, ast.Compare):
            left = e.left
            for op, right in zip(e.ops, e.comparators):
                links.append(ast.Compare(left=left, ops=[op], comparators=[right]))
                left = right
    for c in conds:
        collect(c)
    for k, ax in enumerate(args[:3]):
        lower = any(N.same(l, '%s > -1' % ax, '%s >= 0' % ax) for l in links)
        upper = any(N.same(l, '%s < %s[%d]' % (ax, args[3], k), '%s <= %s[%d] - 1' % (ax, args[3], k)) for l in links)
        chk.decide(lower and upper, 'stencil-covers-cutoff', '%s:%s-in-range' % (who if who != 'get_valid_cell_index' else 'get_valid_cell_index', ax), node=fn, file=rel, func=who,
                   detail_bad='the flattened index is computed without requiring 0 <= %s < %s[%d] (tests found: %s): an index one past either end aliases a cell of the '
                              'neighbouring row, which is then visited twice' % (ax, args[3], k, [compact(l) for l in links]),
                   detail_ok='0 <= %s < %s[%d]' % (ax, args[3], k))


def rule_level_cell_size(chk):
    """StratifiedHashNNPS bins every particle of a level with that level's cell size, which queries read afterwards: the per-level maxima of h must be complete before the
    first particle is binned and must not change while binning (a running maximum bins early particles with a smaller cell size than the queries assume)"""
    rel = 'pysph/base/stratified_hash_nnps.pyx'
    t = M.cy(rel)
    cls = M.find_class(t, 'StratifiedHashNNPS')
    fn = M.find_func(cls, '_bin')
    who = 'StratifiedHashNNPS._bin'
    M.set_parents(fn)
    g = C.build_cfg(fn)
    sets = [n.id for n in g.nodes if n.ast is not None and isinstance(n.ast, ast.Expr) and M.call_name(n.ast.value) == 'self._set_h_max']
    loops = [l for l in fn.body if isinstance(l, ast.For) and any((M.call_name(c) or '').endswith('.add') or (M.call_name(c) or '').endswith('_get_h_max') for c in M.calls(l))]
    if not loops:
        raise AnalysisError('%s: binning loop not found' % who)
    ln = g.node_of(loops[0])
    ok1 = bool(sets) and ln is not None and any(g.dominates(s_, ln) for s_ in sets)
    chk.decide(ok1, 'cell-size-covers-every-array', 'StratifiedHashNNPS:level-maxima-before-binning', node=loops[0], file=rel, func=who,
               detail_bad='the per-level maxima of h (_set_h_max) are not computed before the binning loop', detail_ok='_set_h_max(...) dominates the binning loop')
    tabs = set()
    for c in M.calls(fn):
        if M.call_name(c) in ('self._set_h_max', 'self._get_h_max') and c.args:
            tabs.add(compact(c.args[0]))
    writes = [a for a in ast.walk(loops[0]) if isinstance(a, (ast.Assign, ast.AugAssign)) and isinstance(a.targets[0] if isinstance(a, ast.Assign) else a.target, ast.Subscript)
              and compact((a.targets[0] if isinstance(a, ast.Assign) else a.target).value) in tabs]
    chk.decide(not writes, 'cell-size-covers-every-array', 'StratifiedHashNNPS:level-maxima-fixed-while-binning', node=writes[0] if writes else loops[0], file=rel, func=who,
               detail_bad='`%s` changes a level\'s maximum h inside the binning loop: particles binned earlier used a smaller cell size than the one queries will assume' % (U(writes[0]) if writes else ''),
               detail_ok='the table of level maxima is read-only while binning')


def rule_sized_by_count(chk):
    """per-array structures whose size or layout is derived from the number of particles (key buffers, the number of key bits that hold the particle id) are derived
    again on the update path - `_refresh` / `_bin`, which run at every update() - and not only when the object is constructed: arrays grow (add_particles, inlets)"""
    n = 0
    for p_ in sorted(glob.glob(os.path.join(REPO, 'pysph/base/*_nnps.pyx'))):
        if 'gpu' in p_:
            continue
        rel = os.path.relpath(p_, REPO)
        for cls in M.classes(M.cy(rel)):
            meths = M.methods(cls)
            sized = {}
            for mname, fn in meths.items():
                ld = N.local_defs(fn.body)
                for a in ast.walk(fn):
                    if isinstance(a, ast.Assign) and isinstance(a.targets[0], ast.Subscript) and isinstance(a.targets[0].value, ast.Attribute) and compact(a.targets[0].value.value) == 'self':
                        v = compact(N.inline(a.value, ld))
                        if 'get_number_of_particles()' in v or 'num_particles' in v:
                            sized.setdefault(a.targets[0].value.attr, set()).add(mname)
            for attr, where in sorted(sized.items()):
                n += 1
                upd = [m_ for m_ in where if m_ in ('_refresh', '_bin', 'update', '_c_bin', 'fill_array')]
                chk.decide(bool(upd), 'results-not-stale', '%s.%s:sized-on-the-update-path' % (cls.name, attr), node=cls, file=rel, func=cls.name,
                           detail_bad='self.%s[...] is derived from the particle count in %s only: after the array has grown the value computed for the old count is still used (e.g. too few '
                                      'key bits for the particle ids, which then spill into the cell bits)' % (attr, sorted(where)),
                           detail_ok='recomputed in %s' % sorted(upd))
    chk.floor('per-array structures sized by the particle count', n, 5)


def rule_level_stencil(chk):
    """StratifiedHashNNPS searches, on every level, the cells within H_level cells of the query's cell, the cells of the level being hmax_level/self.H wide: the span
    H_level * (hmax_level/self.H) must reach max(radius_scale*h_query, hmax_level) - the query's own radius as well as that of the level's particles (gather or scatter).
    Decided per path through the level loop, with locals substituted: H_level = ceil(max(radius_scale*h, hmax_level) * self.H / hmax_level)"""
    from verif_static import paths as PT
    rel = 'pysph/base/stratified_hash_nnps.pyx'
    t = M.cy(rel)
    cls_ = M.find_class(t, 'StratifiedHashNNPS')
    # one-line helpers (`_get_h_max`) written in place and locals that merely name an attribute (`level_sizes = self.current_cells`) written out: the level's radius is then the
    # same expression whether the method calls the helper, keeps the product in a local or hoists the attributes first
    fn = M.self_aliases_inlined_deep(M.inline_helpers(cls_, M.find_func(cls_, 'find_nearest_neighbors'), keep=set(n_ for n_ in M.methods(cls_) if n_ != '_get_h_max'), module=t))
    who = 'StratifiedHashNNPS.find_nearest_neighbors'
    n, bad = 0, None
    hq = None
    for p_ in PT.enumerate_paths(M.docstring_stripped(fn.body)):
        for i, c, cal, env in PT.calls_on(p_):
            if cal != 'self._neighbor_boxes' or not c.args:
                continue
            n += 1
            Hx = PT.resolve(c.args[-1], env)
            cells = [c2 for i2, c2, cal2, env2 in PT.calls_on(p_) if cal2 == 'find_cell_id_raw' and i2 <= i and len(c2.args) >= 4]
            if not cells:
                bad = bad or 'the cell of the query is not computed before the boxes'
                continue
            edge = PT.resolve(cells[-1].args[3], env)
            # the level's radius L is whatever the span is normalised by: H_level = ceil(fmax(.., L)*self.H/L); the cells of the level must then be L/self.H wide
            cands = [a_ for x in ast.walk(Hx) if isinstance(x, ast.Call) and M.call_name(x) in ('fmax', 'max') and len(x.args) == 2 for a_ in x.args]
            lv = [a_ for a_ in cands if same(edge, '(%s)/self.H' % U(a_)) and 'current_cells' in U(a_)]
            if not lv:
                bad = bad or 'cells of a level are %s wide' % U(edge)[:80]
                continue
            L = U(lv[0])
            # the smoothing length of the query point: what the gather radius hi2 = radius_scale2*h*h is computed from
            if hq is None:
                for a_ in ast.walk(fn):
                    if isinstance(a_, (ast.Assign, ast.AnnAssign)) and a_.value is not None and compact(a_.targets[0] if isinstance(a_, ast.Assign) else a_.target) == 'hi2':
                        names_ = [x for x in ast.walk(a_.value) if isinstance(x, ast.Name) and x.id not in ('self',)]
                        hq = names_[0].id if names_ else None
            hres = U(PT.resolve(ast.Name(id=hq or 'h', ctx=ast.Load()), env))
            wants = ['ceil(fmax(self.radius_scale*(%s), %s)*self.H/(%s))' % (hres, L, L), 'ceil(fmax(self.radius_scale*(%s), %s)/((%s)/self.H))' % (hres, L, L),
                     'ceil(max(self.radius_scale*(%s), %s)*self.H/(%s))' % (hres, L, L)]
            if not any(same(Hx, w_) for w_ in wants):
                bad = bad or 'the search spans %s cells of width %s' % (U(Hx)[:90], U(edge)[:50])
    chk.decide(n > 0 and bad is None, 'stencil-covers-cutoff', 'StratifiedHashNNPS:level-search-span', node=fn, file=rel, func=who,
               detail_bad='%s: on a level whose cells are narrower than the query\'s own radius (a destination with a larger h than the source level) the cells searched do not cover '
                          'radius_scale*h of the query, so gather neighbours are missed' % (bad or 'no level search found'),
               detail_ok='H_level = ceil(max(radius_scale*h, hmax_level)*H/hmax_level) on every path (%d)' % n)


def rule_octree(chk):
    """tree searches prune a node only when neither the query's radius nor the largest source radius in the node reaches it"""
    from verif_static import symb as S
    rel = 'pysph/base/octree_nnps.pyx'
    t = M.cy(rel)
    cls = M.find_class(t, 'OctreeNNPS')
    fn = M.find_func(cls, '_get_neighbors')
    who = 'OctreeNNPS._get_neighbors'
    pr = [i for i in fn.body if isinstance(i, ast.If) and len(i.body) == 1 and isinstance(i.body[0], ast.Return)]
    leaf = [i for i in fn.body if isinstance(i, ast.If) and accept_sites(ast.Module(body=[i], type_ignores=[]))]
    if len(pr) != 1 or not leaf:
        raise AnalysisError('OctreeNNPS._get_neighbors: pruning test or leaf scan vanished')
    chk.decide(pr[0].lineno < leaf[0].lineno, 'tree-pruning-bound', 'prune-before-scan', node=pr[0], file=rel, func=who, detail_bad='the pruning return does not precede the leaf scan',
               detail_ok='prune, then scan the leaf / recurse')
    ctx = S.Ctx(seconds=20)
    pre = [s for s in fn.body if s.lineno < pr[0].lineno]
    try:
        ev = S.Evaluator(ctx, ast.FunctionDef(name='f', args=fn.args, body=M.docstring_stripped(pre), decorator_list=[]))
        ev.run()
        ptest = pr[0].test
        if isinstance(ptest, ast.Name):           # the test kept in a boolean local
            ptest = N.local_defs(pre).get(ptest.id, ptest)
        got = ev.cond(ptest)
        rs = ctx.var('self.radius_scale')
        eff = ctx.var('node.length') * S.Poly.const(S.Fraction(1, 2)) + ctx.fn('max', [ctx.mul(rs, ctx.var('q_h')), ctx.mul(rs, ctx.var('node.hmax'))])
        want = S.Poly.const(0)
        for k, q in enumerate(('q_x', 'q_y', 'q_z')):
            centre = ctx.var('node.xmin[%d]' % k) + ctx.var('node.length') * S.Poly.const(S.Fraction(1, 2))
            c = ctx.ind(ctx.fn('abs', [centre - ctx.var(q)]) - eff)
            want = ctx.simplify(want + c - ctx.mul(want, c))
        ok = ctx.prove_zero(got - want)[0]
        chk.decide(ok, 'tree-pruning-bound', 'OctreeNNPS:eff-radius', node=pr[0], file=rel, func=who,
                   detail_bad='a node must be skipped iff on some axis |centre - q| >= length/2 + max(radius_scale*q_h, radius_scale*node.hmax) with centre = xmin + length/2: '
                              'a smaller bound (e.g. without node.hmax) prunes sources whose own h reaches the query point', detail_ok='|centre_k - q_k| >= length/2 + max(rs*q_h, rs*node.hmax) on some axis k')
    except (S.Unsupported, S.Budget) as e:
        chk.undecided('tree-pruning-bound', 'OctreeNNPS:eff-radius', node=pr[0], file=rel, func=who, detail=str(e))
    # every child's hmax is the running maximum of the h of the particles assigned to that child, and is the one handed to the child node
    trel = 'pysph/base/octree.pyx'
    tt = M.cy(trel)
    n = 0
    for f in [x for x in ast.walk(tt) if isinstance(x, ast.FunctionDef)]:
        ups = [a for a in ast.walk(f) if isinstance(a, ast.Assign) and isinstance(a.targets[0], ast.Subscript) and compact(a.targets[0].value) in ('hmax_children',) or
               isinstance(a, ast.Assign) and isinstance(a.targets[0], ast.Subscript) and compact(a.targets[0].value).startswith('threads_hmax')]
        if not ups:
            continue
        fq = M.qualname(f)
        for a in ups:
            tgt = compact(a.targets[0])
            n += 1
            if isinstance(a.value, ast.Constant):
                chk.decide(a.value.value == 0, 'tree-pruning-bound', '%s:%s=0@%d' % (fq, tgt, a.lineno), node=a, file=trel, func=fq, detail_bad='running maximum not seeded with 0', detail_ok='seed 0')
                continue
            if isinstance(a.value, ast.Call) and M.call_name(a.value) in ('vector[double]',) or compact(a.value).startswith('vector['):
                n -= 1
                continue
            okk = isinstance(a.value, ast.Call) and M.call_name(a.value) == 'fmax' and tgt in [compact(x) for x in a.value.args] and len(a.value.args) == 2
            other = [x for x in a.value.args if compact(x) != tgt] if okk else []
            okk = okk and len(other) == 1 and (compact(other[0]).startswith('src_h_ptr[') or
                                               (compact(other[0]).startswith('threads_hmax') and compact(other[0]).endswith(compact(a.targets[0].slice) + ']')))
            chk.decide(bool(okk), 'tree-pruning-bound', '%s:%s@%d' % (fq, tgt, a.lineno), node=a, file=trel, func=fq,
                       detail_bad='`%s = %s` is not a running maximum of the smoothing lengths put into this child (fmax of itself and the particle\'s h / the per-thread maximum of the same child)' % (tgt, compact(a.value)),
                       detail_ok='%s = fmax(%s, %s)' % (tgt, tgt, compact(other[0]) if other else ''))
        for c in M.calls(f):
            if (M.call_name(c) or '').endswith('_new_node'):
                kw = dict((k.arg, k.value) for k in c.keywords)
                if 'hmax' not in kw or compact(kw['hmax']) == 'self.hmax':
                    continue
                par = getattr(c, 'parent', None)
                n += 1
                hv = compact(kw['hmax'])
                tgt = M.enclosing(c, (ast.Assign,))
                idx = None
                if tgt is not None and isinstance(tgt.targets[0], ast.Subscript) and compact(tgt.targets[0].value) == 'node.children':
                    idx = compact(tgt.targets[0].slice)
                else:
                    # new_node = ...; node.children[k] = new_node on the next line
                    blk = M.enclosing(c, (ast.For, ast.If, ast.While, ast.FunctionDef))
                    for a2 in ast.walk(blk):
                        if isinstance(a2, ast.Assign) and isinstance(a2.targets[0], ast.Subscript) and compact(a2.targets[0].value) == 'node.children' and tgt is not None \
                                and compact(a2.value) == compact(tgt.targets[0]):
                            idx = compact(a2.targets[0].slice)
                chk.decide(idx is not None and hv == 'hmax_children[%s]' % idx, 'tree-pruning-bound', '%s:child-hmax@%d' % (fq, c.lineno), node=c, file=trel, func=fq,
                           detail_bad='child %s is created with hmax=%s: a child must carry the maximum h of its own particles' % (idx, hv), detail_ok='children[%s] gets hmax_children[%s]' % (idx, idx))
    chk.floor('octree hmax bookkeeping sites', n, 20)


WIDTH = {'char': 8, 'short': 16, 'int': 32, 'unsigned int': 32, 'unsigned': 32, 'uint32_t': 32, 'int32_t': 32, 'long': 64, 'unsigned long': 64, 'long long': 64,
         'unsigned long long': 64, 'size_t': 64, 'Py_ssize_t': 64, 'uint64_t': 64, 'int64_t': 64}


def ctype(text):
    t = (text or '').split('(')[0].strip()
    t = re.sub(r'\bint$', '', t).strip() if t not in ('int', 'unsigned int') and t.endswith(' int') else t
    t = t.replace('const ', '')
    return t


def rule_cxx_headers(chk):
    """the two C++ headers the NNPS extensions compile: bucket chains never lose an entry on insertion; the Morton key interleaves 21 bits per axis injectively; the
    space-filling-curve sort orders ids by their keys"""
    from verif_static import cxx2ast as X
    SH, ZO = 'pysph/base/spatial_hash.h', 'pysph/base/z_order.h'
    sh = X.load(REPO, SH)
    ht = [c for c in sh.body if isinstance(c, ast.ClassDef) and c.name == 'HashTable']
    if not ht:
        raise AnalysisError('HashTable vanished from %s' % SH)
    add = [f for f in ht[0].body if isinstance(f, ast.FunctionDef) and f.name == 'add']
    if not add:
        raise AnalysisError('HashTable::add vanished')
    add = add[0]
    M.set_parents(add)
    # traversal: `while cur != NULL: ...; prev = cur; cur = cur->next`
    loops = [l for l in ast.walk(add) if isinstance(l, ast.While) and isinstance(l.test, ast.Compare) and isinstance(l.test.ops[0], ast.NotEq) and
             isinstance(l.test.comparators[0], ast.Constant) and l.test.comparators[0].value is None and isinstance(l.test.left, ast.Name)]
    cur = loops[0].test.left.id if len(loops) == 1 else None
    preds = set()
    if cur:
        adv = [a for a in loops[0].body if isinstance(a, ast.Assign) and compact(a.targets[0]) == cur and compact(a.value) == cur + '.next']
        for a in loops[0].body:
            if isinstance(a, ast.Assign) and isinstance(a.targets[0], ast.Name) and compact(a.value) == cur and adv and a.lineno <= adv[0].lineno:
                # a predecessor variable: None before the loop, the node just left otherwise; assigned nowhere else
                nm = a.targets[0].id
                others = [b for b in ast.walk(add) if isinstance(b, (ast.Assign, ast.AnnAssign)) and compact(b.target if isinstance(b, ast.AnnAssign) else b.targets[0]) == nm and b is not a]
                if all(isinstance(b.value, ast.Constant) and b.value.value is None and b.lineno < loops[0].lineno for b in others):
                    preds.add(nm)
    news = set(compact(a.targets[0]) for a in ast.walk(add) if isinstance(a, ast.Assign) and isinstance(a.value, ast.Call) and (M.call_name(a.value) or '').startswith('new_'))
    links = [a for a in ast.walk(add) if isinstance(a, ast.Assign) and ((isinstance(a.targets[0], ast.Attribute) and a.targets[0].attr == 'next') or
                                                                       (isinstance(a.targets[0], ast.Subscript) and compact(a.targets[0].value).endswith('hashtable')))]

    def conds(node):
        out = []
        c_ = node
        while getattr(c_, 'parent', None) is not None and c_.parent is not add:
            par = c_.parent
            if isinstance(par, ast.If):
                out.append((compact(par.test), any(c_ is x for x in par.body)))
            c_ = par
        return out
    # a snapshot of the bucket head taken before the traversal and never reassigned: `head == NULL` then means the bucket is empty
    heads = set()
    for b in ast.walk(add):
        if isinstance(b, (ast.Assign, ast.AnnAssign)) and b.value is not None and compact(b.value).endswith('hashtable[key]'):
            nm = compact(b.target if isinstance(b, ast.AnnAssign) else b.targets[0])
            if nm != cur and len([c_ for c_ in ast.walk(add) if isinstance(c_, (ast.Assign, ast.AnnAssign)) and compact(c_.target if isinstance(c_, ast.AnnAssign) else c_.targets[0]) == nm]) == 1:
                heads.add(nm)
    n = 0
    for a in links:
        tgt = a.targets[0]
        val = compact(a.value)
        if isinstance(tgt, ast.Attribute) and compact(tgt.value) in news:
            continue            # the fresh node's own `next`: nothing hangs behind it yet
        n += 1
        cs = conds(a)
        after_loop = bool(loops) and a.lineno > loops[0].lineno
        exhausted = any((t in ('%s!=None' % cur, 'None!=%s' % cur) and not taken) or (t in ('%s==None' % cur, 'None==%s' % cur) and taken) for t, taken in cs)
        ok, why = False, ''
        if isinstance(tgt, ast.Attribute):
            holder = compact(tgt.value)
            keeps = any(isinstance(b, ast.Assign) and compact(b.targets[0]) == val + '.next' and compact(b.value) == holder + '.next' and b.lineno < a.lineno for b in ast.walk(add))
            tail = holder in preds and after_loop and exhausted and any((t in ('%s==None' % holder,) and not taken) or (t in ('%s!=None' % holder,) and taken) for t, taken in cs)
            ok = keeps or tail
            why = 'tail of the chain' if tail else 'successor kept'
        else:
            keeps = any(isinstance(b, ast.Assign) and compact(b.targets[0]) == val + '.next' and compact(b.value) == compact(tgt) and b.lineno < a.lineno for b in ast.walk(add))
            empty = after_loop and exhausted and any(p_ in preds and ((t == '%s==None' % p_ and taken) or (t == '%s!=None' % p_ and not taken)) for t, taken in cs for p_ in preds)
            empty = empty or any((t == '%s==None' % h_ and taken) or (t == '%s!=None' % h_ and not taken) for t, taken in cs for h_ in heads)
            ok = keeps or empty
            why = 'empty bucket' if empty else 'old head kept behind the new node'
        chk.decide(ok and val in news, 'hash-chain-keeps-every-cell', 'HashTable::add:%s=%s' % (compact(tgt), val), node=a, file=SH, func='HashTable::add',
                   detail_bad='`%s = %s` under %s: the link is overwritten although it is neither the end of the chain (predecessor of an exhausted traversal) nor is its old successor '
                              'hung behind the new node - every cell already chained there is lost, its particles disappear from all neighbour lists' % (compact(tgt), val, cs),
                   detail_ok=why)
    chk.floor('links written by HashTable::add', n, 1)
    # ---- look-up: a bucket chains every cell whose coordinates hash to it; the entry handed out is the one whose three stored coordinates are the three asked for
    # (all entries of a bucket share the hash key: matching on the key returns the first cell of the bucket for every colliding cell)
    get = [f for f in ht[0].body if isinstance(f, ast.FunctionDef) and f.name == 'get']
    if not get:
        raise AnalysisError('HashTable::get vanished')
    get = get[0]
    M.set_parents(get)
    gp = [a.arg for a in get.args.args if a.arg not in ('self', 'this')][:3]
    hits = [r for r in ast.walk(get) if isinstance(r, ast.Return) and r.value is not None and not (isinstance(r.value, ast.Constant) and r.value.value is None)
            and M.enclosing(r, (ast.While, ast.For)) is not None]
    okg = bool(hits) and len(gp) == 3
    for r in hits:
        gi = M.enclosing(r, (ast.If,))
        cur_ = compact(r.value)
        parts = []
        if gi is not None:
            t_ = gi.test
            def flat_(e_):
                return [y for v_ in e_.values for y in flat_(v_)] if isinstance(e_, ast.BoolOp) and isinstance(e_.op, ast.And) else [e_]
            parts = [compact(x) for x in flat_(t_)]
        want_ = [('%s.c_%s==%s' % (cur_, ax, pn), '%s==%s.c_%s' % (pn, cur_, ax)) for ax, pn in zip('xyz', gp)]
        okg = okg and gi is not None and all(any(w in parts for w in ws) for ws in want_)
    chk.decide(okg, 'hash-chain-keeps-every-cell', 'HashTable::get:matches-the-cell', node=get, file=SH, func='HashTable::get',
               detail_bad='the entry returned for cell (%s) is not required to store exactly these three coordinates: with two occupied cells in one bucket the particles of the '
                          'later ones are never found (or another cell\'s particles are returned)' % ', '.join(gp), detail_ok='entry.c_x == i and entry.c_y == j and entry.c_z == k')
    # ---- Morton key: symbolic bits
    zo = X.load(REPO, ZO)
    gk = [f for f in zo.body if isinstance(f, ast.FunctionDef) and f.name == 'get_key']
    if not gk:
        raise AnalysisError('get_key vanished from %s' % ZO)
    gk = gk[0]
    NB_ = 21
    params = [a.arg for a in gk.args.args]

    def bits_of(e, env):
        """64 entries, each a frozenset of (axis, source bit) that are OR-ed into that position"""
        if isinstance(e, ast.Name):
            return env[e.id]
        if isinstance(e, ast.Constant) and isinstance(e.value, int):
            return ('const', e.value)
        if isinstance(e, ast.BinOp):
            a_, b_ = bits_of(e.left, env), bits_of(e.right, env)
            if isinstance(e.op, ast.LShift) and isinstance(b_, tuple):
                k_ = b_[1]
                return [frozenset()] * k_ + list(a_[:64 - k_])
            if isinstance(e.op, ast.BitOr) and not isinstance(a_, tuple) and not isinstance(b_, tuple):
                return [x | y for x, y in zip(a_, b_)]
            if isinstance(e.op, ast.BitAnd) and isinstance(b_, tuple):
                return [x if (b_[1] >> i_) & 1 else frozenset() for i_, x in enumerate(a_)]
            if isinstance(e.op, ast.BitAnd) and isinstance(a_, tuple):
                return [x if (a_[1] >> i_) & 1 else frozenset() for i_, x in enumerate(b_)]
        raise AnalysisError('get_key: expression %s not modelled' % compact(e))
    env = dict((p_, [frozenset([(p_, b)]) if b < NB_ else frozenset() for b in range(64)]) for p_ in params)
    result = None
    for st in gk.body:
        if isinstance(st, ast.Assign) and isinstance(st.targets[0], ast.Name):
            env[st.targets[0].id] = bits_of(st.value, env)
        elif isinstance(st, ast.Return):
            result = bits_of(st.value, env)
    ok = result is not None
    detail = ''
    if ok:
        seen = {}
        for pos, srcs in enumerate(result):
            if len(srcs) > 1:
                ok, detail = False, 'result bit %d mixes %s' % (pos, sorted(srcs))
                break
            for s_ in srcs:
                if s_ in seen:
                    ok, detail = False, 'input bit %s lands on bits %d and %d' % (s_, seen[s_], pos)
                seen[s_] = pos
        if ok:
            missing = [(p_, b) for p_ in params for b in range(NB_) if (p_, b) not in seen]
            if missing:
                ok, detail = False, 'input bits %s do not reach the key' % missing[:4]
            else:
                want = dict(((p_, b), 3 * b + ax) for ax, p_ in enumerate(params) for b in range(NB_))
                wrong = [(s_, seen[s_], want[s_]) for s_ in want if seen[s_] != want[s_]]
                if wrong:
                    ok, detail = False, 'bit %s of the cell id lands on key bit %d, the Z-order interleave puts it on %d' % wrong[0]
    chk.decide(ok, 'morton-key-is-the-bit-interleave', 'get_key', node=gk, file=ZO, func='get_key',
               detail_bad='symbolic evaluation of the shifts and masks on 21 bits per axis: %s - two different cells can receive one key (or the curve order is not the Z-order the box table assumes)' % detail,
               detail_ok='bit b of axis a -> key bit 3b + a, for all 63 bits: the key is injective on 21-bit cell ids')
    csw = [c for c in zo.body if isinstance(c, ast.ClassDef) and c.name == 'CompareSortWrapper']
    okc = False
    if csw:
        cmpw = [c for c in csw[0].body if isinstance(c, ast.ClassDef)]
        op = [f for c in cmpw for f in c.body if isinstance(f, ast.FunctionDef) and f.name.startswith('operator')]
        rets = [r for f in op for r in ast.walk(f) if isinstance(r, ast.Return)]
        a_, b_ = (op[0].args.args[0].arg, op[0].args.args[1].arg) if op and len(op[0].args.args) == 2 else (None, None)
        okc = len(rets) == 1 and isinstance(rets[0].value, ast.Compare) and isinstance(rets[0].value.ops[0], ast.Lt) and \
            compact(rets[0].value.left) == 'this.data.current_keys[%s]' % a_ and compact(rets[0].value.comparators[0]) == 'this.data.current_keys[%s]' % b_
        cs_ = [f for f in csw[0].body if isinstance(f, ast.FunctionDef) and f.name == 'compare_sort']
        sorts = [c for f in cs_ for c in M.calls(f) if M.call_name(c) == 'sort']
        okc = okc and len(sorts) == 2 and compact(sorts[0].args[0]) == 'this.current_pids' and same(sorts[0].args[1], 'this.current_pids+this.length') and len(sorts[0].args) == 3 and \
            compact(sorts[1].args[0]) == 'this.current_keys' and same(sorts[1].args[1], 'this.current_keys+this.length') and sorts[0].lineno < sorts[1].lineno
    chk.decide(okc, 'morton-key-is-the-bit-interleave', 'ids-sorted-by-key', node=csw[0] if csw else zo, file=ZO, func='CompareSortWrapper::compare_sort',
               detail_bad='particle ids must be sorted by keys[a] < keys[b] over [0, length) BEFORE the keys themselves are sorted (afterwards keys[id] no longer belongs to id)',
               detail_ok='ids by key over the whole range, then keys')


def rule_narrowing(chk):
    """keys of 64-bit-keyed containers (sparse cell tables) are computed in 64 bits end to end: a variable stored as such a key, or used to look one up, is declared at least as
    wide as the key type (ids beyond 2**31 would otherwise be truncated at insertion and alias other cells, while the look-ups use the full id)"""
    rels = [os.path.relpath(p, REPO) for p in sorted(glob.glob(os.path.join(REPO, 'pysph/base/*_nnps.pyx'))) if 'gpu' not in p] + [NB, 'pysph/base/octree.pyx']
    n = 0
    RET_TYPES = {}
    for rel_ in [NB, 'pysph/base/nnps_base.pxd']:
        try:
            for f_ in ast.walk(M.cy(rel_)):
                if isinstance(f_, ast.FunctionDef) and getattr(f_, 'cy_rettype', None):
                    RET_TYPES.setdefault(f_.name, f_.cy_rettype.replace('()', '').strip())
        except Exception:
            pass
    ATTR_KEYW = {}
    for rel in rels:
        pxd = rel[:-4] + '.pxd'
        if os.path.exists(os.path.join(REPO, pxd)):
            for c_ in M.classes(M.cy(pxd)):
                for st_ in c_.body:
                    if isinstance(st_, ast.AnnAssign) and isinstance(st_.target, ast.Name) and isinstance(st_.annotation, ast.Constant) and isinstance(st_.annotation.value, str):
                        m_ = re.match(r'^(?:map|unordered_map)\[([^,\]]+),', st_.annotation.value)
                        if m_ and WIDTH.get(ctype(m_.group(1))) is not None:
                            ATTR_KEYW.setdefault(rel, {})[st_.target.id] = (WIDTH[ctype(m_.group(1))], st_.annotation.value)
    for rel in rels:
        t = M.cy(rel)
        for fn in [f for f in ast.walk(t) if isinstance(f, ast.FunctionDef)]:
            decl, keyw = {}, {}
            for a in ast.walk(fn):
                if isinstance(a, ast.AnnAssign) and isinstance(a.target, ast.Name) and isinstance(a.annotation, ast.Constant) and isinstance(a.annotation.value, str):
                    ty = a.annotation.value
                    w = WIDTH.get(ctype(ty))
                    if w is not None:
                        decl[a.target.id] = (w, ty)
                    m = re.match(r'^(?:map|unordered_map|pair)\[([^,\]]+),', ty)
                    if m and WIDTH.get(ctype(m.group(1))) is not None:
                        keyw[a.target.id] = (WIDTH[ctype(m.group(1))], ty)
            # containers that are attributes of the class (declared in the .pxd): looked up as self.<attr>.find(key) / self.<attr>[key]
            akeyw = ATTR_KEYW.get(rel, {})
            if not keyw and not akeyw:
                continue
            for a in ast.walk(fn):
                uses = []
                if akeyw:
                    if isinstance(a, ast.Call) and isinstance(a.func, ast.Attribute) and a.func.attr in ('find', 'count', 'erase') and isinstance(a.func.value, ast.Attribute) \
                            and compact(a.func.value.value) == 'self' and a.func.value.attr in akeyw and a.args and isinstance(a.args[0], ast.Name):
                        keyw.setdefault('self.' + a.func.value.attr, akeyw[a.func.value.attr])
                        uses.append(('self.' + a.func.value.attr, a.args[0].id, a))
                    if isinstance(a, ast.Subscript) and isinstance(a.value, ast.Attribute) and compact(a.value.value) == 'self' and a.value.attr in akeyw and isinstance(a.slice, ast.Name):
                        keyw.setdefault('self.' + a.value.attr, akeyw[a.value.attr])
                        uses.append(('self.' + a.value.attr, a.slice.id, a))
                if isinstance(a, ast.Assign) and isinstance(a.targets[0], ast.Attribute) and a.targets[0].attr == 'first' and isinstance(a.targets[0].value, ast.Name) \
                        and a.targets[0].value.id in keyw and isinstance(a.value, ast.Name):
                    uses.append((a.targets[0].value.id, a.value.id, a))
                if isinstance(a, ast.Assign) and isinstance(a.targets[0], ast.Attribute) and a.targets[0].attr == 'first' and isinstance(a.targets[0].value, ast.Name) \
                        and a.targets[0].value.id in keyw and isinstance(a.value, ast.Call) and isinstance(a.value.func, ast.Name):
                    # the key comes straight out of a helper: its declared return type is the width that counts
                    rt = RET_TYPES.get(a.value.func.id)
                    if rt is not None and WIDTH.get(ctype(rt)) is not None:
                        decl['<%s()>' % a.value.func.id] = (WIDTH[ctype(rt)], rt)
                        uses.append((a.targets[0].value.id, '<%s()>' % a.value.func.id, a))
                if isinstance(a, ast.Subscript) and isinstance(a.value, ast.Name) and a.value.id in keyw and isinstance(a.slice, ast.Name):
                    uses.append((a.value.id, a.slice.id, a))
                if isinstance(a, ast.Call) and isinstance(a.func, ast.Attribute) and a.func.attr in ('find', 'count', 'erase') and isinstance(a.func.value, ast.Name) \
                        and a.func.value.id in keyw and a.args and isinstance(a.args[0], ast.Name):
                    uses.append((a.func.value.id, a.args[0].id, a))
                for cont, var, node in uses:
                    if var not in decl:
                        continue
                    kw_, kty = keyw[cont]
                    vw, vty = decl[var]
                    n += 1
                    chk.decide(vw >= kw_, 'ids-keep-their-width', '%s:%s:%s->%s' % (rel.split('/')[-1], M.qualname(fn), var, cont), node=node, file=rel, func=M.qualname(fn),
                               detail_bad='`%s` is declared `%s` (%d bits) but is the key of `%s` (%s, %d-bit keys): ids beyond 2**31 are truncated here and alias other cells, while binning and the '
                                          'stencil look-up use the full id' % (var, vty, vw, cont, kty, kw_), detail_ok='%s %s keys %s' % (vty, var, kty))
    chk.floor('keys of 64-bit-keyed containers', n, 1)


def rule_refresh_unconditional(chk):
    """update() rebuilds the search structure of *every* array: in the _refresh of a class, the loop over the arrays skips an array (continue / break, or the build call under a
    test) only when that array is empty.  A structure kept because the array "looks unchanged" (same count, sums, bounds) is stale after the particles were permuted - the
    spatial re-ordering does exactly that - and hands out indices of other particles.  Shared with C17."""
    n = 0
    for p_ in sorted(glob.glob(os.path.join(REPO, 'pysph/base/*_nnps.pyx'))):
        if 'gpu' in p_:
            continue
        rel = os.path.relpath(p_, REPO)
        for cls in M.classes(M.cy(rel)):
            fn = M.methods(cls).get('_refresh')
            if fn is None:
                continue
            M.set_parents(fn)
            defs = N.local_defs(fn.body)
            for loop in [l for l in ast.walk(fn) if isinstance(l, ast.For) and compact(l.iter) in ('range(self.narrays)', 'range(narrays)')]:
                calls_in = [c for c in M.calls(loop) if isinstance(c.func, ast.Attribute) and c.func.attr in ('c_build_tree', 'fill_array', '_bin', 'build_tree')]
                if not calls_in:
                    continue
                n += 1
                bad = []
                for x in ast.walk(loop):
                    cond = None
                    if isinstance(x, (ast.Continue, ast.Break)) and M.enclosing(x, (ast.For, ast.While)) is loop:
                        gi = M.enclosing(x, (ast.If,))
                        cond = gi.test if gi is not None and any(gi is y for y in ast.walk(loop)) else None
                        if cond is None:
                            bad.append('unconditional %s' % type(x).__name__.lower())
                            continue
                    elif x in calls_in:
                        gi = M.enclosing(x, (ast.If,))
                        cond = gi.test if gi is not None and any(gi is y for y in ast.walk(loop)) else None
                        if cond is None:
                            continue
                    else:
                        continue
                    t_ = compact(N.inline(cond, defs))
                    empt = _zero_side(cond, defs) is not None or 'NULL' in t_
                    if not empt:
                        bad.append('under `%s`' % compact(cond))
                chk.decide(not bad, 'results-not-stale', '%s._refresh:every-array-rebuilt@%d' % (cls.name, loop.lineno), node=loop, file=rel, func='%s._refresh' % cls.name,
                           detail_bad='the loop over the arrays does not rebuild every array (%s): a structure that is kept across an update describes the particles as they were - after '
                                      'a permutation of the array (spatial re-ordering) or any change the test does not see, queries and ordered-index lists are wrong' % '; '.join(bad[:2]),
                           detail_ok='every array, on every path')
    chk.floor('per-array rebuild loops', n, 3)


def rule_tables_emptied(chk):
    """a look-up table that binning fills with a call that only ever *adds* (`insert` of a C++ map - which keeps an existing entry -, `add` of a hash table) is created anew,
    or cleared, by _refresh on every update: entries of cells that were occupied at an earlier update otherwise survive (with their old ranges) next to the new ones.
    The table is traced from the adding call back to the attribute it lives in (through parameters and locals)."""
    n = 0
    for p_ in sorted(glob.glob(os.path.join(REPO, 'pysph/base/*_nnps.pyx'))):
        if 'gpu' in p_:
            continue
        rel = os.path.relpath(p_, REPO)
        for cls in M.classes(M.cy(rel)):
            meths = M.methods(cls)
            rf = meths.get('_refresh')
            if rf is None:
                continue
            grown = {}
            for mname, fn in meths.items():
                params = M.arg_names(fn)
                ldefs = N.local_defs([fn])
                for c in M.calls(fn):
                    if not (isinstance(c.func, ast.Attribute) and c.func.attr in ('insert', 'add')):
                        continue
                    recv = N.inline(c.func.value, ldefs)
                    roots = [recv]
                    if isinstance(recv, ast.Name) and recv.id in params:
                        # a table handed in: what the callers inside the class pass at that position
                        k = params.index(recv.id) - (1 if params and params[0] == 'self' else 0)
                        roots = []
                        for m2, f2 in meths.items():
                            ld2 = N.local_defs([f2])
                            for c2 in M.calls(f2):
                                if M.call_name(c2) == 'self.' + mname and len(c2.args) > k:
                                    roots.append(N.inline(c2.args[k], ld2))
                    for r_ in roots:
                        base = r_
                        while isinstance(base, ast.Subscript):
                            base = base.value
                        if isinstance(base, ast.Attribute) and isinstance(base.value, ast.Name) and base.value.id == 'self':
                            grown.setdefault(base.attr, (c, mname))
            for attr, (c, mname) in sorted(grown.items()):
                n += 1
                fresh = False
                rdefs = N.local_defs([rf])

                def root(e_):
                    # the attribute a (possibly aliased, possibly subscripted) expression of _refresh lives in
                    for _k in range(6):
                        while isinstance(e_, ast.Subscript):
                            e_ = e_.value
                        if isinstance(e_, ast.Name) and e_.id in rdefs:
                            e_ = rdefs[e_.id]
                        else:
                            break
                    return e_
                for a in ast.walk(rf):
                    if isinstance(a, ast.Assign):
                        b_ = root(a.targets[0])
                        if compact(b_) == 'self.' + attr and isinstance(a.value, ast.Call):
                            cn = M.call_name(a.value) or ''
                            if cn.startswith('__new__') or cn[:1].isupper() or cn in ('dict', 'list', 'set'):
                                fresh = True
                    if isinstance(a, ast.Call) and isinstance(a.func, ast.Attribute) and a.func.attr in ('clear', 'reset'):
                        if compact(root(a.func.value)) == 'self.' + attr:
                            fresh = True
                chk.decide(fresh, 'results-not-stale', '%s._refresh:%s-emptied' % (cls.name, attr), node=rf, file=rel, func='%s._refresh' % cls.name,
                           detail_bad='%s.%s adds to self.%s with `%s`, which never removes or replaces an entry, but _refresh does not create that table anew (or clear it): after the second '
                                      'update the cells occupied earlier are still listed, with their old ranges, and queries return wrong neighbours' % (cls.name, mname, attr, compact(c)[:50]),
                           detail_ok='self.%s is created anew / cleared by _refresh' % attr)
    chk.floor('tables filled by adding calls', n, 3)


def rule_sorted_on_every_refill(chk):
    """the classes that search a key-sorted table (Z-order, stratified space-filling curve, cell indexing) sort the keys every time the table is filled - the sort in
    fill_array is under no condition (an "already in order" flag set by the re-ordering is wrong as soon as align_particles moves real particles in front of ghosts, or the
    particles move before the next update).  Shared with C17."""
    n = 0
    for rel in ('pysph/base/z_order_nnps.pyx', 'pysph/base/stratified_sfc_nnps.pyx', 'pysph/base/cell_indexing_nnps.pyx'):
        for cls in M.classes(M.cy(rel)):
            fn = M.methods(cls).get('fill_array')
            if fn is None:
                continue
            M.set_parents(fn)
            sorts = [c for c in M.calls(fn) if (isinstance(c.func, ast.Attribute) and c.func.attr in ('compare_sort', 'sort')) or M.call_name(c) in ('sort', 'qsort')]
            n += 1
            cond = [M.enclosing(c, (ast.If, ast.For, ast.While)) for c in sorts]
            ok = bool(sorts) and any(g_ is None for g_ in cond)
            chk.decide(ok, 'results-not-stale', '%s.fill_array:keys-sorted-on-every-refill' % cls.name, node=sorts[0] if sorts else fn, file=rel, func='%s.fill_array' % cls.name,
                       detail_bad='the keys are %s: a table that is searched by key position must be sorted whenever it is refilled; an array that "is already in key order" stops being '
                                  'so when align_particles moves the real particles in front, or when particles move before the update' % ('sorted only under `%s`' % compact(cond[0].test) if sorts and isinstance(cond[0], ast.If) else 'not sorted'),
                       detail_ok='sorted unconditionally')
    chk.floor('key tables filled', n, 3)


def rule_every_level_searched(chk):
    """the stratified classes keep one structure per level of smoothing length; a query visits every level - an empty level is skipped (continue), it does not end the search:
    particles with a larger h live in the levels above it"""
    n = 0
    for rel in ('pysph/base/stratified_hash_nnps.pyx', 'pysph/base/stratified_sfc_nnps.pyx'):
        for cls in M.classes(M.cy(rel)):
            fn = M.methods(cls).get('find_nearest_neighbors')
            if fn is None:
                continue
            M.set_parents(fn)
            for loop in [l for l in ast.walk(fn) if isinstance(l, ast.For) and compact(l.iter) in ('range(self.num_levels)', 'range(num_levels)')]:
                n += 1
                brk = [x for x in ast.walk(loop) if isinstance(x, (ast.Break, ast.Return)) and M.enclosing(x, (ast.For, ast.While)) is loop]
                chk.decide(not brk, 'explicit-stencil-covers-cell-size', '%s.find_nearest_neighbors:every-level-searched@%d' % (cls.name, loop.lineno), node=brk[0] if brk else loop, file=rel,
                           func='%s.find_nearest_neighbors' % cls.name,
                           detail_bad='the loop over the levels is left (%s at line %d) before all levels were searched: with an empty level below an occupied one (two arrays of '
                                      'different resolution, a bimodal h) the particles of the upper levels are never found' % (type(brk[0]).__name__.lower() if brk else '', brk[0].lineno if brk else 0),
                           detail_ok='every level visited (empty ones skipped with continue)')
    chk.floor('loops over the levels of the stratified structures', n, 1)


def rule_query_array_index(chk):
    """helpers that encode / decode per-array layouts (the key of a cell, the particle id inside a key: the bit widths differ from array to array) take the index of the array
    they are to work for; in a query everything that is looked up belongs to the *source* array, so inside find_nearest_neighbors that argument is the source index (through
    locals).  With the destination's index the look-up key has the wrong field widths whenever the two arrays differ in size: no cell is found, neighbours are lost."""
    n = 0
    for p_ in sorted(glob.glob(os.path.join(REPO, 'pysph/base/*_nnps.pyx'))):
        if 'gpu' in p_:
            continue
        rel = os.path.relpath(p_, REPO)
        for cls in M.classes(M.cy(rel)):
            meths = M.methods(cls)
            fn = meths.get('find_nearest_neighbors')
            if fn is None:
                continue
            withidx = dict((m_, [a.arg for a in f_.args.args].index('pa_index') - 1) for m_, f_ in meths.items() if 'pa_index' in [a.arg for a in f_.args.args])
            if not withidx:
                continue
            defs = N.local_defs(fn.body)
            for c in M.calls(fn):
                if isinstance(c.func, ast.Attribute) and compact(c.func.value) == 'self' and c.func.attr in withidx and len(c.args) > withidx[c.func.attr]:
                    arg = compact(N.inline(c.args[withidx[c.func.attr]], defs))
                    n += 1
                    chk.decide(arg == 'self.src_index', 'context-wiring', '%s.find_nearest_neighbors:%s(pa_index=%s)@%d' % (cls.name, c.func.attr, arg, n), node=c, file=rel,
                               func='%s.find_nearest_neighbors' % cls.name,
                               detail_bad='%s is asked to work with the layout of array `%s`; everything a query looks up is the source array\'s (self.src_index): with two arrays whose '
                                          'particle counts need different numbers of id bits the key built here matches no cell of the source table (or the wrong one)' % (c.func.attr, arg),
                               detail_ok='layout of the source array')
    chk.floor('per-array layout helpers used in queries', n, 2)


def rule_coindexed(chk):
    """x, y, z and h of one particle are read with one index: inside a loop the coordinate and smoothing-length pointers of the
    same array family must be subscripted by the same expression"""
    import re
    rels = [os.path.relpath(p, REPO) for p in sorted(glob.glob(os.path.join(REPO, 'pysph/base/*_nnps.pyx'))) if 'gpu' not in p]
    rels += ['pysph/base/octree.pyx', NB]
    n = 0
    for rel in rels:
        t = M.cy(rel)
        for fn in [f for f in ast.walk(t) if isinstance(f, ast.FunctionDef)]:
            # innermost loops (or the function body when it has none)
            scopes = [l for l in ast.walk(fn) if isinstance(l, (ast.For, ast.While)) and M.enclosing_func(l) is fn]
            scopes = scopes or [fn]
            for sc in scopes:
                fam = {}
                for x in ast.walk(sc):
                    if isinstance(x, ast.Subscript) and isinstance(x.ctx, ast.Load):
                        base = compact(x.value)
                        m = re.match(r'^(.*?)(?:_)?([xyzh])(_ptr)?(\.data)?$', base)
                        if not m or base in ('x', 'y', 'z', 'h') or isinstance(x.slice, ast.Constant):
                            continue
                        family = (m.group(1), m.group(3) or '', m.group(4) or '')
                        if not family[0] and not family[1]:
                            continue
                        # loops nested deeper are judged on their own
                        inner = M.enclosing(x, (ast.For, ast.While))
                        if sc is not fn and inner is not sc:
                            continue
                        fam.setdefault(family, {}).setdefault(m.group(2), set()).add(compact(x.slice))
                for family, comps in fam.items():
                    if 'h' not in comps or not ({'x', 'y', 'z'} & set(comps)):
                        continue
                    n += 1
                    coord_idx = set().union(*[v for k, v in comps.items() if k != 'h'])
                    inst = '%s:%s:%s*' % (rel.split('/')[-1], M.qualname(fn), family[0] or 'ptr')
                    ok = comps['h'] <= coord_idx
                    chk.decide(ok, 'coordinates-and-h-of-one-particle', inst + '@%d' % getattr(sc, 'lineno', 0), node=sc, file=rel, func=M.qualname(fn),
                               detail_bad='in this loop the smoothing length is read at index %s but the coordinates of the same array at %s: h of a different '
                                          'particle enters the radius / hmax computation' % (sorted(comps['h'] - coord_idx), sorted(coord_idx)),
                               detail_ok='h and coordinates indexed alike (%s)' % sorted(comps['h']))
    chk.floor('loops reading coordinates and h of one array', n, 20)


def _rows(fn, table_attrs, param_rows=None):
    """local names of `fn` that hold one array's row of a per-array table: {name: attr} - assigned from self.<attr>[...] (or self.current_<attr>...), or a parameter known
    (from the call sites, param_rows) to receive such a row"""
    rows = dict(param_rows or {})
    for a in ast.walk(fn):
        if isinstance(a, (ast.Assign, ast.AnnAssign)) and getattr(a, 'value', None) is not None:
            tg = a.targets[0] if isinstance(a, ast.Assign) else a.target
            v = a.value
            while isinstance(v, ast.Call) and compact(v.func) in ('__cast__', 'cast') and v.args:
                v = v.args[-1]
            if isinstance(tg, ast.Name) and isinstance(v, ast.Subscript) and isinstance(v.value, ast.Attribute) and compact(v.value.value) == 'self' and v.value.attr in table_attrs:
                rows[tg.id] = v.value.attr
    return rows


def _param_rows(cls, table_attrs):
    """{method name: {parameter: attr}}: parameters that receive a table row at every call site inside the class (followed through forwarding methods, to a fixed point)"""
    meths = M.methods(cls)
    res = dict((m_, {}) for m_ in meths)
    for _ in range(4):
        changed = False
        for caller, fn in meths.items():
            rows = _rows(fn, table_attrs, res.get(caller))
            for c in M.calls(fn):
                if isinstance(c.func, ast.Attribute) and compact(c.func.value) == 'self' and c.func.attr in meths:
                    params = [a.arg for a in meths[c.func.attr].args.args][1:]
                    for p_, a_ in zip(params, c.args):
                        if isinstance(a_, ast.Name) and a_.id in rows and res[c.func.attr].get(p_) != rows[a_.id]:
                            res[c.func.attr][p_] = rows[a_.id]
                            changed = True
        if not changed:
            break
    return res


def rule_index_spaces(chk):
    """the Z-order classes keep two numberings of the particles of an array - the particle id and the position in the key-sorted order - and tables in each: `cids` (cell id
    of a particle) is filled per particle id, `pids` / `keys` are in sorted order, `key_to_idx` maps a key to a sorted position.  Every subscript of a `cids` row must be a
    particle id: a value read from a `pids` row (or the destination index of the query).  A sorted position used there reads the cell id of an unrelated particle."""
    rel = 'pysph/base/z_order_nnps.pyx'
    tables = ('cids', 'pids', 'keys', 'key_to_idx')
    n = 0
    for cls in M.classes(M.cy(rel)):
        prow = _param_rows(cls, tables)
        for mname, fn in sorted(M.methods(cls).items()):
            rows = _rows(fn, tables, prow.get(mname))
            M.set_parents(fn)
            for sub in ast.walk(fn):
                if not (isinstance(sub, ast.Subscript) and isinstance(sub.value, ast.Name) and rows.get(sub.value.id) == 'cids'):
                    continue

                def space(e, depth=0):
                    if isinstance(e, ast.Subscript) and isinstance(e.value, ast.Name) and rows.get(e.value.id) == 'pids':
                        return 'particle id'
                    if isinstance(e, ast.Subscript) and isinstance(e.value, ast.Name) and rows.get(e.value.id) == 'key_to_idx':
                        return 'sorted position'
                    if isinstance(e, ast.Call) and (M.call_name(e) or '').split('.')[-1] == 'get_idx':
                        return 'sorted position'
                    if isinstance(e, ast.Subscript) and isinstance(e.value, ast.Name) and 'found' in e.value.id:
                        return 'sorted position'
                    if isinstance(e, ast.Name) and depth < 4:
                        if e.id in ('d_idx', 's_idx'):
                            return 'particle id'
                        defs = [a.value for a in ast.walk(fn) if isinstance(a, ast.Assign) and any(isinstance(t_, ast.Name) and t_.id == e.id for t_ in a.targets)]
                        defs += [a.value for a in ast.walk(fn) if isinstance(a, ast.AnnAssign) and isinstance(a.target, ast.Name) and a.target.id == e.id and a.value is not None]
                        sp = set(space(d_, depth + 1) for d_ in defs)
                        if len(sp) == 1:
                            return sp.pop()
                        return 'unknown (%s)' % sorted(sp) if sp else 'unknown'
                    return 'unknown'
                sp = space(sub.slice)
                n += 1
                chk.decide(sp == 'particle id', 'table-index-spaces', '%s.%s:cids[%s]' % (cls.name, mname, compact(sub.slice)), node=sub, file=rel, func='%s.%s' % (cls.name, mname),
                           detail_bad='the cell-id table, which is filled per particle id, is subscripted with a %s (`%s`): the cell id - and with it the maximum smoothing length '
                                      'that prunes the neighbour boxes - is that of an unrelated particle, so boxes holding true neighbours are dropped' % (sp, compact(sub)),
                           detail_ok='subscripted with a particle id')
    chk.floor('subscripts of cell-id tables', n, 9)


COUNT_TEXT = ('get_number_of_particles()', '.length', 'num_particles')


def _is_count(e, defs):
    t = compact(N.inline(e, defs)) if defs is not None else compact(e)
    return any(k in t for k in COUNT_TEXT)


def _zero_side(test, defs):
    """(True, ...) when `test` holds exactly for an empty array, (False, ...) when it holds exactly for a non-empty one, None otherwise"""
    t = test
    if isinstance(t, ast.UnaryOp) and isinstance(t.op, ast.Not) and _is_count(t.operand, defs):
        return True
    if isinstance(t, ast.Compare) and len(t.ops) == 1 and _is_count(t.left, defs) and isinstance(t.comparators[0], ast.Constant):
        c, op = t.comparators[0].value, t.ops[0]
        if (c == 0 and isinstance(op, (ast.Eq, ast.LtE))) or (c == 1 and isinstance(op, ast.Lt)):
            return True
        if (c == 0 and isinstance(op, (ast.Gt, ast.NotEq))) or (c == 1 and isinstance(op, ast.GtE)):
            return False
    if _is_count(t, defs) and isinstance(t, (ast.Name, ast.Attribute, ast.Call)):
        return False
    return None


def rule_first_element(chk):
    """an array of the problem may be empty (the quantifier says so; inlets start empty): a per-array table sized by the particle count then has no element, so element 0
    of such a table may be read only where the count is known to be positive - after `if n == 0: return / continue`, under `if n > 0`, or inside a loop over range(n)"""
    n = 0
    for rel, tables in (('pysph/base/z_order_nnps.pyx', ('pids', 'keys', 'cids')), ('pysph/base/stratified_sfc_nnps.pyx', ('pids', 'keys')), ('pysph/base/cell_indexing_nnps.pyx', ('keys',))):
        for cls in M.classes(M.cy(rel)):
            prow = _param_rows(cls, tables)
            for mname, fn in sorted(M.methods(cls).items()):
                rows = _rows(fn, tables, prow.get(mname))
                if not rows:
                    continue
                M.set_parents(fn)
                defs = N.local_defs(fn.body)
                sites = {}
                for sub in ast.walk(fn):
                    if isinstance(sub, ast.Subscript) and isinstance(sub.ctx, ast.Load) and isinstance(sub.value, ast.Name) and sub.value.id in rows \
                            and isinstance(sub.slice, ast.Constant) and sub.slice.value == 0:
                        sites.setdefault(rows[sub.value.id], []).append(sub)
                for attr, subs in sorted(sites.items()):
                    unguarded = []
                    for sub in subs:
                        ok = False
                        node = sub
                        while node is not fn and not ok:
                            par = node.parent
                            if isinstance(par, ast.If):
                                z = _zero_side(par.test, defs)
                                if (z is False and node in par.body) or (z is True and node in par.orelse):
                                    ok = True
                            if isinstance(par, ast.For) and node in par.body and isinstance(par.iter, ast.Call) and compact(par.iter.func) == 'range' and par.iter.args \
                                    and _is_count(par.iter.args[-1 if len(par.iter.args) < 3 else 1], defs) and (len(par.iter.args) == 1 or compact(par.iter.args[0]) == '0'):
                                ok = True
                            for fld in ('body', 'orelse'):
                                blk = getattr(par, fld, None)
                                if isinstance(blk, list) and node in blk:
                                    for prev in blk[:blk.index(node)]:
                                        if isinstance(prev, ast.If) and _zero_side(prev.test, defs) is True and prev.body and isinstance(prev.body[-1], (ast.Return, ast.Continue, ast.Break, ast.Raise)):
                                            ok = True
                            node = par
                        if not ok:
                            unguarded.append(sub)
                    n += 1
                    chk.decide(not unguarded, 'empty-arrays', '%s.%s:first-element-of-%s' % (cls.name, mname, attr), node=(unguarded or subs)[0], file=rel, func='%s.%s' % (cls.name, mname),
                               detail_bad='element 0 of a row of self.%s - which has as many elements as the array has particles - is read (%s, line(s) %s) where the array may be empty: '
                                          'for an empty particle array (an inlet before its first particles, an array all of whose particles were removed) this reads - and with the value read '
                                          'writes - outside the table' % (attr, compact(unguarded[0]) if unguarded else '', sorted(set(x.lineno for x in unguarded))),
                               detail_ok='read only where the particle count is known to be positive')
    chk.floor('first-element reads of per-array tables', n, 6)


def rule_field_widths(chk):
    """CellIndexingNNPS packs (particle id, cell x, cell y, cell z) into one integer; the number of bits of a field is 1 + log2(extent of the field).  log2 of 0 is -inf and
    its conversion to an unsigned width undefined (in practice 0 bits: the field then aliases its neighbour and one cell is found under two keys - duplicates): the argument of
    every log2 that sizes a field must be at least 1 by construction (fmax(1, .) / max(1, .)), since a point set may have no extent along an axis and an array no particle"""
    rel = 'pysph/base/cell_indexing_nnps.pyx'
    n = 0
    for cls in M.classes(M.cy(rel)):
        for mname, fn in sorted(M.methods(cls).items()):
            defs = N.local_defs(fn.body)
            for a in ast.walk(fn):
                if not (isinstance(a, ast.Assign) and isinstance(a.targets[0], (ast.Attribute, ast.Subscript)) and compact(a.targets[0]).startswith('self.')):
                    continue
                for c in M.calls(a.value):
                    if (M.call_name(c) or '').split('.')[-1] != 'log2' or not c.args:
                        continue
                    arg = N.inline(c.args[0], defs)
                    ok = False
                    if isinstance(arg, ast.Call) and (M.call_name(arg) or '').split('.')[-1] in ('fmax', 'max') and len(arg.args) == 2:
                        ok = any(isinstance(x, ast.Constant) and isinstance(x.value, (int, float)) and x.value >= 1 for x in arg.args)
                    if isinstance(arg, ast.Constant) and isinstance(arg.value, (int, float)) and arg.value >= 1:
                        ok = True
                    # the width is 1 + floor(log2(X)) (the conversion to an unsigned truncates): enough bits for every value 0..X.  X itself must fit: the 27-cell stencil also builds
                    # keys for cell index X (one past the last cell); ceil(log2(X)) is a bit short for X = 1, 2 and every power of two
                    v_ = a.value
                    while isinstance(v_, ast.Call) and compact(v_.func) in ('__cast__', 'cast') and v_.args:
                        v_ = v_.args[-1]
                    shape = isinstance(v_, ast.BinOp) and isinstance(v_.op, ast.Add) and \
                        ((isinstance(v_.left, ast.Constant) and v_.left.value == 1 and v_.right is c) or (isinstance(v_.right, ast.Constant) and v_.right.value == 1 and v_.left is c))
                    n += 1
                    chk.decide(shape, 'key-fields-hold-their-values', '%s.%s:%s:one-more-than-floor-log2' % (cls.name, mname, compact(a.targets[0])), node=a, file=rel, func='%s.%s' % (cls.name, mname),
                               detail_bad='%s = %s: the number of bits is not 1 + floor(log2(X)); with ceil(log2(X)) a range of X = 1 or 2 cells gets 0 or 1 bits although the neighbour stencil '
                                          'also builds keys for cell index X, which then aliases a cell that is itself in the stencil: duplicates' % (compact(a.targets[0]), compact(a.value)),
                               detail_ok='1 + floor(log2(X)) bits')
                    n += 1
                    chk.decide(ok, 'key-fields-hold-their-values', '%s.%s:%s' % (cls.name, mname, compact(a.targets[0])), node=a, file=rel, func='%s.%s' % (cls.name, mname),
                               detail_bad='%s = ... log2(%s) ...: the argument is 0 for a point set without extent along that axis (all particles in one plane or on one line) or for an '
                                          'empty array; the width then comes out as 0 bits, the field aliases the next one and a neighbouring cell is found twice: duplicate neighbours'
                                          % (compact(a.targets[0]), compact(c.args[0])),
                               detail_ok='argument of log2 bounded below by 1')
    chk.floor('bit-field widths computed with log2', n, 3)


def rule_cell_counts(chk):
    """the grid has at least one cell along every direction, whatever the extent of the particles: the flattened-index validity test rejects every cell of a direction
    with a count of 0 (all particles in a plane / on a line of a direction the problem does use), so every query would come back empty.  Per path through
    LinkedListNNPS._get_number_of_cells (inherited by BoxSortNNPS): each count stored is a constant >= 1 or a value the path has found to be neither negative nor zero"""
    from verif_static import paths as PT
    rel = 'pysph/base/linked_list_nnps.pyx'
    t = M.cy(rel)
    fn = M.find_func(M.find_class(t, 'LinkedListNNPS'), '_get_number_of_cells')
    bad, n = None, 0
    for p_ in PT.enumerate_paths(M.docstring_stripped(fn.body)):
        if p_[-1].kind == 'raise':
            continue
        facts = PT.path_facts(p_)
        sto = [(tg, v) for i, tg, v in PT.stores_on(p_) if tg.startswith('self.ncells_per_dim.data[')]
        if len(sto) < 3:
            bad = bad or 'a path stores %d of the three counts' % len(sto)
        for tg, v in sto:
            n += 1
            if isinstance(v, ast.Constant) and isinstance(v.value, int) and v.value >= 1:
                continue
            vt = compact(v)
            nonzero = any((not tr_ and isinstance(x, ast.Compare) and len(x.ops) == 1 and isinstance(x.ops[0], ast.Eq) and compact(x.left) == vt and compact(x.comparators[0]) == '0') or
                          (tr_ and isinstance(x, ast.Compare) and len(x.ops) == 1 and ((isinstance(x.ops[0], ast.Gt) and compact(x.left) == vt and compact(x.comparators[0]) == '0') or
                                                                                      (isinstance(x.ops[0], ast.GtE) and compact(x.left) == vt and compact(x.comparators[0]) == '1') or
                                                                                      (isinstance(x.ops[0], ast.NotEq) and compact(x.left) == vt and compact(x.comparators[0]) == '0')))
                          for x, tr_ in facts)
            nonneg = any(not tr_ and isinstance(x, ast.Compare) and len(x.ops) == 1 and isinstance(x.ops[0], ast.Lt) and compact(x.left) == vt and compact(x.comparators[0]) == '0' for x, tr_ in facts)
            if not (nonzero and nonneg):
                bad = bad or '%s = %s can be %s on a path (tests passed: %s)' % (tg, U(v)[:60], 'zero' if not nonzero else 'negative', ', '.join('%s is %s' % (compact(x)[:40], tr_) for x, tr_ in facts)[:200])
    chk.decide(bad is None and n >= 3, 'cell-size-covers-every-array', 'LinkedListNNPS:at-least-one-cell-per-direction', node=fn, file=rel, func='LinkedListNNPS._get_number_of_cells',
               detail_bad='%s: with no extent along a direction the count is 0 and every cell index is rejected as invalid - all queries return nothing' % bad,
               detail_ok='%d stores over all paths: a constant >= 1 or a value tested non-negative and non-zero' % n)


def rule_cell_size_model(chk, rule='cell-size-covers-every-array'):
    """CPUDomainManager._compute_cell_size_for_binning interpreted (E8, lowered Cython) on model array wrappers whose cached h extrema are stale until refreshed: the cell
    size is radius_scale * (largest h over ALL arrays) - 1.0 when that vanishes -, it is stored and handed to set_cell_size, and hmin is radius_scale * (smallest h)"""
    import itertools
    from verif_static import emit as EM, absint as AI
    t = M.cy(NB)
    fn = M.find_func(M.find_class(t, 'CPUDomainManager'), '_compute_cell_size_for_binning')

    def wrapper(hmax, hmin, stale_np=4, live=4):
        col = EM.mock(maximum=1e-9, minimum=77.0)         # stale: a tiny maximum and a huge minimum, so an unrefreshed read shows as too small a cell / too large an hmin

        def refresh(i, a, k, n, e):
            col.attrs['maximum'], col.attrs['minimum'] = hmax, hmin
            return None
        col.attrs['update_min_max'] = refresh
        cnt = lambda i, a, k, n, e: live          # noqa: E731
        # `np` is the count captured when the wrapper was made (stale), the methods ask the array
        return EM.mock(h=col, np=stale_np, get_number_of_particles=cnt, pa=EM.mock(get_number_of_particles=cnt, num_real_particles=live))
    SETS = [c for r in (1, 2, 3) for c in itertools.permutations(((0.2, 0.1), (0.7, 0.5), (0.4, 0.05)), r)] + [((0.0, 0.0),), ((0.0, 0.0), (1e-8, 0.0)), (),
                                                                                                              # one array with a vanishing h next to an ordinary one
                                                                                                              ((0.0, 0.0), (0.2, 0.1)), ((0.2, 0.1), (0.0, 0.0)),
                                                                                                              # an array that was empty when its wrapper was made and holds the largest h now
                                                                                                              ((0.2, 0.1), (0.9, 0.6, 0, 5)), ((0.9, 0.6, 0, 5), (0.2, 0.1))]
    bad, und = None, None
    RS = 2.0
    for hs in SETS:
        it = EM.interpreter()
        EM.model_module(it, '<nb>', t)
        sets_ = []
        dm = EM.instance(it, '<nb>', 'CPUDomainManager', pa_wrappers=[wrapper(*x) for x in hs], radius_scale=RS, dtype_max=1e300, cell_size=None, hmin=None,
                         set_cell_size=lambda i, a, k, n, e: sets_.append(a[0] if a else k.get('cell_size')), in_parallel=False)
        try:
            EM.call(it, dm, '_compute_cell_size_for_binning')
        except (AI.Unsupported, AI.Raised) as ex:
            und = '%d arrays: %s' % (len(hs), ex)
            break
        hmax = max([-1.0] + [x[0] for x in hs])
        want = RS * hmax if RS * hmax >= 1e-6 else 1.0
        want_min = RS * min([1e300] + [x[1] for x in hs])
        got, gmin = dm.attrs.get('cell_size'), dm.attrs.get('hmin')
        try:
            okc = abs(float(got) - want) <= 1e-12 * max(1.0, want) and sets_ and abs(float(sets_[-1]) - want) <= 1e-12 * max(1.0, want)
            okm = abs(float(gmin) - want_min) <= 1e-12 * max(1.0, abs(want_min))
        except Exception:
            okc = okm = False
        if not (okc and okm) and bad is None:
            bad = (list(hs), got, sets_, gmin, want, want_min)
    if und:
        chk.undecided(rule, '_compute_cell_size_for_binning:model-run', node=fn, file=NB, func='CPUDomainManager._compute_cell_size_for_binning', detail='not interpretable on the model: ' + und)
    else:
        chk.decide(bad is None, rule, '_compute_cell_size_for_binning:model-run', node=fn, file=NB, func='CPUDomainManager._compute_cell_size_for_binning',
                   detail_bad='for arrays with (largest h, smallest h) = %s and radius_scale 2 the cell size stored is %s (set_cell_size got %s), hmin %s; expected %s and %s: a cell smaller than '
                              'radius_scale*max(h) makes the 3x3x3 stencil (and the ghost layers) too thin' % (bad or ('', '', '', '', '', '')),
                   detail_ok='%d selections / orders of model arrays with stale cached extrema' % len(SETS))
    return len(SETS)


def rule_cell_size(chk):
    """every array contributes to the cell size on every update (3x3x3 stencil sufficiency)"""
    t = M.cy(NB)
    dm = M.find_class(t, 'CPUDomainManager')
    fn = M.find_func(dm, '_compute_cell_size_for_binning')
    chk.floor('model runs of _compute_cell_size_for_binning', rule_cell_size_model(chk), 15)
    up = M.find_func(dm, 'update')
    g = C.build_cfg(up)
    first = [n.id for n in g.nodes if n.ast is not None and isinstance(n.ast, ast.Expr) and M.call_name(n.ast.value) == 'self._compute_cell_size_for_binning']
    chk.decide(bool(first) and g.must_pass(g.entry, g.exit, first), 'cell-size-covers-every-array', 'recomputed-on-every-domain-update', node=up, file=NB,
               func='CPUDomainManager.update', detail_bad='cell size is not recomputed on every domain update', detail_ok='first statement of update()')
    nn = M.find_class(t, 'NNPS')
    u2 = M.find_func(nn, 'update')
    ld2 = N.local_defs([u2])
    cs_vals = [compact(N.inline(a_.value, ld2)) for a_ in ast.walk(u2) if isinstance(a_, ast.Assign) and compact(a_.targets[0]) == 'self.cell_size']
    chk.decide(bool(cs_vals) and all(v_ == 'self.domain.manager.cell_size' for v_ in cs_vals), 'cell-size-covers-every-array', 'nnps-uses-domain-cell-size', node=u2, file=NB, func='NNPS.update',
               detail_bad='NNPS.update does not take the cell size computed by the domain manager', detail_ok='self.cell_size = domain.manager.cell_size')
    w = M.find_class(t, 'NNPSParticleArrayWrapper')
    gp = M.find_func(w, 'get_number_of_particles')
    rets = [r for r in ast.walk(gp) if isinstance(r, ast.Return)]
    live = bool(rets) and all(isinstance(r.value, ast.Call) and M.call_name(r.value).endswith('.get_number_of_particles') for r in rets)
    chk.decide(live, 'cell-size-covers-every-array', 'wrapper-count-is-live', node=gp, file=NB,
               func='NNPSParticleArrayWrapper.get_number_of_particles', detail_bad='wrapper returns a cached particle count', detail_ok='asks the particle array')


def main(chk):
    chk.explanation = ('Necessary conditions shared by the 12 CPU NNPS classes (enumerated as subclasses of NNPS in the Cython sources): the '
                       'acceptance test is symbolically resolved (backward substitution + polynomial normal form) to d2 < (k h_dst)^2 or d2 < (k h_src)^2 '
                       'on the candidate actually appended; set_context binds source-side structures from src_index and destination-side ones from '
                       'dst_index and no destination-table value indexes a source table; update() re-bins everything, invalidates all caches, and '
                       're-establishes the context (stale-pointer and first-use rules); outputs are reset before a query; the explicit cell '
                       'stencils span enough cells for the cell edge used.')
    ci, concrete = load_classes()
    chk.unit('NNPS classes', [c.name for r, c in concrete])
    chk.floor('concrete NNPS classes', len(concrete), 12)
    rule_acceptance(chk, ci, concrete)
    rule_context(chk, ci, concrete)
    rule_own_cell_miss(chk, ci, concrete)
    rule_update(chk, ci, concrete)
    rule_duplicates(chk)
    rule_stencil(chk, ci, concrete)
    rule_coindexed(chk)
    rule_cell_size(chk)
    rule_cell_counts(chk)
    rule_sized_by_count(chk)
    rule_index_spaces(chk)
    rule_first_element(chk)
    rule_field_widths(chk)
    rule_level_stencil(chk)
    rule_no_pruning(chk, ci, concrete)
    rule_octree(chk)
    rule_subcell_radius(chk)
    rule_bounds(chk)
    rule_bins_all(chk)
    rule_distinct_containers(chk)
    rule_tables_emptied(chk)
    rule_valid_cell(chk)
    rule_level_cell_size(chk)
    rule_narrowing(chk)
    rule_query_array_index(chk)
    rule_every_level_searched(chk)
    rule_sorted_on_every_refill(chk)
    rule_refresh_unconditional(chk)
    rule_cxx_headers(chk)
    # only valid indices, no duplicates: a sort of the result must touch exactly the slice this query appended (rule shared with C05)
    import importlib.util
    spec = importlib.util.spec_from_file_location('c05mod', os.path.join(os.path.dirname(os.path.abspath(__file__)), 'c05.py'))
    c05 = importlib.util.module_from_spec(spec)
    spec.loader.exec_module(c05)
    ci5, classes5 = c05.nnps_classes()
    c05.rule_sorting(chk, ci5, classes5, [c.name for r, c in concrete if c.name != 'DictBoxSortNNPS'])
    chk.assume('geometric exactness of binning/hashing/tree construction for all inputs (floor/ceil on runtime coordinates, collisions) is not decided')


if __name__ == '__main__':
    run_check('C01', main)
