"""What a Python code generator of the repository *emits* for a small model input.

Helpers such as CythonGroup._get_code or IntegratorCythonHelper.get_stepper_method_wrapper build source text with
str.format / % / join.  Rules about the emitted text used to match fragments of the helper's own source, which breaks on any
respelling (f-strings, renamed locals).  Instead the helper is interpreted from its syntax tree (absint.Interp - exact on
strings and containers, nothing imported from the repository) on a *model* object whose attributes are chosen by the rule
(two equations with known hook signatures, a context with one vector, ...), and the rule inspects the text that comes out.
"""
import ast
import textwrap

from . import absint as A, eqindex as EI, model as M
from .core import AnalysisError


class Mock(A.Obj):
    pass


def mock(**attrs):
    if '__class__' not in attrs:
        cn = attrs.get('name') if isinstance(attrs.get('name'), str) else 'Model'
        attrs['__class__'] = A.Obj('mock', __name__=cn, __qualname__=cn, __module__='model', __class__=None)
    return A.Obj('mock', **attrs)


def func(text, rel='<model>'):
    """FuncRef for a function given as source text (hook signatures of model equations)"""
    node = ast.parse(textwrap.dedent(text).strip()).body[0]
    f = A.FuncRef(rel, node)
    f.source_lines = text.strip('\n').splitlines(True)
    return f


def _getfullargspec(interp, args, kwargs, node, env):
    f = args[0]
    if isinstance(f, A.FuncRef):
        names = [a.arg for a in f.node.args.args]
        return mock(args=names, varargs=None, varkw=None, defaults=None)
    raise A.Unsupported('getfullargspec of %s' % A.key_of(f))


def _dedent(interp, args, kwargs, node, env):
    import textwrap
    return textwrap.dedent(args[0]) if isinstance(args[0], str) else A.Opaque('dedent')


def _getsourcelines(interp, args, kwargs, node, env):
    f = args[0]
    if isinstance(f, A.FuncRef) and getattr(f, 'source_lines', None):
        return (list(f.source_lines), 1)
    raise A.Unsupported('getsourcelines of %s' % A.key_of(f))


def _get_func_definition(interp, args, kwargs, node, env):
    """model of compyle's helper: (definition line(s) up to the one ending in ':', the remaining lines)"""
    lines = args[0]
    if not isinstance(lines, list) or not all(isinstance(l, str) for l in lines):
        raise A.Unsupported('get_func_definition of non-literal lines')
    for i, l in enumerate(lines):
        if l.rstrip().endswith(':'):
            return (''.join(lines[:i + 1]), lines[i + 1:])
    raise A.Unsupported('no definition line')


A.EXTERNAL_CALLS['inspect.getsourcelines'] = _getsourcelines
A.EXTERNAL_CALLS['compyle.api.get_func_definition'] = _get_func_definition
A.EXTERNAL_CALLS['compyle.cython_generator.get_func_definition'] = _get_func_definition
A.EXTERNAL_CALLS['inspect.getfullargspec'] = _getfullargspec
A.EXTERNAL_CALLS['inspect.getargspec'] = _getfullargspec
A.EXTERNAL_CALLS['textwrap.dedent'] = _dedent


def interpreter(ci=None):
    return A.Interp(ci or EI.index(), A.Config([]))


def instance(it, rel, clsname, **attrs):
    """a model instance of a repository class: methods resolve through the class, attributes are the given ones"""
    t = it.module_tree(rel)[0]
    if t is None:
        raise AnalysisError('cannot load %s' % rel)
    cls = M.find_class(t, clsname)
    return A.Obj('scheme', __class__=A.ClassRef(rel, cls), **attrs)


def call(it, obj, method, *args, **kwargs):
    f = it.find_method(obj.attrs['__class__'], method)
    if f is None:
        raise AnalysisError('method %s vanished' % method)
    try:
        return it.call_function(A.FuncRef(f[0], f[2], self_obj=obj, cls=f[1]), list(args), dict(kwargs), f[2])
    except A.Raised as e:
        u_ = A.Unsupported('model run of %s raised %s' % (method, e.what))
        u_.raised = e           # the interpreted code's own exception (with its evaluated arguments, when known)
        raise u_


def call_function(it, rel, name, *args, **kwargs):
    f = it.lookup_global(rel, name)
    if not isinstance(f, A.FuncRef):
        raise AnalysisError('function %s vanished from %s' % (name, rel))
    return it.call_function(f, list(args), dict(kwargs), f.node)


def model_module(it, rel, src):
    """register a model module (source text or an already lowered tree) under the name rel; classes in it can be instantiated with
    instance() and their methods are interpreted like repository code"""
    tree = ast.parse(src) if isinstance(src, str) else src
    it.mods[rel] = (tree, {})
    return tree


class DDict(dict):
    """collections.defaultdict on the interpreter's values"""
    def __init__(self, interp, factory, node, env):
        dict.__init__(self)
        self._interp, self._factory, self._node, self._env = interp, factory, node, env

    def __missing__(self, k):
        if self._factory is None:
            raise KeyError(k)
        v = self._interp.call(self._factory, [], {}, self._node, self._env)
        self[k] = v
        return v


def _defaultdict(interp, args, kwargs, node, env):
    return DDict(interp, args[0] if args else None, node, env)


def _ordereddict(interp, args, kwargs, node, env):
    d = {}
    if args:
        d.update(args[0] if isinstance(args[0], dict) else dict(args[0]))
    return d                                    # insertion ordered, like the real one


A.EXTERNAL_CALLS['collections.defaultdict'] = _defaultdict
A.EXTERNAL_CALLS['collections.OrderedDict'] = _ordereddict


def _ordereddict_fromkeys(interp, args, kwargs, node, env):
    val = args[1] if len(args) > 1 else None
    return dict((interp.hashable(k), val) for k in interp.iterate(args[0], node))      # one value object shared by all keys, as in Python


A.EXTERNAL_CALLS['collections.OrderedDict.fromkeys'] = _ordereddict_fromkeys


def _groupby(interp, args, kwargs, node, env):
    """itertools.groupby(iterable, key): runs of *consecutive* elements with equal keys, as (key, list) pairs"""
    items = list(interp.iterate(args[0], node))
    keyf = kwargs.get('key', args[1] if len(args) > 1 else None)
    out = []
    for it_ in items:
        k = it_ if keyf is None else (interp.call_function(keyf, [it_], {}, node) if isinstance(keyf, A.FuncRef) else keyf(interp, [it_], {}, node, env))
        if out and out[-1][0] == k:
            out[-1][1].append(it_)
        else:
            out.append((k, [it_]))
    return [(k, list(v)) for k, v in out]


A.EXTERNAL_CALLS['itertools.groupby'] = _groupby


def _re_sub(interp, args, kwargs, node, env):
    import re
    if all(isinstance(a, str) for a in args[:3]):
        return re.sub(args[0], args[1], args[2])
    return A.Opaque('re.sub')


A.EXTERNAL_CALLS['re.sub'] = _re_sub


def _vars(interp, args, kwargs, node, env):
    o = args[0]
    if isinstance(o, A.Obj) and o.kind == 'mock':
        return dict((k, v) for k, v in o.attrs.items() if not (k.startswith('__') and k.endswith('__')))
    raise A.Unsupported('vars() of %s' % A.key_of(o))


def _callable(interp, args, kwargs, node, env):
    return isinstance(args[0], (A.FuncRef, A.ClassRef)) or callable(args[0])


A.BUILTINS.setdefault('vars', _vars)
A.BUILTINS.setdefault('callable', _callable)


def precomputed_table(rel='pysph/sph/equation.py'):
    """{symbol: (code text, {context name: value as a syntax node}, node)} of the precomputed pair symbols, obtained by interpreting precomputed_symbols() (the code of a
    block may be a literal, a dedent() of one, or put together by helper functions / format / join - all the same here)"""
    it = interpreter()
    res = call_function(it, rel, 'precomputed_symbols')
    at = res.attrs if isinstance(res, (A.Inst, A.Obj)) else res
    if not isinstance(at, dict):
        raise AnalysisError('precomputed_symbols() does not return a table: %r' % (res,))
    tab = {}
    for key, blk in at.items():
        if not isinstance(blk, A.Inst) or blk.cls.node.name != 'BasicCodeBlock':
            continue
        kw = dict(blk.kwargs)
        code = kw.pop('code', blk.args[0] if blk.args else None)
        if not isinstance(code, str):
            raise AnalysisError('code of precomputed symbol %s is not a string: %r' % (key, code))
        ctx = {}
        for k, v in kw.items():
            try:
                ctx[k] = ast.parse(repr(v), mode='eval').body
            except SyntaxError:
                ctx[k] = ast.Constant(value=None)
        tab[key] = (code, ctx, blk.node)
    return tab
