"""Triage demo for the three C15 defects repaired in /repo (e6d08b8, 25bae6c, f2d030c).

  /venv/bin/python triage/c15_zero_iterations.py [path to riemann_solver.py]     (default: /repo's current file)

Pure Python, nothing compiled.  On the pre-fix file (git -C /repo show 4903da6:pysph/sph/gas_dynamics/riemann_solver.py)
it prints: exact niter=0 -> 0 with pstar 0.0 (success with a non-positive star pressure); exact niter=1 -> TypeError
from printf; van_leer source has no assignment of `converged` ahead of the loop.
"""
import importlib.util, sys, ast
path = sys.argv[1] if len(sys.argv) > 1 else '/repo/pysph/sph/gas_dynamics/riemann_solver.py'
spec = importlib.util.spec_from_file_location('rs', path)
rs = importlib.util.module_from_spec(spec)
spec.loader.exec_module(rs)
bad = 0
res = [9.0, 9.0]
rc = rs.exact(1.0, 1.0, 1.0, 1.0, 0.0, 0.0, 1.4, 0, 1e-6, res)
print('exact niter=0 -> rc', rc, 'result', res)
if rc == 0 and not res[0] > 0:
    print('  DEFECT: success reported with a non-positive star pressure')
    bad += 1
try:
    rc = rs.exact(1.0, 1.0, 1.0, 1.0, 0.0, 0.0, 1.4, 1, 1e-6, res)
    print('exact niter=1 -> rc', rc)
except TypeError as e:
    print('exact niter=1 -> raises', repr(e))
    print('  DEFECT: the failure path raises instead of returning 1')
    bad += 1
fn = [f for f in ast.parse(open(path).read()).body if isinstance(f, ast.FunctionDef) and f.name == 'van_leer'][0]
loop = [s for s in fn.body if isinstance(s, ast.While)][0]
pre = [s for s in fn.body if s.lineno < loop.lineno and isinstance(s, ast.Assign) and ast.unparse(s.targets[0]) == 'converged']
print('van_leer: converged assigned before the loop:', bool(pre))
if not pre:
    print('  DEFECT: with niter <= 0 `if converged` reads an unassigned local')
    bad += 1
sys.exit(1 if bad else 0)
