"""E0 - program model: loaders, symbol index, class hierarchy, small AST helpers."""
import ast
import glob
import hashlib
import os
import textwrap

from .core import AnalysisError, REPO

_py_cache = {}
_cy_cache = {}


_SHARED = (ast.expr_context, ast.operator, ast.cmpop, ast.boolop, ast.unaryop)


def set_parents(tree):
    # ctx / operator nodes are singletons shared by every tree CPython parses: never hang a parent on them
    for n in ast.walk(tree):
        for ch in ast.iter_child_nodes(n):
            if not isinstance(ch, _SHARED):
                ch.parent = n
    return tree


def read(rel, repo=None):
    p = os.path.join(repo or REPO, rel)
    if not os.path.exists(p):
        raise AnalysisError('anchor file vanished: %s' % rel)
    with open(p, encoding='utf-8', errors='replace') as f:
        return f.read()


def py(rel, repo=None):
    key = (repo or REPO, rel)
    if key not in _py_cache:
        src = read(rel, repo)
        try:
            t = ast.parse(src, filename=rel)
        except SyntaxError as e:
            raise AnalysisError('cannot parse %s: %s' % (rel, e))
        t.rel = rel
        set_parents(t)
        _py_cache[key] = t
    return _py_cache[key]


def cy(rel, repo=None):
    key = (repo or REPO, rel)
    if key not in _cy_cache:
        from . import cy2ast
        if not os.path.exists(os.path.join(repo or REPO, rel)):
            raise AnalysisError('anchor file vanished: %s' % rel)
        try:
            t = cy2ast.cy_to_ast(repo or REPO, rel)
        except cy2ast.FrontEndError as e:
            raise AnalysisError('cython front end: %s' % e)
        t.rel = rel
        _cy_cache[key] = t
    return _cy_cache[key]


def load(rel, repo=None):
    if rel.endswith('.py'):
        return py(rel, repo)
    return cy(rel, repo)


def pyfiles(subdir, repo=None, exclude_tests=True):
    root = repo or REPO
    out = []
    for p in sorted(glob.glob(os.path.join(root, subdir, '**', '*.py'), recursive=True)):
        rel = os.path.relpath(p, root)
        if exclude_tests and ('/tests/' in rel or rel.endswith('/tests')):
            continue
        out.append(rel)
    return out


def digest(rels, repo=None):
    h = hashlib.sha256()
    for r in rels:
        h.update(read(r, repo).encode('utf-8', 'replace'))
    return h.hexdigest()[:16]


# ---------------------------------------------------------------------------
# lookup (anchors): vanishing => AnalysisError, never silent
# ---------------------------------------------------------------------------

def classes(tree):
    return [n for n in tree.body if isinstance(n, ast.ClassDef)]


def find_class(tree, name, required=True):
    for n in ast.walk(tree):
        if isinstance(n, ast.ClassDef) and n.name == name:
            return n
    if required:
        raise AnalysisError('anchor class vanished: %s in %s' % (name, getattr(tree, 'rel', '?')))
    return None


def methods(cls):
    return dict((n.name, n) for n in cls.body if isinstance(n, (ast.FunctionDef, ast.AsyncFunctionDef))
                and not getattr(n, 'cy_decl_only', False))


def find_func(scope, name, required=True):
    """Function ``name`` directly in module or class ``scope``."""
    for n in scope.body:
        if isinstance(n, (ast.FunctionDef, ast.AsyncFunctionDef)) and n.name == name:
            return n
    if required:
        raise AnalysisError('anchor function vanished: %s in %s' % (
            name, getattr(scope, 'name', getattr(scope, 'rel', '?'))))
    return None


def find_method(tree, cname, mname, required=True):
    c = find_class(tree, cname, required)
    if c is None:
        return None
    return find_func(c, mname, required)


def arg_names(fn):
    a = fn.args
    return [x.arg for x in a.posonlyargs + a.args + a.kwonlyargs]


def unparse(n):
    try:
        return ast.unparse(n)
    except Exception:
        return '<%s>' % type(n).__name__


def dotted(e):
    """'self.a.b' for Name/Attribute chains, else None."""
    parts = []
    while isinstance(e, ast.Attribute):
        parts.append(e.attr)
        e = e.value
    if isinstance(e, ast.Name):
        parts.append(e.id)
        return '.'.join(reversed(parts))
    return None


def call_name(c):
    """dotted name of the callee of a Call node (or None)."""
    if isinstance(c, ast.Call):
        return dotted(c.func)
    return None


def calls(node):
    return [n for n in ast.walk(node) if isinstance(n, ast.Call)]


def enclosing(node, kinds):
    p = getattr(node, 'parent', None)
    while p is not None:
        if isinstance(p, kinds):
            return p
        p = getattr(p, 'parent', None)
    return None


def enclosing_func(node):
    return enclosing(node, (ast.FunctionDef, ast.AsyncFunctionDef))


def qualname(node):
    names = []
    p = node
    while p is not None:
        if isinstance(p, (ast.FunctionDef, ast.AsyncFunctionDef, ast.ClassDef)):
            names.append(p.name)
        p = getattr(p, 'parent', None)
    return '.'.join(reversed(names))


def const_str(n):
    if isinstance(n, ast.Constant) and isinstance(n.value, str):
        return n.value
    return None


def str_consts(node):
    return [n.value for n in ast.walk(node) if isinstance(n, ast.Constant) and isinstance(n.value, str)]


def docstring_stripped(body):
    if body and isinstance(body[0], ast.Expr) and isinstance(body[0].value, ast.Constant) \
            and isinstance(body[0].value.value, str):
        return body[1:]
    return body


def parse_fragment(text, what='fragment'):
    try:
        t = ast.parse(textwrap.dedent(text))
    except SyntaxError as e:
        raise AnalysisError('cannot parse %s: %s' % (what, e))
    return set_parents(t)


# ---------------------------------------------------------------------------
# class index over many modules (by name, imports followed)
# ---------------------------------------------------------------------------

class ClassIndex(object):
    """All classes of a set of files; bases resolved by name through imports."""

    def __init__(self, rels, repo=None):
        self.repo = repo or REPO
        self.trees = {}
        self.by_mod = {}     # rel -> {name: ClassDef}
        self.by_name = {}    # name -> [(rel, ClassDef)]
        self.imports = {}    # rel -> {local name: (module dotted, orig name)}
        for rel in rels:
            t = load(rel, self.repo)
            self.trees[rel] = t
            d = {}
            for n in ast.walk(t):
                if isinstance(n, ast.ClassDef):
                    d.setdefault(n.name, n)
                    n.rel = rel
                    self.by_name.setdefault(n.name, []).append((rel, n))
            self.by_mod[rel] = d
            imp = {}
            for n in ast.walk(t):
                if isinstance(n, ast.ImportFrom) and n.module:
                    mod = n.module
                    if n.level:
                        base = os.path.dirname(rel).split('/')
                        base = base[:len(base) - (n.level - 1)] if n.level > 1 else base
                        mod = '.'.join(base + ([n.module] if n.module else []))
                    for a in n.names:
                        imp[a.asname or a.name] = (mod, a.name)
                elif isinstance(n, ast.Import):
                    for a in n.names:
                        imp[a.asname or a.name.split('.')[0]] = (a.name, None)
            self.imports[rel] = imp

    def mod_to_rel(self, mod):
        for ext in ('.py', '.pyx', '/__init__.py'):
            r = mod.replace('.', '/') + ext
            if r in self.trees:
                return r
        return None

    def resolve(self, rel, name, _depth=0):
        """Resolve class ``name`` as seen from module ``rel`` -> (rel, ClassDef) or None."""
        if _depth > 8:
            return None
        if '.' in name:
            head, _, tail = name.partition('.')
            imp = self.imports.get(rel, {}).get(head)
            if imp:
                r = self.mod_to_rel(imp[0] if imp[1] is None else imp[0] + '.' + imp[1]) or self.mod_to_rel(imp[0])
                if r:
                    return self.resolve(r, tail.split('.')[-1], _depth + 1)
            name = name.split('.')[-1]
        d = self.by_mod.get(rel, {})
        if name in d:
            return (rel, d[name])
        imp = self.imports.get(rel, {}).get(name)
        if imp and imp[1]:
            r = self.mod_to_rel(imp[0])
            if r:
                return self.resolve(r, imp[1], _depth + 1)
        # star imports
        t = self.trees.get(rel)
        if t is not None:
            for n in t.body:
                if isinstance(n, ast.ImportFrom) and any(a.name == '*' for a in n.names) and n.module:
                    r = self.mod_to_rel(n.module)
                    if r:
                        got = self.resolve(r, name, _depth + 1)
                        if got:
                            return got
        cands = self.by_name.get(name, [])
        if len(cands) == 1:
            return cands[0]
        return None

    def bases(self, rel, cls):
        out = []
        for b in cls.bases:
            nm = dotted(b)
            if nm is None:
                continue
            r = self.resolve(rel, nm)
            out.append((nm, r))
        return out

    def mro(self, rel, cls):
        """Linearised ancestors (C3 not needed: single inheritance dominates; DFS order)."""
        seen = []
        stack = [(rel, cls)]
        while stack:
            r, c = stack.pop(0)
            if any(c is x[1] for x in seen):
                continue
            seen.append((r, c))
            new = [b[1] for b in self.bases(r, c) if b[1] is not None]
            stack = new + stack
        return seen

    def base_names(self, rel, cls):
        """All ancestor names, including unresolved ones."""
        names = []
        for r, c in self.mro(rel, cls):
            for b in c.bases:
                nm = dotted(b)
                if nm:
                    names.append(nm.split('.')[-1])
        return names

    def is_subclass(self, rel, cls, basename):
        return cls.name == basename or basename in self.base_names(rel, cls)

    def subclasses(self, basename):
        out = []
        for rel, d in self.by_mod.items():
            for n in ast.walk(self.trees[rel]):
                if isinstance(n, ast.ClassDef) and n.name != basename and basename in self.base_names(rel, n):
                    out.append((rel, n))
        return out

    def lookup_method(self, rel, cls, mname):
        for r, c in self.mro(rel, cls):
            m = methods(c).get(mname)
            if m is not None:
                return r, c, m
        return None
