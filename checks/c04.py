"""C04 - the compiled integrator performs one_timestep as written (static rules, DESIGN.md C04)."""
import ast
import textwrap
import os
import re
import sys

sys.path.insert(0, os.path.dirname(os.path.dirname(os.path.abspath(__file__))))
from verif_static.core import run_check, AnalysisError, REPO  # noqa
from verif_static import emit as EM, absint as AI  # noqa
from verif_static import model as M, cfg as C, makotree as MT, cy2ast  # noqa

TPL = 'pysph/sph/integrator_cython.mako'
IH = 'pysph/sph/integrator_cython_helper.py'
INT = 'pysph/sph/integrator.py'
API = {'initialize', 'compute_accelerations', 'do_post_stage', 'update_domain'}


def U(n):
    return M.unparse(n)


def compact(n):
    return U(n).replace(' ', '')


def template_shape():
    tpl = MT.parse_template(TPL)
    top = tpl.fn('__template__')
    lines = MT.skeleton(top)
    src, table = MT.skeleton_source(lines)
    try:
        mod = cy2ast.cy_string_to_ast(REPO, src, TPL)
    except cy2ast.FrontEndError as e:
        raise AnalysisError('emitted shape of %s is not parseable Cython: %s' % (TPL, e))
    # give every node the template line number
    for n in ast.walk(mod):
        ln = getattr(n, 'lineno', None)
        if ln and 1 <= ln <= len(lines):
            n.lineno = lines[ln - 1].tline or 0
    return tpl, top, lines, table, mod


def ph_expr(table, node):
    """template expression behind a placeholder identifier (Name / Expr(Name) / attribute)"""
    for x in ast.walk(node):
        nm = x.id if isinstance(x, ast.Name) else x.attr if isinstance(x, ast.Attribute) else None
        if nm in table:
            return table[nm]
    return None


def rule_template(chk):
    tpl, top, lines, table, mod = template_shape()
    cls = M.find_class(mod, 'Integrator')
    meths = M.methods(cls)
    # times and step sizes are carried in double precision: nothing in the compiled integrator is declared with the C type float (single precision in Cython)
    sp = M.single_precision_declarations(mod)
    chk.decide(not sp, 'step-bookkeeping', 'times-in-double-precision', node=sp[0][2] if sp else cls, file=TPL, func='Integrator',
               detail_bad='%s declared `%s`: the C type float is single precision, the stage time t = orig_t + stage_dt is then rounded to 7 digits (callbacks, steppers and equations that '
                          'use t see a time that differs from the literal execution of one_timestep)' % (', '.join('`%s`' % n_ for n_, t_, x_ in sp), sp[0][1] if sp else ''),
               detail_ok='no single-precision declaration in the compiled integrator')
    # -- stage wrapper: the method whose name is a placeholder bound to the loop over wrapper names
    wrappers = [f for n, f in meths.items() if n in table]
    if len(wrappers) != 1:
        raise AnalysisError('stage wrapper def not found in template shape')
    w = wrappers[0]
    line, nameexpr = table[w.name]
    loops = [U(l.iter) for l in line.loops]
    chk.decide(any('helper.get_stepper_method_wrapper_names()' in x for x in loops), 'stage-wrapper', 'one-wrapper-per-method',
               node=w, file=TPL, func='stage wrapper',
               detail_bad='wrappers are not generated for every name of get_stepper_method_wrapper_names()', detail_ok=loops[0] if loops else '')
    mvar = U(nameexpr)
    # statements of the wrapper
    body = w.body
    assigns = dict((U(a.target), U(a.value)) for a in body if isinstance(a, ast.AnnAssign) and a.value is not None)
    chk.decide(assigns.get('dt') == 'self.dt' and assigns.get('t') == 'self.t', 'stage-wrapper', 'dt-and-t-from-integrator-state', node=w,
               file=TPL, func='stage wrapper', detail_bad='stage sees dt=%s, t=%s' % (assigns.get('dt'), assigns.get('t')),
               detail_ok='dt = self.dt, t = self.t')
    # the wrapper handles every destination in turn: nothing in it may leave early (a return / break on behalf of one destination skips the hooks and loops of all later ones)
    exits = [x for x in ast.walk(w) if isinstance(x, (ast.Return, ast.Break)) and x is not w.body[-1]]
    chk.decide(not exits, 'stage-wrapper', 'no-early-exit', node=exits[0] if exits else w, file=TPL, func='stage wrapper',
               detail_bad='the stage wrapper contains `%s`: it runs the stages of all destinations in sequence, so leaving it for one destination (e.g. an empty array) also skips every '
                          'destination that sorts after it' % (U(exits[0]) if exits else ''), detail_ok='straight through all destinations')
    # an exception raised by a Python hook the wrapper calls (py_stage / py_initialize of a stepper, a user callback) must reach the caller of step(): a `noexcept`
    # wrapper only prints it and carries on with the remaining stages on a half-updated state
    exc = getattr(w, 'cy_except', None)
    swallowed = [f_.name for f_ in meths.values() if getattr(f_, 'cy_except', None) is not None and f_.cy_except.get('value') is None and f_.cy_except.get('check') is False
                 and not getattr(f_, 'cy_nogil', False)]
    chk.decide(exc is not None and not swallowed, 'stage-wrapper', 'exceptions-propagate', node=w, file=TPL, func='stage wrapper',
               detail_bad='%s of the compiled Integrator %s declared noexcept: an exception raised in a Python hook called from there is printed and ignored, the step goes on' % (
                   ', '.join('the stage wrapper' if n_ == w.name else n_ for n_ in swallowed), 'is' if len(swallowed) == 1 else 'are'),
               detail_ok='no method of the compiled Integrator that runs Python code is declared noexcept')
    g = C.build_cfg(w)
    # destination binding
    dsts = [n for n in g.nodes if n.ast is not None and isinstance(n.ast, ast.Assign) and U(n.ast.targets[0]) == 'dst']
    ok = False
    if dsts:
        got = ph_expr(table, dsts[0].ast.value)
        if got is not None:
            l, e = got
            ok = U(e) == 'dest' and any(compact(x.iter) == 'sorted(helper.object.steppers.keys())' for x in l.loops)
            dest_line = l
    chk.decide(ok, 'stage-wrapper', 'every-destination-in-sorted-order', node=dsts[0].ast if dsts else w, file=TPL, func='stage wrapper',
               detail_bad='destinations are not bound as dst = self.<dest> for dest in sorted(steppers)', detail_ok='for dest in sorted(helper.object.steppers.keys())')
    # locate the pieces by the helper call behind each placeholder
    def nodes_calling(fname):
        out = []
        for n in g.nodes:
            if n.ast is None or not isinstance(n.ast, (ast.Expr, ast.For)):
                continue
            tgt = n.ast.value if isinstance(n.ast, ast.Expr) else n.ast.iter
            got = ph_expr(table, tgt)
            if got is not None and any(M.call_name(c) == 'helper.' + fname for c in M.calls(got[1])):
                out.append((n, got))
        return out
    py = nodes_calling('get_py_stage_code')
    setup = nodes_calling('get_array_setup')
    loop = nodes_calling('get_parallel_range')
    call = nodes_calling('get_stepper_loop')
    for nm, lst in (('get_py_stage_code', py), ('get_array_setup', setup), ('get_parallel_range', loop), ('get_stepper_loop', call)):
        if len(lst) != 1:
            chk.violated('stage-wrapper', 'emits:' + nm, node=w, file=TPL, func='stage wrapper',
                         detail='expected exactly one emission of helper.%s in the stage wrapper, found %d' % (nm, len(lst)))
            return
    pyn, (pyl, pye) = py[0]
    ln, (ll, le) = loop[0]
    cn, (cl, ce) = call[0]
    sn, (sl, se) = setup[0]
    # arguments are the wrapper's own dest/method
    for nm, e in (('get_py_stage_code', pye), ('get_array_setup', se), ('get_stepper_loop', ce)):
        c = [x for x in M.calls(e) if M.call_name(x) == 'helper.' + nm][0]
        chk.decide([U(a) for a in c.args] == ['dest', mvar], 'stage-wrapper', 'args:' + nm, node=c, file=TPL, func='stage wrapper',
                   detail_bad='helper.%s called with %s (expected (dest, %s))' % (nm, [U(a) for a in c.args], mvar), detail_ok='(dest, %s)' % mvar)
    # template-level conditions: the Python hook is emitted for every destination; only the compiled particle loop depends on the stepper having the method
    pyg = [compact(x) for x in pyl.guards]
    lg = [compact(x) for x in ll.guards]
    chk.decide(not pyg, 'stage-wrapper', 'py_stage-hook-unconditional', node=pyn.ast, file=TPL, func='stage wrapper',
               detail_bad='the py_stage hook is emitted only under %s: a stepper that implements a stage purely as py_<stage> (no compiled method) never has it called' % pyg,
               detail_ok='emitted for every destination (get_py_stage_code itself returns nothing when the stepper lacks the hook)')
    chk.decide(lg == ['helper.has_stepper_loop(dest,%s)' % mvar] and [compact(x) for x in cl.guards] == lg and [compact(x) for x in sl.guards] == lg, 'stage-wrapper',
               'particle-loop-only-when-method-exists', node=ln.ast, file=TPL, func='stage wrapper',
               detail_bad='array set-up / particle loop / stepper call are emitted under %s / %s / %s; expected exactly has_stepper_loop(dest, %s)' % (
                   [compact(x) for x in sl.guards], lg, [compact(x) for x in cl.guards], mvar), detail_ok='under has_stepper_loop(dest, %s)' % mvar)
    chk.decide(g.dominates(pyn.id, ln.id), 'stage-wrapper', 'py_stage-before-loop', node=pyn.ast, file=TPL, func='stage wrapper',
               detail_bad='the py_stage hook is not emitted before the particle loop', detail_ok='py_stage code dominates the loop')
    # loop is a For whose body contains the stepper call
    inside = isinstance(ln.ast, ast.For) and any(cn.ast is x for x in ast.walk(ln.ast))
    chk.decide(inside, 'stage-wrapper', 'stepper-call-inside-particle-loop', node=cn.ast, file=TPL, func='stage wrapper',
               detail_bad='the stepper call is not nested in the loop over d_idx', detail_ok='nested')
    tv = U(ln.ast.target) if isinstance(ln.ast, ast.For) else None
    chk.decide(tv == 'd_idx', 'stage-wrapper', 'loop-variable', node=ln.ast, file=TPL, func='stage wrapper',
               detail_bad='loop variable is %s' % tv, detail_ok='d_idx')
    rng = [x for x in M.calls(le) if M.call_name(x) == 'helper.get_parallel_range'][0]
    chk.decide([U(a) for a in rng.args] == ["'NP_DEST'"], 'stage-wrapper', 'loop-range', node=rng, file=TPL, func='stage wrapper',
               detail_bad='range is get_parallel_range(%s)' % ', '.join(U(a) for a in rng.args), detail_ok='0..NP_DEST')
    # NP_DEST = dst.size(real=True) reaches the loop
    nps = [n for n in g.nodes if n.ast is not None and isinstance(n.ast, ast.Assign) and U(n.ast.targets[0]) == 'NP_DEST']
    ok = len(nps) == 1 and compact(nps[0].ast.value) == 'dst.size(real=True)' and g.dominates(nps[0].id, ln.id) and \
        (not dsts or g.dominates(dsts[0].id, nps[0].id))
    chk.decide(ok, 'stage-wrapper', 'real-particles-only', node=nps[0].ast if nps else w, file=TPL, func='stage wrapper',
               detail_bad='loop bound is %s: ghosts/remote particles would be stepped (or real ones skipped)' % (
                   [U(n.ast.value) for n in nps]), detail_ok='NP_DEST = dst.size(real=True)')
    if nps:
        chk.decide(g.dominates(pyn.id, nps[0].id), 'stage-wrapper', 'particle-count-read-after-py_stage', node=nps[0].ast, file=TPL, func='stage wrapper',
                   detail_bad='the number of real particles is read before the py_stage hook runs: a hook that adds or removes particles (inlet/outlet) '
                              'leaves the loop with a stale bound', detail_ok='NP_DEST is read after the hook')
    chk.decide(g.dominates(sn.id, ln.id), 'stage-wrapper', 'pointers-before-loop', node=sn.ast, file=TPL, func='stage wrapper',
               detail_bad='array pointers are not set up before the loop', detail_ok='set up first')
    gd = [U(x) for x in cl.guards]
    chk.decide(gd == ['helper.has_stepper_loop(dest, %s)' % mvar], 'stage-wrapper', 'loop-guard', node=cn.ast, file=TPL, func='stage wrapper',
               detail_bad='loop emitted under %s' % gd, detail_ok=gd[0] if gd else '')
    # -- step / do_post_stage / one_timestep
    st = meths.get('step')
    dps = meths.get('do_post_stage')
    ots = meths.get('one_timestep')
    if not (st and dps and ots):
        raise AnalysisError('step/do_post_stage/one_timestep vanished from the template')
    # decided per path, with local aliases substituted (paths engine): what is stored where and what is called with what, not how it is spelled
    from verif_static import paths as PT, norm as N
    sp = PT.enumerate_paths(M.docstring_stripped(st.body))
    ok = len(sp) == 1
    why = '%d paths' % len(sp)
    if ok:
        p_ = sp[0]
        sto = dict((tg, (i, v)) for i, tg, v in PT.stores_on(p_))
        cl = [(i, c) for i, c, cal, env in PT.calls_on(p_) if cal == 'self.one_timestep']
        ok = len(cl) == 1 and all(k in sto for k in ('self.orig_t', 'self.t', 'self.dt')) and compact(sto['self.orig_t'][1]) == 't' and compact(sto['self.t'][1]) == 't' and \
            compact(sto['self.dt'][1]) == 'dt' and all(sto[k][0] < cl[0][0] for k in ('self.orig_t', 'self.t', 'self.dt')) and [compact(PT.resolve(a_, p_[cl[0][0]].env)) for a_ in cl[0][1].args] == ['t', 'dt']
        why = str(dict((k, U(v[1])) for k, v in sto.items()))
    chk.decide(ok, 'step-bookkeeping', 'step', node=st, file=TPL, func='Integrator.step',
               detail_bad='step does not store orig_t = t, t = t, dt = dt and then call one_timestep(t, dt): %s' % why, detail_ok='orig_t, t, dt stored first')
    dp = PT.enumerate_paths(M.docstring_stripped(dps.body))
    bad_t = bad_cb = bad_guard = None
    ncb = 0
    for p_ in dp:
        sto = [(i, v) for i, tg, v in PT.stores_on(p_) if tg == 'self.t']
        if len(sto) != 1 or not N.same(sto[0][1], 'self.orig_t + stage_dt'):
            bad_t = bad_t or [U(v) for i, v in sto]
        cbs = [(i, c, env) for i, c, cal, env in PT.calls_on(p_) if cal == 'self._post_stage_callback']
        is_set = any(e.kind == 'cond' and compact(PT.resolve(e.node, e.env)) in ('self._post_stage_callbackisnotNone',) and e.truth for e in p_) or \
            any(e.kind == 'cond' and compact(PT.resolve(e.node, e.env)) in ('self._post_stage_callbackisNone',) and not e.truth for e in p_)
        if is_set:
            ncb += 1
            if len(cbs) != 1 or not sto or cbs[0][0] < sto[0][0]:
                bad_cb = bad_cb or 'called %d times / before the time update' % len(cbs)
            else:
                i, c, env = cbs[0]
                args = [PT.resolve(a_, env) for a_ in c.args]
                if not (len(args) == 3 and (N.same(args[0], 'self.orig_t + stage_dt') or compact(args[0]) == 'self.t') and compact(args[1]) == 'self.dt' and compact(args[2]) == 'stage'):
                    bad_cb = bad_cb or 'called with (%s)' % ', '.join(U(a_) for a_ in args)
        elif cbs:
            bad_guard = 'the callback is called on a path on which it was not tested to be set'
    chk.decide(bad_t is None and bool(dp), 'step-bookkeeping', 'stage-time', node=dps, file=TPL, func='Integrator.do_post_stage',
               detail_bad='stage time is not orig_t + stage_dt on every path (self.t = %s)' % bad_t, detail_ok='self.t = self.orig_t + stage_dt')
    chk.decide(bad_cb is None and ncb >= 1, 'step-bookkeeping', 'callback-after-time-update', node=dps, file=TPL, func='Integrator.do_post_stage',
               detail_bad='post-stage callback is not invoked exactly once with (stage time, self.dt, stage) after the time update: %s' % bad_cb,
               detail_ok='callback(self.t, self.dt, stage) after self.t is set')
    chk.decide(bad_guard is None and not any(isinstance(x, (ast.For, ast.While)) for x in ast.walk(dps)), 'step-bookkeeping', 'callback-only-when-set', node=dps, file=TPL,
               func='Integrator.do_post_stage', detail_bad=bad_guard or 'callback guard/loop changed', detail_ok='once, only when set')
    got = ph_expr(table, ots.body[0]) if ots.body else None
    ok = got is not None and any(M.call_name(c) == 'helper.get_timestep_code' for c in M.calls(got[1])) and len(ots.body) == 1
    chk.decide(ok, 'timestep-pasted-verbatim', 'template', node=ots, file=TPL, func='Integrator.one_timestep',
               detail_bad='the body of one_timestep is not exactly helper.get_timestep_code()', detail_ok='body = get_timestep_code()')
    chk.decide(M.arg_names(ots) == ['self', 't', 'dt'] and M.arg_names(st) == ['self', 't', 'dt'], 'timestep-pasted-verbatim', 'signature', node=ots,
               file=TPL, func='Integrator.one_timestep', detail_bad='signature %s' % M.arg_names(ots), detail_ok='(self, t, dt)')
    rule_forwards(chk, cls)


def rule_forwards(chk, cls=None):
    """the compiled Integrator adds nothing of its own to compute_accelerations / update_domain: the request for a neighbour update reaches the Python integrator as given
    (shared with C05: a compiled-side "already up to date" flag makes the result depend on the neighbour algorithm, the cache and the re-ordering frequency)"""
    if cls is None:
        tpl, top, lines, table, mod = template_shape()
        cls = M.find_class(mod, 'Integrator')
    meths = M.methods(cls)
    # compiled API forwards to the Python integrator
    for nm, want in (('compute_accelerations', 'self.integrator.compute_accelerations(index, update_nnps)'),
                     ('update_domain', 'self.integrator.update_domain()')):
        f = meths.get(nm)
        ok = f is not None and len(f.body) == 1 and isinstance(f.body[0], ast.Expr) and U(f.body[0].value) == want
        chk.decide(ok, 'compiled-api-forwards', nm, node=f or cls, file=TPL, func='Integrator.' + nm,
                   detail_bad='%s does not forward as %s' % (nm, want), detail_ok=want)
    ca = meths.get('compute_accelerations')
    if ca is not None:
        dfl = dict(zip(M.arg_names(ca)[-len(ca.args.defaults):], [U(d) for d in ca.args.defaults]))
        chk.decide(dfl == {'index': '0', 'update_nnps': 'True'}, 'compiled-api-forwards', 'defaults', node=ca, file=TPL,
                   func='Integrator.compute_accelerations', detail_bad='defaults %s' % dfl, detail_ok='index=0, update_nnps=True')


def rule_helper(chk):
    ih = M.py(IH)
    cls = M.find_class(ih, 'IntegratorCythonHelper')
    # timestep code: source lines of one_timestep minus the def line, no edits
    tc = M.find_func(cls, 'get_timestep_code')
    MODEL = """
    def one_timestep(self, t, dt,
                     extra=None):
        self.initialize()
        for k in range(2):
            # a comment that must survive
            self.compute_accelerations(k)
        if dt > 0.0:
            self.stage1()
        self.update_domain()
"""
    try:
        it0 = EM.interpreter()
        kls = EM.mock(__name__='ModelIntegrator', __qualname__='ModelIntegrator', __module__='model')
        h0 = EM.instance(it0, IH, 'IntegratorCythonHelper', object=EM.mock(one_timestep=EM.func(MODEL), __class__=kls))
        text = EM.call(it0, h0, 'get_timestep_code')
        body = MODEL.strip('\n').splitlines(True)[2:]
        want = textwrap.dedent(''.join(body))
        try:
            ok = isinstance(text, str) and ast.dump(ast.parse(text)) == ast.dump(ast.parse(want))      # same statements; comments / blank lines carry no behaviour
        except SyntaxError:
            ok = False
        chk.decide(ok, 'timestep-pasted-verbatim', 'helper', node=tc, file=IH, func='get_timestep_code',
                   detail_bad='for a model one_timestep with a two-line signature the pasted body is %r; expected the unmodified, dedented source lines after the definition: %r'
                              % (text, want), detail_ok="model run: dedent(source lines after the definition), nothing edited")
        # a second integrator class of the same name, in the same process, must get its own schedule (nothing remembered between helpers)
        MODEL2 = MODEL.replace('self.stage1()', 'self.stage2()').replace('range(2)', 'range(3)')
        kls2 = EM.mock(__name__='ModelIntegrator', __qualname__='ModelIntegrator', __module__='model')
        h1 = EM.instance(it0, IH, 'IntegratorCythonHelper', object=EM.mock(one_timestep=EM.func(MODEL2), __class__=kls2))
        text2 = EM.call(it0, h1, 'get_timestep_code')
        want2 = textwrap.dedent(''.join(MODEL2.strip('\n').splitlines(True)[2:]))
        try:
            ok2 = isinstance(text2, str) and ast.dump(ast.parse(text2)) == ast.dump(ast.parse(want2))
        except SyntaxError:
            ok2 = False
        chk.decide(ok2, 'timestep-pasted-verbatim', 'helper-is-stateless', node=tc, file=IH, func='get_timestep_code',
                   detail_bad='a second integrator class (same class name, different one_timestep) handled after the first one gets %r: the pasted body must come from the '
                              'integrator at hand, not from anything remembered from an earlier one' % text2, detail_ok='second model integrator of the same name gets its own body')
    except (AI.Unsupported, AI.Raised) as e:
        chk.undecided('timestep-pasted-verbatim', 'helper', node=tc, file=IH, func='get_timestep_code', detail='generator not interpretable on the model integrator: %s' % e)
    # a stage method a stepper class *inherits* is compiled and must be looped over like one it defines: has_stepper_loop is asked on a helper built by its own
    # constructor (so that any table it precomputes exists) for a stepper whose class defines nothing itself while the instance has stage1 / initialize
    hl = M.find_func(cls, 'has_stepper_loop')
    try:
        it_h = EM.interpreter()
        base_m = EM.func("def stage1(self, d_idx, d_x, dt): pass")
        init_m = EM.func("def initialize(self, d_idx, d_x): pass")
        derived = EM.mock(__class__=EM.mock(__name__='DerivedStep'), stage1=base_m, initialize=init_m)        # class object with no methods of its own
        own = EM.mock(__class__=EM.mock(__name__='OwnStep', stage1=base_m), stage1=base_m)
        integ = EM.mock(steppers={'outlet': derived, 'fluid': own})
        aeh = EM.mock(object=EM.mock(particle_arrays=[EM.mock(name='outlet'), EM.mock(name='fluid')]))
        hh = EM.instance(it_h, IH, 'IntegratorCythonHelper')
        EM.call(it_h, hh, '__init__', integ, aeh)
        got = [(d_, m_, EM.call(it_h, hh, 'has_stepper_loop', d_, m_)) for d_ in ('outlet', 'fluid') for m_ in ('initialize', 'stage1', 'stage2')]
        want_h = [('outlet', 'initialize', True), ('outlet', 'stage1', True), ('outlet', 'stage2', False), ('fluid', 'initialize', False), ('fluid', 'stage1', True), ('fluid', 'stage2', False)]
        chk.decide([(a_, b_, bool(c_)) for a_, b_, c_ in got] == want_h, 'stage-wrapper', 'loop-for-inherited-stage-methods', node=hl, file=IH, func='has_stepper_loop',
                   detail_bad='for a stepper that inherits initialize / stage1 (class defines nothing itself) and one that defines stage1, has_stepper_loop answers %s; expected %s: '
                              'an inherited stage method would get a wrapper without a particle loop (a silent no-op for that array)' % (got, want_h),
                   detail_ok='a method the stepper has - defined or inherited - gets its loop')
    except (AI.Unsupported, AI.Raised) as e:
        chk.undecided('stage-wrapper', 'loop-for-inherited-stage-methods', node=hl, file=IH, func='has_stepper_loop', detail='not interpretable on the model: %s' % e)
    # what the generators emit for a generic integrator with two destinations whose steppers differ
    sl = M.find_func(cls, 'get_stepper_loop')
    it = EM.interpreter()
    sa = EM.mock(__class__=EM.mock(__name__='StepA'), initialize=EM.func("def initialize(self, d_idx, d_x, d_x0): pass"),
                 stage1=EM.func("def stage1(self, d_idx, d_x, d_u, dt): pass"), stage2=EM.func("def stage2(self, d_idx, d_x, d_u, d_au, dt): pass"),
                 py_stage1=EM.func("def py_stage1(self, dst, t, dt): pass"))
    sb = EM.mock(__class__=EM.mock(__name__='StepB'), stage1=EM.func("def stage1(self, d_idx, d_rho, d_arho, dt): pass"),
                 py_stage3=EM.func("def py_stage3(self, dst, t, dt): pass"))
    # a third destination stepped by another instance of the first class (same class, different parameters)
    sc = EM.mock(__class__=EM.mock(__name__='StepA'), initialize=sa.attrs['initialize'], stage1=sa.attrs['stage1'], stage2=sa.attrs['stage2'], py_stage1=sa.attrs['py_stage1'])
    steppers = {'fluid': sa, 'solid': sb, 'gas': sc}
    h = EM.instance(it, IH, 'IntegratorCythonHelper', object=EM.mock(steppers=steppers))
    try:
        got = dict(((d, m), EM.call(it, h, 'get_stepper_loop', d, m)) for d in ('fluid', 'solid') for m in ('initialize', 'stage1', 'stage2'))
        want = {('fluid', 'initialize'): 'self.fluid_stepper.initialize(d_idx, d_x, d_x0)', ('fluid', 'stage1'): 'self.fluid_stepper.stage1(d_idx, d_x, d_u, dt)',
                ('fluid', 'stage2'): 'self.fluid_stepper.stage2(d_idx, d_x, d_u, d_au, dt)', ('solid', 'stage1'): 'self.solid_stepper.stage1(d_idx, d_rho, d_arho, dt)'}
        bad = [(k, v) for k, v in got.items() if (want.get(k) or '') != v and k in want]
        chk.decide(not bad, 'stepper-call', 'own-arguments', node=sl, file=IH, func='get_stepper_loop',
                   detail_bad='for two model steppers the generator emits %s: the call must be self.<dest>_stepper.<method>(<that method\'s own parameters without self>)' % bad,
                   detail_ok='own argument list of the destination\'s own stepper')
        ga = M.find_func(cls, 'get_args')
        a1 = EM.call(it, h, 'get_args', 'solid', 'stage1')
        a2 = EM.call(it, h, 'get_args', 'solid', 'stage2')
        chk.decide(a1 == ['self', 'd_idx', 'd_rho', 'd_arho', 'dt'] and a2 == [], 'stepper-call', 'args-from-destinations-stepper', node=ga, file=IH, func='get_args',
                   detail_bad='get_args(solid, stage1 / stage2) = %s / %s: arguments must be read from the signature of steppers[dest].<method>, none when it lacks the method' % (a1, a2),
                   detail_ok='signature of steppers[dest].<method>; [] when absent')
        si = M.find_func(cls, 'get_stepper_init')
        ls = [l.strip() for l in EM.call(it, h, 'get_stepper_init').splitlines() if l.strip()]
        chk.decide(ls == ['self.fluid_stepper = StepA(**steppers["fluid"].__dict__)', 'self.solid_stepper = StepB(**steppers["solid"].__dict__)',
                          'self.gas_stepper = StepA(**steppers["gas"].__dict__)'], 'stepper-recreation', 'same-key',
                   node=si, file=IH, func='get_stepper_init', detail_bad='emits %s: each compiled stepper must be re-created from the __dict__ of the stepper of the same destination' % ls,
                   detail_ok='self.<dest>_stepper = Cls(**steppers["<dest>"].__dict__)')
        sd = M.find_func(cls, 'get_stepper_defs')
        ls = [l.strip() for l in EM.call(it, h, 'get_stepper_defs').splitlines() if l.strip()]
        chk.decide(ls == ['cdef public StepA fluid_stepper', 'cdef public StepB solid_stepper', 'cdef public StepA gas_stepper'], 'stepper-recreation', 'attribute-name', node=sd, file=IH,
                   func='get_stepper_defs', detail_bad='emits %s' % ls, detail_ok='cdef public <Cls> <dest>_stepper')
        py = M.find_func(cls, 'get_py_stage_code')
        got = [EM.call(it, h, 'get_py_stage_code', d, m) for d, m in (('fluid', 'stage1'), ('fluid', 'stage2'), ('solid', 'stage3'), ('solid', 'stage1'))]
        chk.decide(got == ['self.steppers["fluid"].py_stage1(dst.array, t, dt)', '', 'self.steppers["solid"].py_stage3(dst.array, t, dt)', ''], 'stepper-call', 'py_stage-hook',
                   node=py, file=IH, func='get_py_stage_code', detail_bad='emits %s: the hook is steppers[dest].py_<method>(dst.array, t, dt) exactly when that stepper defines it' % got,
                   detail_ok='py_<method>(dst.array, t, dt) when defined, nothing otherwise')
        wn = M.find_func(cls, 'get_stepper_method_wrapper_names')
        names = EM.call(it, h, 'get_stepper_method_wrapper_names')
        chk.decide(names == ['initialize', 'stage1', 'stage2', 'stage3'], 'stage-wrapper', 'names', node=wn, file=IH, func='get_stepper_method_wrapper_names',
                   detail_bad='for steppers with {initialize, stage1, stage2, py_stage1} and {stage1, py_stage3} the wrapped names are %s: expected every initialize / stageN / stageN of a py_stageN, '
                              'over all steppers, sorted' % names, detail_ok='initialize/stage*/py_stage* over all steppers')
        su = M.find_func(cls, 'get_array_setup')
        ls = [l.strip() for l in EM.call(it, h, 'get_array_setup', 'fluid', 'stage2').splitlines() if l.strip()]
        chk.decide(ls == ['d_au = dst.au.data', 'd_u = dst.u.data', 'd_x = dst.x.data'], 'stepper-call', 'pointers-from-destination', node=su, file=IH, func='get_array_setup',
                   detail_bad='emits %s: every d_* argument of the method must be bound to the destination array' % ls, detail_ok='X = dst.X.data for the method\'s own arrays')
    except (AI.Unsupported, AI.Raised) as e:
        chk.undecided('stepper-call', 'own-arguments', node=sl, file=IH, func='get_stepper_loop', detail='generator not interpretable: %s' % e)


def stage_calls(fn):
    """ordered list of compiled-API calls in a one_timestep body"""
    out = []
    g = C.build_cfg(fn)
    return g


def rule_integrators(chk):
    rels = M.pyfiles('pysph/sph')
    idx = M.ClassIndex(rels)
    found = []
    for rel, cls in idx.subclasses('Integrator') + [r for r in idx.by_name.get('Integrator', []) if r[0] == INT]:
        fn = M.methods(cls).get('one_timestep')
        if fn is not None:
            found.append((rel, cls, fn))
    chk.floor('one_timestep bodies', len(found), 15)
    for rel, cls, fn in sorted(found, key=lambda x: (x[0], x[1].name)):
        who = cls.name
        # 1. only the compiled API
        bad = []
        calls = []
        for c in M.calls(fn):
            nm = M.call_name(c)
            if nm and nm.startswith('self.'):
                m = nm[5:]
                if m in API or re.match(r'^stage\d+$', m):
                    calls.append((m, c))
                else:
                    bad.append(nm)
        for a in ast.walk(fn):
            if isinstance(a, ast.Attribute) and isinstance(a.value, ast.Name) and a.value.id == 'self' \
                    and not isinstance(getattr(a, 'parent', None), ast.Call) and a.attr not in ('t', 'dt'):
                bad.append('self.' + a.attr)
        chk.decide(not bad, 'one-timestep-uses-compiled-api', who, node=fn, file=rel, func=who + '.one_timestep',
                   detail_bad='uses %s which the compiled Integrator class does not provide' % sorted(set(bad)),
                   detail_ok='%d API calls' % len(calls))
        # 2. straight-line order: stages increasing without gaps, each followed by one do_post_stage with same k
        if any(isinstance(x, (ast.If, ast.For, ast.While, ast.Try)) for x in ast.walk(fn)):
            chk.undecided('stage-numbering', who, node=fn, file=rel, func=who + '.one_timestep', detail='control flow in one_timestep')
            continue
        seq = []
        for s in fn.body:
            if isinstance(s, ast.Expr) and isinstance(s.value, ast.Call):
                nm = M.call_name(s.value) or ''
                if nm.startswith('self.'):
                    seq.append((nm[5:], s.value))
        stages = [(int(m[5:]), c) for m, c in seq if re.match(r'^stage\d+$', m)]
        ks = [k for k, _ in stages]
        chk.decide(ks == list(range(1, len(ks) + 1)) and ks, 'stage-numbering', who + ':stages', node=fn, file=rel, func=who + '.one_timestep',
                   detail_bad='stages are called as %s (must be 1..n in order, once each)' % ks, detail_ok=str(ks))
        # post-stage pairing
        cur = None
        posts = {}
        order_ok = True
        for m, c in seq:
            if re.match(r'^stage\d+$', m):
                if cur is not None and cur not in posts:
                    order_ok = False
                cur = int(m[5:])
            elif m == 'do_post_stage':
                if cur is None or len(c.args) != 2:
                    order_ok = False
                    continue
                k = c.args[1]
                if not (isinstance(k, ast.Constant) and k.value == cur) or cur in posts:
                    order_ok = False
                posts[cur] = c.args[0]
        if cur is not None and cur not in posts:
            order_ok = False
        chk.decide(order_ok and set(posts) == set(ks), 'stage-numbering', who + ':post-stage-pairing', node=fn, file=rel, func=who + '.one_timestep',
                   detail_bad='each stageK must be followed, before the next stage, by exactly one do_post_stage(c*dt, K): got %s' % (
                       dict((k, U(v)) for k, v in posts.items())), detail_ok=str(dict((k, U(v)) for k, v in posts.items())))
        if ks and ks[-1] in posts:
            last = compact(posts[ks[-1]])
            chk.decide(last == 'dt', 'stage-numbering', who + ':last-stage-time', node=posts[ks[-1]], file=rel, func=who + '.one_timestep',
                       detail_bad='after the last stage the time passed is %s, not dt (t + dt)' % last, detail_ok='dt')
            for k, v in posts.items():
                names = set(x.id for x in ast.walk(v) if isinstance(x, ast.Name))
                chk.decide(names == {'dt'}, 'stage-numbering', who + ':stage%d-time-is-fraction-of-dt' % k, node=v, file=rel,
                           func=who + '.one_timestep', detail_bad='stage time %s is not a multiple of dt' % U(v), detail_ok=U(v))
        # compute_accelerations arguments
        for m, c in seq:
            if m == 'compute_accelerations':
                okc = len(c.args) <= 2 and all(isinstance(a, ast.Constant) for a in c.args) and \
                    all(k.arg in ('index', 'update_nnps') and isinstance(k.value, ast.Constant) for k in c.keywords)
                chk.decide(okc, 'one-timestep-uses-compiled-api', who + ':compute_accelerations@%d' % c.lineno, node=c, file=rel,
                           func=who + '.one_timestep', detail_bad='non-literal arguments %s' % U(c), detail_ok=U(c))


def rule_accel(chk):
    from verif_static import paths as PT
    t = M.py(INT)
    icls_raw = M.find_class(t, 'Integrator')
    icls = M.inlined_class(icls_raw, keep=set(n_ for n_ in M.methods(icls_raw) if not n_.startswith('_')))
    fn = M.find_func(icls, 'compute_accelerations')
    pths = PT.enumerate_paths(M.docstring_stripped(fn.body))
    bad = {}
    nup = 0
    for p_ in pths:
        cl = PT.calls_on(p_)
        comp = [(i, c, env) for i, c, cal, env in cl if cal == 'self.acceleration_evals[index].compute']
        upd = [i for i, c, cal, env in cl if cal == 'self.nnps.update']
        pmu = [i for i, c, cal, env in cl if cal == 'self.parallel_manager.update']
        dom = [cal for i, c, cal, env in cl if cal in ('self.nnps.update_domain', 'self.update_domain', 'self.nnps.domain.update')]
        if dom:
            bad.setdefault('ghosts-only-where-one_timestep-says', 'a path calls %s: ghosts are re-created (and particles wrapped) at an acceleration evaluation, not only where one_timestep calls update_domain()' % dom[0])
        if len(comp) != 1:
            bad.setdefault('calls', 'a path evaluates acceleration_evals[index].compute %d times' % len(comp))
            continue
        ic, cc, env = comp[0]
        asked = any(e.kind == 'cond' and compact(e.node) == 'update_nnps' and e.truth for e in p_)
        refused = any(e.kind == 'cond' and compact(e.node) == 'update_nnps' and not e.truth for e in p_)
        if asked:
            nup += 1
            if len(upd) != 1 or upd[0] > ic:
                bad.setdefault('update-before-compute', 'with update_nnps the evaluation can run without (or before) nnps.update()')
            if pmu and upd and max(pmu) > upd[0]:
                bad.setdefault('parallel-manager-first', 'parallel manager is updated after the neighbour structure')
        elif refused and (upd or pmu):
            bad.setdefault('update-only-when-asked', 'nnps / parallel manager are updated although update_nnps is false')
        elif not asked and not refused and (upd or pmu):
            bad.setdefault('update-only-when-asked', 'nnps.update() is not under `if update_nnps`')
        if [i for i in upd + pmu if i > ic]:
            bad.setdefault('no-update-after-compute', 'neighbours are refreshed after the evaluation')
        args = [compact(PT.resolve(a_, env)) for a_ in cc.args]
        if args != ['self.c_integrator.t', 'self.c_integrator.dt']:
            bad.setdefault('evaluates-set-index-at-stage-time', 'evaluation is called with (%s)' % ', '.join(args))
    if not pths or nup == 0:
        bad.setdefault('calls', 'compute / nnps.update call vanished')
    for inst, ok_text in (('calls', 'one evaluation per path'), ('update-only-when-asked', 'under if update_nnps'), ('no-update-after-compute', 'refresh precedes compute'),
                          ('update-before-compute', 'every path through the branch updates first'), ('parallel-manager-first', 'parallel_manager.update() before nnps.update()'),
                          ('evaluates-set-index-at-stage-time', 'acceleration_evals[index].compute(c.t, c.dt)'),
                          ('ghosts-only-where-one_timestep-says', 'compute_accelerations never re-creates ghosts')):
        chk.decide(inst not in bad, 'accelerations-after-neighbour-refresh', inst, node=fn, file=INT, func='Integrator.compute_accelerations', detail_bad=bad.get(inst, ''), detail_ok=ok_text)
    ud = M.find_method(t, 'Integrator', 'update_domain')
    chk.decide(any(M.call_name(c) == 'self.nnps.update_domain' for c in M.calls(ud)), 'compiled-api-forwards', 'Integrator.update_domain', node=ud,
               file=INT, func='Integrator.update_domain', detail_bad='update_domain does not re-create ghosts (nnps.update_domain)', detail_ok='nnps.update_domain()')
    stp = M.find_method(t, 'Integrator', 'step')
    chk.decide(any(M.call_name(c) == 'self.c_integrator.step' and [U(a) for a in c.args] == ['time', 'dt'] for c in M.calls(stp)), 'compiled-api-forwards',
               'Integrator.step', node=stp, file=INT, func='Integrator.step', detail_bad='step does not forward (time, dt) to the compiled integrator',
               detail_ok='c_integrator.step(time, dt)')


def rule_compile_model(chk):
    """SPHCompiler.compile interpreted (E8) on a model problem with three acceleration evaluators (a multi-stage integrator) whose generated code is *identical*: every
    evaluator object gets its own compiled counterpart - setup_compiled_module of its own helper, once, with a module built from its own code; none is handed the compiled
    object of another (constructor arguments of the equations live in the instances, not in the code)"""
    from verif_static import emit as EM, absint as AI
    SCF = 'pysph/sph/sph_compiler.py'
    fn = M.find_method(M.py(SCF), 'SPHCompiler', 'compile')
    log = []

    def helper(k):
        obj = EM.mock(name='eval%d' % k, c_acceleration_eval=('compiled', k), set_compiled_object=lambda i, a, kw, n, e: log.append(('set_compiled_object', k, a[0] if a else None)))
        return EM.mock(object=obj, get_code=lambda i, a, kw, n, e: 'SAME GENERATED CODE', compile=lambda i, a, kw, n, e: log.append(('compile', k, a[0] if a else None)) or ('module', k, len(log)),
                       setup_compiled_module=lambda i, a, kw, n, e: log.append(('setup', k, a[0] if a else None)))
    try:
        it = EM.interpreter()
        hs = [helper(k) for k in range(3)]
        ih = EM.mock(get_code=lambda i, a, kw, n, e: ' INTEGRATOR', setup_compiled_module=lambda i, a, kw, n, e: log.append(('setup-integrator', a[0] if a else None)))
        comp = EM.instance(it, SCF, 'SPHCompiler', module=None, acceleration_eval_helpers=hs, acceleration_evals=[h.attrs['object'] for h in hs], integrator=EM.mock(name='integrator'),
                           integrator_helper=ih, backend='cython')
        EM.call(it, comp, 'compile')
        bad = None
        for k in range(3):
            setups = [l for l in log if l[0] == 'setup' and l[1] == k]
            foreign = [l for l in log if l[0] == 'set_compiled_object' and l[1] == k]
            if len(setups) != 1 or foreign:
                bad = bad or 'evaluator %d: setup_compiled_module called %d time(s)%s' % (k, len(setups), ', handed the compiled object %s of another evaluator' % (foreign[0][2],) if foreign else '')
            elif not (isinstance(setups[0][2], tuple) and setups[0][2][0] == 'module'):
                bad = bad or 'evaluator %d is set up with %r, not with a compiled module' % (k, setups[0][2])
        chk.decide(bad is None, 'compiled-api-forwards', 'every-evaluator-gets-its-own-compiled-object', node=fn, file=SCF, func='SPHCompiler.compile',
                   detail_bad='three evaluators with identical generated code: %s - stage k of a multi-stage integrator then evaluates with the equation objects (coefficients) of another stage' % bad,
                   detail_ok='compile + setup_compiled_module for each of three evaluators with identical code')
    except (AI.Unsupported, AI.Raised) as ex:
        chk.undecided('compiled-api-forwards', 'every-evaluator-gets-its-own-compiled-object', node=fn, file=SCF, func='SPHCompiler.compile', detail='not interpretable on the model: %s' % ex)


def main(chk):
    chk.explanation = ('The Mako template of the compiled integrator is lowered to the shape of the Cython it emits (all branches '
                       'taken, expressions as placeholders), parsed with Cython\'s parser and analysed like ordinary code: stage '
                       'wrappers loop over size(real=True) per destination with py_stage first, step/do_post_stage bookkeeping by '
                       'dominance, one_timestep pasted verbatim; helper functions emit the stepper\'s own argument list; lint of all '
                       'shipped one_timestep bodies (API subset, stage numbering, post-stage pairing, last stage at dt); '
                       'Integrator.compute_accelerations refreshes neighbours before evaluating.')
    rule_template(chk)
    rule_helper(chk)
    rule_integrators(chk)
    rule_accel(chk)
    rule_compile_model(chk)
    # the compiled integrator steps the arrays through the evaluator's wrapper objects: new arrays must be put into those very objects (rule shared with C03)
    import importlib.util
    spec03 = importlib.util.spec_from_file_location('c03mod', os.path.join(os.path.dirname(os.path.abspath(__file__)), 'c03.py'))
    c03 = importlib.util.module_from_spec(spec03)
    spec03.loader.exec_module(c03)
    c03.rule_wrapper(chk, c03.MT.parse_template(c03.TPL))
    chk.assume('Cython executes the emitted module as written; stepper arithmetic is not analysed')


if __name__ == '__main__':
    run_check('C04', main)
