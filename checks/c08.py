"""C08 - SPH kernels: compiled twin, dimensional typing, cut-off, r = 0, algebraic sibling agreement (DESIGN.md C08)."""
import ast
import copy
import os
import sys
from fractions import Fraction

sys.path.insert(0, os.path.dirname(os.path.dirname(os.path.abspath(__file__))))
from verif_static.core import run_check, AnalysisError, REPO  # noqa
from verif_static import model as M, cfg as C, makotree as MT  # noqa
from verif_static.poly import Poly, from_ast  # noqa

KER = 'pysph/base/kernels.py'
CK = 'pysph/base/c_kernels.pyx'
CKT = 'pysph/base/c_kernels.pyx.mako'
METHODS = ('get_deltap', 'kernel', 'dwdq', 'gradient', 'gradient_h')


def U(n):
    return M.unparse(n)


def compact(n):
    return U(n).replace(' ', '')


KEEP_METHODS = ('__init__', 'get_deltap', 'kernel', 'dwdq', 'gradient', 'gradient_h', 'py_kernel', 'py_dwdq', 'py_gradient', 'py_gradient_h', 'py_get_deltap')


def name_roles(fn):
    """the locals of a kernel method that hold q = rij/h and h1 = 1/h are called `q` and `h1` in the analysed copy, whatever the source calls them (the rules speak about
    the dimensionless radius, not about a variable name)"""
    from verif_static.norm import same as same_
    params = [a.arg for a in fn.args.args]
    if 'rij' not in params or 'h' not in params:
        return
    defs = [(a.targets[0].id, a.value) for a in ast.walk(fn) if isinstance(a, ast.Assign) and len(a.targets) == 1 and isinstance(a.targets[0], ast.Name)]
    used = set(x.id for x in ast.walk(fn) if isinstance(x, ast.Name)) | set(params)
    ren = {}
    h1n = [n_ for n_, v_ in defs if same_(v_, '1.0/h', '1/h')]
    if len(set(h1n)) == 1 and h1n[0] != 'h1' and 'h1' not in used:
        ren[h1n[0]] = 'h1'
    h1name = h1n[0] if len(set(h1n)) == 1 else 'h1'
    qn = [n_ for n_, v_ in defs if same_(v_, 'rij/h', 'rij*%s' % h1name, 'rij*(1.0/h)')]
    if len(set(qn)) == 1 and qn[0] != 'q' and 'q' not in used:
        ren[qn[0]] = 'q'
    for x in ast.walk(fn):
        if isinstance(x, ast.Name) and x.id in ren:
            x.id = ren[x.id]


def kernel_classes(tree):
    """the kernel classes, with helper methods a maintainer may have factored out of kernel / dwdq / gradient / gradient_h inlined again (model.inline_helpers), and the
    locals that hold q and 1/h under those names"""
    out = []
    for c in M.classes(tree):
        if 'kernel' in M.methods(c) and 'gradient' in M.methods(c):
            extra = [m for m in M.methods(c) if m not in KEEP_METHODS]
            c2 = M.inlined_class(c, keep=KEEP_METHODS) if extra else c
            for f_ in M.methods(c2).values():
                name_roles(f_)
            out.append(c2)
    return out


# ---------------------------------------------------------------------------
# (a) compiled twin
# ---------------------------------------------------------------------------

def norm_body(body):
    out = []
    for s in body:
        if isinstance(s, ast.AnnAssign) and s.value is None:
            continue            # cdef declaration
        if isinstance(s, ast.Expr) and isinstance(s.value, ast.Constant) and isinstance(s.value.value, str):
            continue            # docstring (compyle emits it after the declarations)
        out.append(s)
    return out


def canonical_body(fn_args, stmts):
    """the statements with comparisons oriented one way (`a > b` as `b < a`) and local variables renamed in order of first assignment: the compiled twin is
    regenerated from kernels.py, so the two may differ by such spellings when only one of them was touched"""
    stmts = ast.parse('\n'.join(ast.unparse(s) for s in stmts)).body        # fresh copies without parent links
    params = set(fn_args)
    order = {}

    class T(ast.NodeTransformer):
        def visit_Compare(self, n):
            self.generic_visit(n)
            if len(n.ops) == 1 and isinstance(n.ops[0], (ast.Gt, ast.GtE)):
                return ast.Compare(left=n.comparators[0], ops=[ast.Lt() if isinstance(n.ops[0], ast.Gt) else ast.LtE()], comparators=[n.left])
            return n
    stmts = [T().visit(s) for s in stmts]
    for s in stmts:
        for x in ast.walk(s):
            if isinstance(x, ast.Name) and isinstance(x.ctx, ast.Store) and x.id not in params and x.id not in order:
                order[x.id] = 'v%d' % len(order)
    for s in stmts:
        for x in ast.walk(s):
            if isinstance(x, ast.Name) and x.id in order:
                x.id = order[x.id]
    return stmts


def dump(stmts):
    def ser(n):
        if isinstance(n, ast.AST):
            if isinstance(n, ast.Constant):
                v = n.value
                if isinstance(v, (int, float)) and not isinstance(v, bool):
                    v = float(v)
                return 'C(%r)' % (v,)
            parts = []
            for f in n._fields:
                if f in ('ctx', 'type_comment', 'kind'):
                    continue
                parts.append(ser(getattr(n, f, None)))
            return '%s(%s)' % (type(n).__name__, ','.join(parts))
        if isinstance(n, list):
            return '[' + ','.join(ser(x) for x in n) + ']'
        return repr(n)
    return [ser(s) for s in stmts]


def semantically_equal(m, pf, cf):
    """python method pf and compiled method cf compute the same thing: for kernel / dwdq / gradient_h the same expression on every piece of the common refinement of their
    branch points (r = 0 branch included); for gradient the same three stored components (value numbering).  False when that cannot be shown."""
    try:
        if m in ('kernel', 'dwdq', 'gradient_h', 'get_deltap'):
            import copy as _c
            cf2 = ast.FunctionDef(name=cf.name, args=cf.args, body=[st for st in M.docstring_stripped(cf.body) if not (isinstance(st, ast.AnnAssign) and st.value is None)], decorator_list=[])
            for keep_r0 in (False, True):
                la, lb = qleaves(pf, keep_r0=keep_r0), qleaves(cf2, keep_r0=keep_r0)
                if keep_r0:
                    la = [l for l in la if is_r0(l[2])]
                    lb = [l for l in lb if is_r0(l[2])]
                    if bool(la) != bool(lb):
                        return False
                    if not la:
                        continue
                bps = breakpoints(la, lb)
                pts = sorted(bps)
                samples = [(x, x) for x in pts] + [(pts[i], pts[i + 1]) for i in range(len(pts) - 1)] + [(pts[-1], None)]
                for lo, hi in samples:
                    ea = leaf_at_point(la, lo) if lo == hi else leaf_on_open(la, lo, hi)
                    eb = leaf_at_point(lb, lo) if lo == hi else leaf_on_open(lb, lo, hi)
                    if (ea is None) != (eb is None):
                        return False
                    if ea is None:
                        continue
                    pa_, pb_ = to_poly(ea[1]) if ea[1] is not None else None, to_poly(eb[1]) if eb[1] is not None else None
                    if pa_ is None or pb_ is None or not (pa_ - pb_).is_zero():
                        return False
            return True
        if m == 'gradient':
            from verif_static import symb as S
            ctx = S.Ctx(seconds=20)
            vals = []
            for f in (pf, cf):
                body = [st for st in M.docstring_stripped(f.body) if not (isinstance(st, ast.AnnAssign) and st.value is None)]
                ev = S.Evaluator(ctx, ast.FunctionDef(name='gradient', args=f.args, body=body, decorator_list=[]))
                ev.run()
                vals.append([ev.env.get('grad[%d]' % k) for k in range(3)])
            return all(x is not None and y is not None and ctx.prove_zero(x - y)[0] for x, y in zip(*vals))
    except Exception:
        return False
    return False


def rule_symbol_definitions(chk, pyk, file=None, floor=40):
    """the rules below speak of q = r/h and h1 = 1/h as symbols: in every method of every kernel the locals of those names are assigned exactly that (and nothing else)"""
    from verif_static.norm import same as same_
    n = 0
    for name, pc in sorted(pyk.items()):
        for mname, fn in sorted(M.methods(pc).items()):
            params = [a.arg for a in fn.args.args]
            if 'rij' not in params or 'h' not in params:
                continue
            for a in ast.walk(fn):
                if not (isinstance(a, (ast.Assign, ast.AugAssign))):
                    continue
                tg = a.targets[0] if isinstance(a, ast.Assign) else a.target
                if not (isinstance(tg, ast.Name) and tg.id in ('q', 'h1')):
                    continue
                n += 1
                if tg.id == 'h1':
                    ok = isinstance(a, ast.Assign) and same_(a.value, '1.0/h', '1/h')
                    want = '1/h'
                else:
                    ok = isinstance(a, ast.Assign) and same_(a.value, 'rij/h', 'rij*h1', 'rij*(1.0/h)')
                    want = 'rij/h'
                chk.decide(ok, 'symbol-definitions', '%s%s.%s:%s@%d' % ('compiled:' if file else '', name, mname, tg.id, a.lineno), node=a, file=file or KER, func='%s.%s' % (name, mname),
                           detail_bad='`%s`: the local %s of a kernel method is %s, every formula below it is written in terms of it' % (U(a)[:60], tg.id, want),
                           detail_ok='%s = %s' % (tg.id, want))
    chk.floor('definitions of q and h1 in %skernel methods' % ('compiled ' if file else ''), n, floor)


def rule_twin(chk):
    py = M.py(KER)
    cy = M.cy(CK)
    # the compiled twins and their wrappers compute in double precision, as the Python classes do: nothing in c_kernels.pyx is declared with the C type float (32 bit in Cython)
    sp = M.single_precision_declarations(cy)
    chk.decide(not sp, 'compiled-twin-agrees', 'double-precision-throughout', node=sp[0][2] if sp else cy, file=CK, func=M.qualname(M.enclosing_func(sp[0][2])) if sp and M.enclosing_func(sp[0][2]) is not None else '<module>',
               line=getattr(sp[0][2], 'lineno', 0) if sp else 0,
               detail_bad='%d declaration(s) with the C type float, e.g. `%s %s`: single precision - the compiled kernel agrees with the Python class to 7 digits only and separations '
                          'beyond the float32 range give 0 or W(0)' % (len(sp), sp[0][1] if sp else '', sp[0][0] if sp else ''),
               detail_ok='no single-precision declaration in c_kernels.pyx')
    pyk = dict((c.name, c) for c in kernel_classes(py))
    cyk = dict((c.name, (M.inlined_class(c, keep=KEEP_METHODS) if [m for m in M.methods(c) if m not in KEEP_METHODS and 'kernel' in M.methods(c)] else c)) for c in M.classes(cy))
    chk.floor('python kernel classes', len(pyk), 10)
    nm = 0
    for name, pc in sorted(pyk.items()):
        cc = cyk.get(name)
        if cc is None:
            chk.violated('compiled-twin', name + ':class', node=pc, file=CK, func=name,
                         detail='kernel class %s has no compiled twin in c_kernels.pyx (get_compiled_kernel would fail)' % name)
            continue
        if name + 'Wrapper' not in cyk:
            chk.violated('compiled-twin', name + ':wrapper', node=cc, file=CK, func=name, detail='%sWrapper is missing' % name)
        pm, cm = M.methods(pc), M.methods(cc)
        for m in METHODS:
            if m not in pm:
                continue
            nm += 1
            if m not in cm:
                chk.violated('compiled-twin', '%s.%s' % (name, m), node=cc, file=CK, func='%s.%s' % (name, m), detail='method missing in the compiled class')
                continue
            a, b = dump(canonical_body(M.arg_names(pm[m]), norm_body(M.docstring_stripped(pm[m].body)))), dump(canonical_body(M.arg_names(cm[m]), norm_body(cm[m].body)))
            args_ok = M.arg_names(pm[m]) == M.arg_names(cm[m])
            if a == b and args_ok:
                chk.holds('compiled-twin', '%s.%s' % (name, m), node=cm[m], file=CK, func='%s.%s' % (name, m), detail='%d statements identical' % len(a))
            elif args_ok and semantically_equal(m, pm[m], cm[m]):
                # written differently (one side was tidied and the other not regenerated yet) but the same function of (q, h, FAC, DIM) piece by piece / the same
                # stored gradient components
                chk.holds('compiled-twin', '%s.%s' % (name, m), node=cm[m], file=CK, func='%s.%s' % (name, m), detail='same piecewise function, different spelling')
            else:
                k = next((i for i, (x, y) in enumerate(zip(a, b)) if x != y), min(len(a), len(b)))
                ps = norm_body(M.docstring_stripped(pm[m].body))
                cs = norm_body(cm[m].body)
                chk.violated('compiled-twin', '%s.%s' % (name, m), node=cs[k] if k < len(cs) else cm[m], file=CK, func='%s.%s' % (name, m),
                             detail='the committed compiled kernel differs from kernels.py at statement %d: python `%s` vs compiled `%s`%s' % (
                                 k, U(ps[k])[:80] if k < len(ps) else '<end>', U(cs[k])[:80] if k < len(cs) else '<end>',
                                 '' if args_ok else '; parameters %s vs %s' % (M.arg_names(pm[m]), M.arg_names(cm[m]))))
        # attributes: everything __init__ stores must be a declared public attribute of the compiled class
        init = pm.get('__init__')
        stored = set(a.targets[0].attr for a in ast.walk(init) if isinstance(a, ast.Assign) and isinstance(a.targets[0], ast.Attribute)
                     and U(a.targets[0].value) == 'self') if init else set()
        stored |= set(a.target.attr for a in ast.walk(init) if isinstance(a, ast.AugAssign) and isinstance(a.target, ast.Attribute)) if init else set()
        declared = set(U(s.target) for s in cc.body if isinstance(s, ast.AnnAssign))
        chk.decide(stored <= declared, 'compiled-twin', name + ':attributes', node=cc, file=CK, func=name,
                   detail_bad='attributes %s set by the Python kernel are not declared in the compiled class (Cls(**kernel.__dict__) fails)' % sorted(stored - declared),
                   detail_ok=str(sorted(stored)))
        # attribute types: Cls(**kernel.__dict__) converts each value to the declared C type, so an attribute declared as an integer must be
        # integral for every dimension the kernel supports (a long silently truncates 1.5 to 1)
        decl_t = dict((U(s_.target), (s_.annotation.value if isinstance(s_.annotation, ast.Constant) else U(s_.annotation))) for s_ in cc.body if isinstance(s_, ast.AnnAssign))
        trunc = []
        for dim in supported_dims(pc):
            try:
                at_ = attrs_of(pc, dim)
            except ValueError:
                at_ = {}
            for k_, v_ in at_.items():
                ty = decl_t.get(k_, 'double')
                integral = any(w in str(ty).split() for w in ('long', 'int', 'short', 'bint', 'char')) and not any(w in str(ty) for w in ('double', 'float'))
                if integral and not (v_.is_const() and v_.const_value().denominator == 1):
                    trunc.append((k_, ty, dim, str(v_)))
        chk.decide(not trunc, 'compiled-twin', name + ':attribute-types', node=cc, file=CK, func=name,
                   detail_bad='compiled attribute %s is declared `%s` but the Python kernel sets it to %s for dim=%s: the compiled twin computes with the truncated value'
                              % ((trunc[0][0], trunc[0][1], trunc[0][3], trunc[0][2]) if trunc else ('', '', '', '')),
                   detail_ok='integer-typed attributes hold integers for every supported dimension')
        # wrapper
        wc = cyk.get(name + 'Wrapper')
        if wc is not None:
            for m in ('kernel', 'gradient'):
                f = M.methods(wc).get(m)
                if f is None:
                    chk.violated('compiled-twin', '%sWrapper.%s' % (name, m), node=wc, file=CK, func=name + 'Wrapper', detail='missing')
                    continue
                # helpers of the wrapper class a maintainer has factored the common lines out into are inlined again
                f = M.inline_helpers(wc, f, keep=set(['kernel', 'gradient', '__init__']))
                # value numbering of the straight-line body: what reaches the kernel call
                from verif_static import symb as S
                ok = False
                try:
                    ctx = S.Ctx(seconds=10)
                    body = [x for x in f.body if not isinstance(x, ast.Return) and not (isinstance(x, ast.Expr) and isinstance(x.value, ast.Call))]
                    ev = S.Evaluator(ctx, ast.FunctionDef(name=m, args=f.args, body=M.docstring_stripped(body), decorator_list=[]))
                    ev.run()
                    kc = [c for c in M.calls(f) if M.call_name(c) == 'self.kern.' + m]
                    if len(kc) == 1:
                        a = kc[0].args
                        vec = compact(a[0])
                        alias = ev.env.get(vec)           # xij = self.xij: a local name for the persistent buffer
                        base = vec
                        for a_ in ast.walk(f):
                            tg_ = a_.targets[0] if isinstance(a_, ast.Assign) and len(a_.targets) == 1 else a_.target if isinstance(a_, ast.AnnAssign) and a_.value is not None else None
                            if isinstance(tg_, ast.Name) and compact(a_.value) == vec:
                                base = tg_.id            # the buffer handed to the kernel is the one the components were stored through (`xij = self.xij`)
                        comps = [ev.env.get('%s[%d]' % (base, k)) for k in range(3)]
                        want = [ctx.var(p) - ctx.var(q) for p, q in (('xi', 'xj'), ('yi', 'yj'), ('zi', 'zj'))]
                        ok = all(c is not None and ctx.prove_zero(c - w)[0] for c, w in zip(comps, want))
                        r = ev.ev(a[1])
                        r2 = ctx.fn('sqrt', [ctx.mul(want[0], want[0]) + ctx.mul(want[1], want[1]) + ctx.mul(want[2], want[2])])
                        ok = ok and ctx.prove_zero(r - r2)[0] and compact(a[2]) == 'h'
                        rets = [x for x in f.body if isinstance(x, ast.Return)]
                        if m == 'kernel':
                            ok = ok and len(rets) == 1 and rets[0].value is kc[0]
                        else:
                            g = compact(a[3]) if len(a) > 3 else None
                            ok = ok and len(rets) == 1 and compact(rets[0].value).replace('(', '').replace(')', '') == '%s[0],%s[1],%s[2]' % (g, g, g) and kc[0].lineno < rets[0].lineno
                except (S.Unsupported, S.Budget):
                    ok = False
                ok = ok and not any(isinstance(x, (ast.If, ast.For, ast.While, ast.IfExp)) for x in ast.walk(f))
                chk.decide(ok, 'compiled-twin', '%sWrapper.%s' % (name, m), node=f, file=CK, func='%sWrapper.%s' % (name, m),
                           detail_bad='wrapper does not unconditionally pass xij = x_i - x_j, rij = |xij| and h to the kernel and return what it computed '
                                      '(a skipped call returns whatever the persistent buffer held)', detail_ok='straight-line: xij = xi - xj, rij = |xij|, kernel call')
    chk.floor('twin methods compared', nm, 50)
    # the class list of the generating template equals the classes defined
    tsrc = M.read(CKT)
    import re
    listed = None
    for blk in re.findall(r'<%(.*?)%>', tsrc, flags=re.S):
        try:
            bt = ast.parse(__import__('textwrap').dedent(blk))
        except SyntaxError:
            continue
        consts = dict((compact(a_.targets[0]), a_.value) for a_ in ast.walk(bt) if isinstance(a_, ast.Assign) and isinstance(a_.targets[0], ast.Name))
        v = consts.get('CLASSES')
        if v is None:
            continue
        if isinstance(v, (ast.Tuple, ast.List)) and all(isinstance(e_, (ast.Name, ast.Attribute)) for e_ in v.elts):
            listed = set(compact(e_).split('.')[-1] for e_ in v.elts)
        else:
            # built from a list of names: tuple(getattr(kernels, name) for name in NAMES) / [getattr(kernels, n) for n in NAMES]
            gen = v.args[0] if isinstance(v, ast.Call) and compact(v.func) in ('tuple', 'list') and len(v.args) == 1 else v
            if isinstance(gen, (ast.GeneratorExp, ast.ListComp)) and len(gen.generators) == 1 and not gen.generators[0].ifs and isinstance(gen.elt, ast.Call) and compact(gen.elt.func) == 'getattr' \
                    and len(gen.elt.args) == 2 and compact(gen.elt.args[1]) == compact(gen.generators[0].target):
                src_ = gen.generators[0].iter
                src_ = consts.get(compact(src_), src_)
                if isinstance(src_, (ast.Tuple, ast.List)) and all(isinstance(e_, ast.Constant) and isinstance(e_.value, str) for e_ in src_.elts):
                    listed = set(e_.value for e_ in src_.elts)
    if listed is None:
        chk.undecided('compiled-twin', 'template-class-list', file=CKT, func='CLASSES', line=0, detail='the class list of the generator template is not a literal tuple of classes / of names')
    else:
        chk.decide(listed == set(pyk), 'compiled-twin', 'template-class-list', file=CKT, func='CLASSES', line=0,
                   detail_bad='generator template lists %s, kernels.py defines %s' % (sorted(listed), sorted(pyk)), detail_ok='%d classes' % len(listed))
    gk = M.find_func(py, 'get_compiled_kernel')
    # decided by a model run: for a model kernel of class Foo with attributes {dim, fac, radius_scale} the function hands back c_kernels.FooWrapper(c_kernels.Foo(dim=.., fac=.., radius_scale=..))
    from verif_static import emit as EM, absint as AI
    ok = False
    why = ''
    try:
        it = EM.interpreter()

        def hook(interp, v, attr, node, env):
            if AI.unknown(v) and AI.key_of(v).split('.')[-1] == 'c_kernels':
                return lambda i, a, k, n, e, attr=attr: ('made', attr, list(a), dict(k))
            return NotImplemented
        AI.ATTR_HOOKS.insert(0, hook)
        saved_g = AI.BUILTINS.get('getattr')

        def getattr_(interp, args, kwargs, node, env):
            if AI.unknown(args[0]) and AI.key_of(args[0]).split('.')[-1] == 'c_kernels' and isinstance(args[1], str):
                return lambda i, a, k, n, e, attr=args[1]: ('made', attr, list(a), dict(k))
            return saved_g(interp, args, kwargs, node, env)
        AI.BUILTINS['getattr'] = getattr_
        try:
            attrs = {'dim': 2, 'fac': 1.5, 'radius_scale': 3.0}
            kern = EM.mock(name='Foo', __dict__=dict(attrs), **attrs)
            got = EM.call_function(it, KER, 'get_compiled_kernel', kern)
            # a second kernel of the same class with other attributes (another dimension) gets a twin of its own
            attrs2 = {'dim': 3, 'fac': 0.25, 'radius_scale': 3.0}
            kern2 = EM.mock(name='Foo', __dict__=dict(attrs2), **attrs2)
            got2 = EM.call_function(it, KER, 'get_compiled_kernel', kern2)
            second_ok = isinstance(got2, tuple) and got2[:2] == ('made', 'FooWrapper') and len(got2[2]) == 1 and isinstance(got2[2][0], tuple) and got2[2][0][3] == attrs2
        finally:
            AI.ATTR_HOOKS.remove(hook)
            AI.BUILTINS['getattr'] = saved_g
        ok = isinstance(got, tuple) and got[:2] == ('made', 'FooWrapper') and len(got[2]) == 1 and not got[3] and isinstance(got[2][0], tuple) and got[2][0][:2] == ('made', 'Foo') \
            and not got[2][0][2] and got[2][0][3] == attrs and second_ok
        why = repr(got)[:160] + ('; a second kernel of the same class with dim=3, fac=0.25 gets %r' % (got2,))[:200]
    except (AI.Unsupported, AI.Raised) as e:
        why = 'not interpretable on the model: %s' % e
    chk.decide(ok, 'compiled-twin', 'get_compiled_kernel', node=gk, file=KER, func='get_compiled_kernel',
               detail_bad='for a model kernel Foo(dim=2, fac=1.5, radius_scale=3.0) the function returns %s; expected c_kernels.FooWrapper(c_kernels.Foo(**the attributes of the kernel))' % why
               if True else '', detail_ok='Name(**__dict__) in NameWrapper')
    return pyk


# ---------------------------------------------------------------------------
# (b) dimensional typing: every quantity has type L^k
# ---------------------------------------------------------------------------

class DimError(Exception):
    def __init__(self, node, msg):
        self.node = node
        self.msg = msg


ANY = 'any'   # literal zero / numeric literal: polymorphic


def supported_dims(cls):
    """dimensions for which __init__ does not raise (tests on `dim` against literals are evaluated by a tiny interpreter)"""
    init = M.methods(cls).get('__init__')

    def val(e, k):
        if isinstance(e, ast.Name) and e.id == 'dim':
            return k
        if isinstance(e, ast.Attribute) and e.attr == 'dim':
            return k
        if isinstance(e, ast.Constant):
            return e.value
        if isinstance(e, (ast.Tuple, ast.List, ast.Set)):
            return [val(x, k) for x in e.elts]
        raise ValueError

    def test(t, k):
        if isinstance(t, ast.Compare) and len(t.ops) == 1:
            a, b = val(t.left, k), val(t.comparators[0], k)
            op = t.ops[0]
            return {ast.Eq: lambda: a == b, ast.NotEq: lambda: a != b, ast.Lt: lambda: a < b, ast.Gt: lambda: a > b, ast.LtE: lambda: a <= b,
                    ast.GtE: lambda: a >= b, ast.In: lambda: a in b, ast.NotIn: lambda: a not in b}[type(op)]()
        if isinstance(t, ast.BoolOp):
            vs = [test(x, k) for x in t.values]
            return all(vs) if isinstance(t.op, ast.And) else any(vs)
        if isinstance(t, ast.UnaryOp) and isinstance(t.op, ast.Not):
            return not test(t.operand, k)
        raise ValueError
    dims = []
    for k in (1, 2, 3):
        ok = True
        for i in ast.walk(init) if init else []:
            if isinstance(i, ast.If) and any(isinstance(b, ast.Raise) for b in i.body):
                try:
                    if test(i.test, k):
                        ok = False
                except (ValueError, KeyError):
                    pass
        if ok:
            dims.append(k)
    return dims


class DimEval(object):
    def __init__(self, cls, dim, ret):
        self.cls = cls
        self.dim = dim
        self.ret = ret          # method name -> expected result power

    def run(self, fn):
        env = {'h': Fraction(1), 'rij': Fraction(1), 'xij': Fraction(1), 'grad': None}
        self.returns = []
        self.grad_stores = []
        self.dim_alias = set(U(a.targets[0]) for a in ast.walk(fn) if isinstance(a, ast.Assign) and compact(a.value) == 'self.dim')
        self.block(fn.body, env)
        return env

    def block(self, stmts, env):
        for s in stmts:
            self.stmt(s, env)

    def const_test(self, t):
        """value of `self.dim == k` style tests for the assumed dimension"""
        if isinstance(t, ast.Compare) and len(t.ops) == 1 and (compact(t.left) == 'self.dim' or compact(t.left) in self.dim_alias) \
                and isinstance(t.comparators[0], ast.Constant):
            k = t.comparators[0].value
            op = t.ops[0]
            return {ast.Eq: self.dim == k, ast.NotEq: self.dim != k, ast.Gt: self.dim > k, ast.Lt: self.dim < k,
                    ast.GtE: self.dim >= k, ast.LtE: self.dim <= k}.get(type(op))
        return None

    def stmt(self, s, env):
        if isinstance(s, ast.Expr) and isinstance(s.value, ast.Constant):
            return
        if isinstance(s, ast.Assign):
            v = self.ev(s.value, env)
            t = s.targets[0]
            if isinstance(t, ast.Name):
                env[t.id] = v
            elif isinstance(t, ast.Subscript) and isinstance(t.value, ast.Name) and t.value.id == 'grad':
                self.grad_stores.append((s, v))
            elif isinstance(t, ast.Tuple):
                for x in t.elts:
                    if isinstance(x, ast.Name):
                        env[x.id] = v
            return
        if isinstance(s, ast.AugAssign) and isinstance(s.target, ast.Name):
            a, b = env.get(s.target.id, ANY), self.ev(s.value, env)
            if isinstance(s.op, (ast.Add, ast.Sub)):
                env[s.target.id] = self.same(s, a, b, 'augmented assignment')
            elif isinstance(s.op, ast.Mult):
                env[s.target.id] = self.mul(a, b, 1)
            elif isinstance(s.op, ast.Div):
                env[s.target.id] = self.mul(a, b, -1)
            return
        if isinstance(s, ast.If):
            ct = self.const_test(s.test)
            if ct is True:
                return self.block(s.body, env)
            if ct is False:
                return self.block(s.orelse, env)
            self.ev(s.test, env)
            e1, e2 = dict(env), dict(env)
            self.block(s.body, e1)
            self.block(s.orelse, e2)
            for k in set(e1) | set(e2):
                a, b = e1.get(k, ANY), e2.get(k, ANY)
                if a is None or b is None:
                    env[k] = a if b is None else b
                    continue
                if a != ANY and b != ANY and a != b:
                    raise DimError(s, 'variable %s has dimension L^%s on one branch and L^%s on the other' % (k, a, b))
                env[k] = a if a != ANY else b
            return
        if isinstance(s, ast.Return):
            if s.value is not None:
                self.returns.append((s, self.ev(s.value, env)))
            return
        if isinstance(s, (ast.Pass,)):
            return
        if isinstance(s, ast.AnnAssign):
            if s.value is not None and isinstance(s.target, ast.Name):
                env[s.target.id] = self.ev(s.value, env)
            return
        if isinstance(s, ast.For):
            return self.block(s.body, env)
        raise DimError(s, 'statement kind %s not typed' % type(s).__name__)

    def mul(self, a, b, sign):
        if a == ANY and b == ANY:
            return ANY
        a = Fraction(0) if a == ANY else a
        b = Fraction(0) if b == ANY else b
        return a + sign * b

    def same(self, node, a, b, what):
        if a == ANY:
            return b
        if b == ANY:
            return a
        if a != b:
            raise DimError(node, '%s of quantities with dimensions L^%s and L^%s' % (what, a, b))
        return a

    def ev(self, e, env):
        if isinstance(e, ast.Constant):
            return ANY
        if isinstance(e, ast.Name):
            if e.id in env and env[e.id] is not None:
                return env[e.id]
            if e.id in ('M_1_PI', 'M_2_SQRTPI', 'pi'):
                return Fraction(0)
            raise DimError(e, 'unknown name %s' % e.id)
        if isinstance(e, ast.Attribute) and isinstance(e.value, ast.Name) and e.value.id == 'self':
            return Fraction(0)     # fac, dim, radius_scale: pure numbers
        if isinstance(e, ast.Subscript) and isinstance(e.value, ast.Name):
            return env.get(e.value.id, Fraction(0))
        if isinstance(e, ast.UnaryOp):
            return self.ev(e.operand, env)
        if isinstance(e, ast.BinOp):
            a, b = self.ev(e.left, env), self.ev(e.right, env)
            if isinstance(e.op, (ast.Add, ast.Sub)):
                # numeric literals are only dimensionless
                if a == ANY and b != ANY and not (isinstance(e.left, ast.Constant) and e.left.value == 0):
                    a = Fraction(0)
                if b == ANY and a != ANY and not (isinstance(e.right, ast.Constant) and e.right.value == 0):
                    b = Fraction(0)
                return self.same(e, a, b, 'sum')
            if isinstance(e.op, ast.Mult):
                return self.mul(a, b, 1)
            if isinstance(e.op, ast.Div):
                return self.mul(a, b, -1)
            if isinstance(e.op, ast.Pow):
                if isinstance(e.right, ast.Constant):
                    return ANY if a == ANY else a * Fraction(e.right.value)
                raise DimError(e, 'non-constant exponent')
            raise DimError(e, 'operator')
        if isinstance(e, ast.Compare):
            a = self.ev(e.left, env)
            for c in e.comparators:
                b = self.ev(c, env)
                if not isinstance(c, ast.Constant) and not isinstance(e.left, ast.Constant):
                    self.same(e, a, b, 'comparison')
            return Fraction(0)
        if isinstance(e, ast.BoolOp):
            for v in e.values:
                self.ev(v, env)
            return Fraction(0)
        if isinstance(e, ast.Call):
            nm = M.call_name(e) or ''
            if nm in ('exp', 'sin', 'cos', 'log', 'tanh'):
                a = self.ev(e.args[0], env)
                if a not in (ANY, Fraction(0)):
                    raise DimError(e, 'argument of %s() has dimension L^%s (must be a pure number, e.g. q = r/h)' % (nm, a))
                return Fraction(0)
            if nm == 'sqrt':
                a = self.ev(e.args[0], env)
                return ANY if a == ANY else a / 2
            if nm in ('abs', 'fabs', 'float'):
                return self.ev(e.args[0], env)
            if nm in ('pow',):
                a = self.ev(e.args[0], env)
                if isinstance(e.args[1], ast.Constant):
                    return ANY if a == ANY else a * Fraction(e.args[1].value)
                raise DimError(e, 'non-constant exponent')
            if nm in ('max', 'min'):
                a = self.ev(e.args[0], env)
                for x in e.args[1:]:
                    a = self.same(e, a, self.ev(x, env), nm)
                return a
            if nm.startswith('self.') and nm[5:] in self.ret:
                for x in e.args:
                    self.ev(x, env)
                r = self.ret[nm[5:]]
                return r
            raise DimError(e, 'call of %s not typed' % nm)
        if isinstance(e, ast.IfExp):
            return self.same(e, self.ev(e.body, env), self.ev(e.orelse, env), 'conditional')
        raise DimError(e, 'expression kind %s not typed' % type(e).__name__)


def rule_dimensions(chk, pyk):
    n = 0
    for name, cls in sorted(pyk.items()):
        for dim in supported_dims(cls):
            ret = {'kernel': Fraction(-dim), 'dwdq': Fraction(-dim), 'gradient_h': Fraction(-dim - 1), 'get_deltap': Fraction(0)}
            for m in ('kernel', 'dwdq', 'gradient', 'gradient_h'):
                fn = M.methods(cls).get(m)
                if fn is None:
                    continue
                n += 1
                inst = '%s.%s[dim=%d]' % (name, m, dim)
                de = DimEval(cls, dim, ret)
                try:
                    de.run(ast.FunctionDef(name=fn.name, args=fn.args, body=M.docstring_stripped(fn.body), decorator_list=[]))
                except DimError as e:
                    chk.violated('dimensional-typing', inst, node=e.node if hasattr(e.node, 'lineno') else fn, file=KER, func='%s.%s' % (name, m),
                                 detail='for dim=%d: %s' % (dim, e.msg))
                    continue
                if m == 'gradient':
                    want = Fraction(-dim - 1)
                    bad = [(s, v) for s, v in de.grad_stores if v != want and v != ANY]
                    chk.decide(len(de.grad_stores) == 3 and not bad, 'dimensional-typing', inst, node=bad[0][0] if bad else fn, file=KER,
                               func='%s.%s' % (name, m),
                               detail_bad='gradient components have dimension %s, expected L^%s (grad W ~ h^-(dim+1))' % (
                                   ['L^%s' % v for s, v in de.grad_stores], want), detail_ok='3 components of dimension L^%s' % want)
                else:
                    want = ret[m]
                    bad = [(s, v) for s, v in de.returns if v != want and v != ANY]
                    chk.decide(bool(de.returns) and not bad, 'dimensional-typing', inst, node=bad[0][0] if bad else fn, file=KER, func='%s.%s' % (name, m),
                               detail_bad='returns a quantity of dimension L^%s, expected L^%s: a wrong power of h in the dim=%d branch' % (
                                   bad[0][1] if bad else '?', want, dim), detail_ok='L^%s' % want)
    chk.floor('dimension-typed method instances', n, 80)


# ---------------------------------------------------------------------------
# (c) cut-off and (d) r = 0
# ---------------------------------------------------------------------------

def radius_scale_of(cls):
    init = M.methods(cls).get('__init__')
    for a in ast.walk(init):
        if isinstance(a, ast.Assign) and compact(a.targets[0]) == 'self.radius_scale' and isinstance(a.value, ast.Constant):
            return float(a.value.value)
    return None


def rule_cutoff(chk, pyk):
    """The set of q on which each method can return a non-zero value is exactly [0, radius_scale) (polynomial kernels may include the
    edge, where they vanish by themselves): computed from the branch tests as exact interval sets, so one-sided, two-sided, chained and
    negated spellings of the tests are all the same to the rule."""
    fresh = ast.parse(M.read(KER))
    fk = dict((c.name, c) for c in kernel_classes(fresh))
    for name, cls in sorted(pyk.items()):
        rs = radius_scale_of(cls)
        if rs is None:
            chk.undecided('cutoff-agreement', name, node=cls, file=KER, func=name, detail='radius_scale is not a literal')
            continue
        rsf = Fraction(str(rs))
        for m in ('kernel', 'dwdq', 'gradient_h'):
            fn = M.methods(cls).get(m)
            try:
                leaves = qleaves(M.methods(fk[name])[m], keep_r0=False)
                bps = breakpoints(leaves)
                mp = merged_pieces(leaves, bps)
            except (ValueError, KeyError) as e:
                chk.undecided('cutoff-agreement', '%s.%s' % (name, m), node=fn, file=KER, func='%s.%s' % (name, m), detail='piece extraction failed: %s' % e)
                continue

            def nonzero(e):
                pz = to_poly(e) if e is not None else None
                return pz is None or not pz.is_zero()
            nz = [(lo, hi) for lo, hi, e in mp if nonzero(e)]
            if not nz or any(hi is None for lo, hi in nz):
                chk.violated('cutoff-agreement', '%s.%s' % (name, m), node=fn, file=KER, func='%s.%s' % (name, m),
                             detail='the method is non-zero for arbitrarily large q (%s): the kernel is not compactly supported'
                                    % ', '.join(iv_label(lo, hi) for lo, hi in nz if hi is None) if nz else 'the method is zero everywhere')
                continue
            top = max(hi for lo, hi in nz)
            chk.decide(top == rsf, 'cutoff-agreement', '%s.%s' % (name, m), node=fn, file=KER, func='%s.%s' % (name, m),
                       detail_bad='the method is non-zero up to q = %g but radius_scale is %g: neighbours are searched up to radius_scale*h' % (float(top), rs),
                       detail_ok='q cut-off %g == radius_scale' % rs)
            # beyond the cut-off the value is zero: every piece above radius_scale and the break points above it
            beyond = [(lo, hi) for lo, hi in nz if lo >= rsf]
            ptsbad = [x for x in bps if x > rsf and leaf_at_point(leaves, x) is not None and nonzero(leaf_at_point(leaves, x)[1])]
            chk.decide(not beyond and not ptsbad, 'cutoff-agreement', '%s.%s:zero-outside' % (name, m), node=fn, file=KER, func='%s.%s' % (name, m),
                       detail_bad='the value beyond the cut-off is not identically zero (%s)' % (beyond or ptsbad), detail_ok='0 beyond the cut-off')
            # kernels whose formula does not vanish at the edge by itself (exponential family) must put q == radius_scale in the zero branch:
            # the property asks for W = 0 (and zero gradient) for r >= radius_scale*h
            inner = [e for lo, hi, e in mp if hi == rsf]
            pin = to_poly(inner[0]) if inner and inner[0] is not None else None
            if pin is not None and any(a_.startswith('EXP{') for a_ in pin.atoms()):
                at = leaf_at_point(leaves, rsf)
                chk.decide(at is not None and not nonzero(at[1]), 'cutoff-agreement', '%s.%s:zero-at-the-edge' % (name, m), node=fn, file=KER, func='%s.%s' % (name, m),
                           detail_bad='q == %g is in the non-zero branch: this kernel does not vanish there by itself (exp(-%g^2) != 0), so W / dW are non-zero exactly at r = radius_scale*h'
                                      % (rs, rs), detail_ok='q == %g is in the zero branch' % rs)


def rule_gradient_form(chk, pyk):
    """gradient = (dW/dr) * unit separation vector, decided algebraically: with I = [rij > eps] the three stored components satisfy
    grad[k] * h * rij == I * dwdq(rij, h) * xij[k]  (value numbering with reciprocal atoms; any equivalent spelling is accepted)"""
    from verif_static import symb as S
    for name, cls in sorted(pyk.items()):
        g = M.methods(cls).get('gradient')
        ctx = S.Ctx(seconds=20)
        try:
            ev = S.Evaluator(ctx, ast.FunctionDef(name='gradient', args=g.args, body=M.docstring_stripped(g.body), decorator_list=[]))
            ev.run()
            guards = [x for x in ast.walk(g) if isinstance(x, ast.If)]
            gd = ev.cond(guards[0].test) if len(guards) == 1 else None
            want_fn = ctx.fn('self.dwdq', [ctx.var('rij'), ctx.var('h')])
            bad = []
            for k in range(3):
                got = ev.env.get('grad[%d]' % k)
                if got is None:
                    bad.append('grad[%d] never stored' % k)
                    continue
                lhs = ctx.mul(ctx.mul(got, ctx.var('h')), ctx.var('rij'))
                rhs = ctx.mul(ctx.mul(gd if gd is not None else S.Poly.const(1), want_fn), ctx.var('xij[%d]' % k))
                if not ctx.simplify(lhs - rhs).is_zero():
                    bad.append('grad[%d] = %s' % (k, compact_poly(got)))
            ok = not bad and gd is not None and r_positive_test(guards[0].test)
            chk.decide(ok, 'gradient-is-radial', name, node=g, file=KER, func=name + '.gradient',
                       detail_bad='grad W = (dW/dr) x_ij/r requires grad[k]*h*rij == [rij > eps]*dwdq(rij, h)*xij[k] for k = 0, 1, 2; not so for: %s' % '; '.join(bad),
                       detail_ok='grad[k]*h*rij == [rij>eps]*dwdq(rij,h)*xij[k], k = 0, 1, 2')
        except (S.Unsupported, S.Budget) as e:
            chk.undecided('gradient-is-radial', name, node=g, file=KER, func=name + '.gradient', detail='prover gave up: %s' % e)


def compact_poly(p):
    s = str(p)
    return s if len(s) < 160 else s[:157] + '...'


def r_positive_test(t):
    """`rij > c` / `c < rij` (c a small non-negative literal), in either spelling"""
    if not (isinstance(t, ast.Compare) and len(t.ops) == 1):
        return False
    l, op, r = t.left, t.ops[0], t.comparators[0]
    if isinstance(op, (ast.Lt, ast.LtE)):
        l, r, op = r, l, ast.Gt()
    return isinstance(op, (ast.Gt, ast.GtE)) and isinstance(l, ast.Name) and l.id == 'rij' and isinstance(r, ast.Constant) and isinstance(r.value, (int, float)) and 0 <= r.value < 1e-6


def rule_r0(chk, pyk):
    # the only thing a kernel method may ask about the separation itself (as opposed to q) is whether it is positive: `rij > c` with a small non-negative literal, in any
    # spelling (`c < rij`, `not (rij > c)` with the branches swapped, as a conjunct) - the rules below treat the leaves on which such a test failed as the r = 0 case
    n_r = 0
    for name, cls in sorted(pyk.items()):
        for m, fn in sorted(M.methods(cls).items()):
            if 'rij' not in [a.arg for a in fn.args.args]:
                continue
            for i_ in ast.walk(fn):
                if not isinstance(i_, (ast.If, ast.IfExp)):
                    continue
                atoms_ = []

                def split(t_):
                    if isinstance(t_, ast.BoolOp):
                        for v_ in t_.values:
                            split(v_)
                    elif isinstance(t_, ast.UnaryOp) and isinstance(t_.op, ast.Not):
                        split(t_.operand)
                    else:
                        atoms_.append(t_)
                split(i_.test)
                for t_ in atoms_:
                    if 'rij' in set(x.id for x in ast.walk(t_) if isinstance(x, ast.Name)):
                        n_r += 1
                        chk.decide(r_positive_test(t_), 'value-at-zero-separation', '%s.%s:test-on-r@%d' % (name, m, i_.lineno), node=i_, file=KER, func='%s.%s' % (name, m),
                                   detail_bad='`%s` is not the test "the separation is positive" (rij > c, c a small non-negative literal): the branch written for coincident particles '
                                              'is taken for separated ones (or the other way round)' % U(t_), detail_ok=U(t_))
    chk.floor('tests on the separation in kernel methods', n_r, 10)
    for name, cls in sorted(pyk.items()):
        for m in ('gradient', 'dwdq', 'gradient_h', 'kernel'):
            fn = M.methods(cls).get(m)
            divs = [d for d in ast.walk(fn) if isinstance(d, ast.BinOp) and isinstance(d.op, ast.Div) and 'rij' in
                    set(x.id for x in ast.walk(d.right) if isinstance(x, ast.Name))]
            for d in divs:
                gi = M.enclosing(d, (ast.If,))
                ok = False
                while gi is not None:
                    if r_positive_test(gi.test) and any(d is x for b in gi.body for x in ast.walk(b)):
                        # other branch yields 0
                        tg = [U(b.targets[0]) for b in gi.body if isinstance(b, ast.Assign)]
                        if gi.orelse:
                            ok = all(isinstance(b, ast.Assign) and isinstance(b.value, ast.Constant) and float(b.value.value) == 0.0 for b in gi.orelse)
                        else:
                            # `x = 0.0` in front of the test plays the part of the else branch: for every name the guarded branch sets, the assignment that reaches
                            # the test (the last one before it in the enclosing block) is the constant 0
                            holder = getattr(gi, 'parent', None)
                            blk = None
                            for f_ in ('body', 'orelse'):
                                if holder is not None and gi in (getattr(holder, f_, None) or []):
                                    blk = getattr(holder, f_)
                            ok = blk is not None and bool(tg)
                            for nm_ in tg:
                                prev = [b for b in (blk or [])[:(blk or []).index(gi)] if isinstance(b, ast.Assign) and U(b.targets[0]) == nm_] if blk else []
                                if not (prev and isinstance(prev[-1].value, ast.Constant) and isinstance(prev[-1].value.value, (int, float)) and float(prev[-1].value.value) == 0.0):
                                    ok = False
                        break
                    gi = M.enclosing(gi, (ast.If,))
                chk.decide(ok, 'guarded-division-by-r', '%s.%s' % (name, m), node=d, file=KER, func='%s.%s' % (name, m),
                           detail_bad='division by rij is not guarded by `rij > eps` with a zero alternative: the gradient at r = 0 is nan/inf instead of 0',
                           detail_ok='guarded, 0 at r = 0')


# ---------------------------------------------------------------------------
# (f) algebraic agreement between sibling methods (piecewise forms in q)
# ---------------------------------------------------------------------------

KEEP = ('q', 'h1', 'h', 'rij')      # stay symbolic: q = r/h, h1 = 1/h


def pieces(fn):
    """[(conditions, env)] for the leaves of the if-tree on q / rij with straight-line substitution of temporaries.
    `fac` (the dimension-dependent normalisation) is kept as the symbol FAC; `self.dim` (or an alias) as DIM."""
    out = []

    def subst(e, env):
        class R(ast.NodeTransformer):
            def visit_Name(self, n):
                if n.id in env:
                    return copy.deepcopy(env[n.id])
                return n
        return R().visit(copy.deepcopy(e))

    def strip(e):
        for x in ast.walk(e):
            if hasattr(x, 'parent'):
                try:
                    del x.parent
                except AttributeError:
                    pass
        return e

    def walk(stmts, env, conds):
        for i, s in enumerate(stmts):
            if isinstance(s, ast.Assign) and isinstance(s.targets[0], ast.Name):
                nm = s.targets[0].id
                if nm in KEEP:
                    continue
                env = dict(env)
                env[nm] = subst(strip(copy.copy(s.value)) if False else s.value, env)
            elif isinstance(s, ast.AugAssign) and isinstance(s.target, ast.Name) and s.target.id in env:
                env = dict(env)
                env[s.target.id] = ast.BinOp(left=env[s.target.id], op=s.op, right=subst(s.value, env))
            elif isinstance(s, ast.If) and isinstance(s.test, ast.UnaryOp) and isinstance(s.test.op, ast.Not):
                # `if not A: X else: Y` is `if A: Y else: X` - tests are recorded in their positive spelling
                s2 = ast.If(test=s.test.operand, body=list(s.orelse) or [ast.Pass()], orelse=list(s.body))
                ast.copy_location(s2, s)
                walk([s2] + stmts[i + 1:], env, conds)
                return
            elif isinstance(s, ast.Pass):
                continue
            elif isinstance(s, ast.If) and isinstance(s.test, ast.BoolOp):
                # `if A and B: X else: Y` is `if A: (if B: X else: Y) else: Y`; `if A or B: X else: Y` is `if A: X else: (if B: X else: Y)` - one test per branch point
                vals = s.test.values
                rest_t = vals[1] if len(vals) == 2 else ast.BoolOp(op=s.test.op, values=vals[1:])
                inner = ast.If(test=rest_t, body=s.body, orelse=s.orelse)
                ast.copy_location(inner, s)
                if isinstance(s.test.op, ast.And):
                    s2 = ast.If(test=vals[0], body=[inner], orelse=s.orelse)
                else:
                    s2 = ast.If(test=vals[0], body=s.body, orelse=[inner])
                ast.copy_location(s2, s)
                walk([s2] + stmts[i + 1:], env, conds)
                return
            elif isinstance(s, ast.If):
                t = compact(subst(s.test, env))
                COND_AST[t] = subst(s.test, env)
                if t.startswith('self.dim=='):
                    # the dimension-dependent normalising factor: whatever local the chain over self.dim assigns stands for it
                    env = dict(env)
                    for a_ in ast.walk(s):
                        if isinstance(a_, ast.Assign) and isinstance(a_.targets[0], ast.Name):
                            env[a_.targets[0].id] = ast.Name(id='FAC', ctx=ast.Load())
                    continue
                rest = stmts[i + 1:]
                walk(list(s.body) + rest, env, conds + ((t, True),))
                walk(list(s.orelse) + rest, env, conds + ((t, False),))
                return
            elif isinstance(s, ast.Return):
                env = dict(env)
                env['<return>'] = subst(s.value, env) if s.value is not None else None
                out.append((conds, env))
                return
            elif isinstance(s, ast.Expr):
                continue
            else:
                raise ValueError('statement %s' % type(s).__name__)
        out.append((conds, env))
    body = []
    for st in M.docstring_stripped(fn.body):
        body.append(st)
    walk(body, {}, ())
    return out


def to_poly(e):
    """expression -> Poly over q, h1, FAC, DIM and atoms EXP{<normal form of the exponent>}"""
    def conv(x):
        if isinstance(x, ast.Call) and M.call_name(x) == 'exp' and len(x.args) == 1:
            inner = conv(x.args[0])
            return None if inner is None else Poly.var('EXP{%s}' % inner)
        if isinstance(x, ast.Call) and M.call_name(x) == 'pow' and isinstance(x.args[1], ast.Constant) and float(x.args[1].value).is_integer():
            b = conv(x.args[0])
            return b ** int(x.args[1].value) if b is not None else None
        if isinstance(x, ast.Attribute) and compact(x) == 'self.dim':
            return Poly.var('DIM')
        if isinstance(x, ast.Attribute) and compact(x) == 'self.fac':
            return Poly.var('SELF_FAC')
        if isinstance(x, ast.Attribute) and isinstance(x.value, ast.Name) and x.value.id == 'self':
            return Poly.var('SELF_' + x.attr)          # a constant of the kernel instance (set by __init__, see attrs_of)
        if isinstance(x, ast.BinOp) and isinstance(x.op, ast.Div):
            a, b = conv(x.left), conv(x.right)
            if a is None or b is None:
                return None
            if b.is_const() and b.const_value() != 0:
                return a * Poly.const(1 / b.const_value())
            return None
        if isinstance(x, ast.BinOp):
            a, b = conv(x.left), conv(x.right)
            if a is None or b is None:
                return None
            if isinstance(x.op, ast.Add):
                return a + b
            if isinstance(x.op, ast.Sub):
                return a - b
            if isinstance(x.op, ast.Mult):
                return a * b
            if isinstance(x.op, ast.Pow) and b.is_const() and b.const_value().denominator == 1 and b.const_value() >= 0:
                return a ** int(b.const_value())
            return None
        if isinstance(x, ast.UnaryOp) and isinstance(x.op, ast.USub):
            a = conv(x.operand)
            return None if a is None else -a
        if isinstance(x, ast.Constant) and isinstance(x.value, (int, float)) and not isinstance(x.value, bool):
            return Poly.const(Fraction(x.value).limit_denominator(10 ** 15))
        if isinstance(x, ast.Name):
            return Poly.var(x.id)
        return None
    return conv(e)


def exp_derivs(polys):
    """{EXP atom: d(exponent)/dq} for every exponential atom occurring in the given polynomials"""
    ed = {}
    for p in polys:
        for a in p.atoms():
            if a.startswith('EXP{') and a not in ed:
                inner = to_poly(ast.parse(a[4:-1].replace('^', '**'), mode='eval').body)
                if inner is None:
                    return None
                g1 = ddq(inner, {})
                if g1 is None:
                    return None
                ed[a] = g1
    return ed


def ddq(p, ed):
    """d/dq of a polynomial in q whose EXP atoms have the given exponent derivatives"""
    out = Poly()
    for mono, c in p.t.items():
        d = dict(mono)
        for a, e in mono:
            if a == 'q':
                nd = dict(d)
                nd['q'] = e - 1
                out = out + Poly({tuple(sorted((k, v) for k, v in nd.items() if v)): c * e})
            elif a.startswith('EXP{'):
                if a not in ed:
                    return None
                nd = dict(d)
                nd[a] = e - 1
                base = Poly({tuple(sorted((k, v) for k, v in nd.items() if v)): c * e})
                out = out + base * Poly.var(a) * ed[a]
    return out



# -- sets of q values described by the branch tests (exact, rational end points) ------------------------------------------------
COND_AST = {}
INF = None


def _iv_norm(ivs):
    """sorted, merged list of (lo, lo_closed, hi, hi_closed); hi None = +inf; empty intervals dropped"""
    out = []
    for lo, lc, hi, hc in sorted(ivs, key=lambda t: (t[0], not t[1])):
        if hi is not None and (lo > hi or (lo == hi and not (lc and hc))):
            continue
        if out:
            plo, plc, phi, phc = out[-1]
            if phi is None or lo < phi or (lo == phi and (phc or lc)):
                nhi, nhc = (None, False) if (phi is None or hi is None) else ((phi, phc or (hc and hi == phi)) if phi >= hi else (hi, hc))
                if phi is not None and hi is not None and phi == hi:
                    nhc = phc or hc
                out[-1] = (plo, plc, nhi, nhc)
                continue
        out.append((lo, lc, hi, hc))
    return out


def iv_and(a, b):
    out = []
    for lo1, lc1, hi1, hc1 in a:
        for lo2, lc2, hi2, hc2 in b:
            if lo1 > lo2 or (lo1 == lo2 and not lc1):
                lo, lc = lo1, lc1 and (lc2 if lo1 == lo2 else True)
            else:
                lo, lc = lo2, lc2 and (lc1 if lo1 == lo2 else True)
            if hi1 is None:
                hi, hc = hi2, hc2
            elif hi2 is None:
                hi, hc = hi1, hc1
            elif hi1 < hi2 or (hi1 == hi2 and not hc1):
                hi, hc = hi1, hc1 and (hc2 if hi1 == hi2 else True)
            else:
                hi, hc = hi2, hc2 and (hc1 if hi1 == hi2 else True)
            out.append((lo, lc, hi, hc))
    return _iv_norm(out)


def iv_not(a):
    """complement within [0, inf)"""
    out = []
    cur, curc = Fraction(0), True          # next candidate start, closed?
    done = False
    for lo, lc, hi, hc in _iv_norm(a):
        out.append((cur, curc, lo, not lc))
        if hi is None:
            done = True
            break
        cur, curc = hi, not hc
    if not done:
        out.append((cur, curc, None, False))
    return _iv_norm(out)


def iv_or(a, b):
    return _iv_norm(list(a) + list(b))


FULL = [(Fraction(0), True, None, False)]


def qset_of(test):
    """the set of q >= 0 on which a branch test holds, or None when the test is not about q and constants alone"""
    def num(x):
        if isinstance(x, ast.Constant) and isinstance(x.value, (int, float)) and not isinstance(x.value, bool):
            return Fraction(str(x.value))
        if isinstance(x, ast.UnaryOp) and isinstance(x.op, ast.USub):
            v = num(x.operand)
            return None if v is None else -v
        return None

    def simple(l, op, r):
        lq, rq = isinstance(l, ast.Name) and l.id == 'q', isinstance(r, ast.Name) and r.id == 'q'
        if lq == rq:
            a, b = num(l), num(r)
            if a is None or b is None:
                return None
            ok = {'Lt': a < b, 'LtE': a <= b, 'Gt': a > b, 'GtE': a >= b, 'Eq': a == b, 'NotEq': a != b}.get(type(op).__name__)
            return None if ok is None else (FULL if ok else [])
        c = num(r if lq else l)
        if c is None:
            return None
        name = type(op).__name__
        if rq:
            name = {'Lt': 'Gt', 'LtE': 'GtE', 'Gt': 'Lt', 'GtE': 'LtE'}.get(name, name)
        if name == 'Gt':
            res = [(c, False, None, False)]
        elif name == 'GtE':
            res = [(c, True, None, False)]
        elif name == 'Lt':
            res = [(Fraction(0), True, c, False)]
        elif name == 'LtE':
            res = [(Fraction(0), True, c, True)]
        elif name == 'Eq':
            res = [(c, True, c, True)]
        elif name == 'NotEq':
            return iv_not([(c, True, c, True)])
        else:
            return None
        return iv_and(FULL, [(max(lo, Fraction(0)), lc if lo >= 0 else True, hi, hc) for lo, lc, hi, hc in res])
    if isinstance(test, ast.Compare):
        cur = FULL
        left = test.left
        for op, right in zip(test.ops, test.comparators):
            s1 = simple(left, op, right)
            if s1 is None:
                return None
            cur = iv_and(cur, s1)
            left = right
        return cur
    if isinstance(test, ast.BoolOp):
        parts = [qset_of(v) for v in test.values]
        if any(p_ is None for p_ in parts):
            return None
        cur = parts[0]
        for p_ in parts[1:]:
            cur = iv_and(cur, p_) if isinstance(test.op, ast.And) else iv_or(cur, p_)
        return cur
    if isinstance(test, ast.UnaryOp) and isinstance(test.op, ast.Not):
        p_ = qset_of(test.operand)
        return None if p_ is None else iv_not(p_)
    return None


def qdomain(conds):
    """the q values on which a leaf of the if-tree is taken (tests that are not about q are ignored)"""
    cur = FULL
    for t, v in conds:
        qs = qset_of(COND_AST[t]) if t in COND_AST else None
        if qs is None:
            continue
        cur = iv_and(cur, qs if v else iv_not(qs))
    return cur


def is_r0(conds):
    return any(t.startswith('rij') and not v for t, v in conds)


def qleaves(fn, keep_r0=False):
    """[(domain, return expression)] of the leaves of a kernel method"""
    out = []
    for conds, env in pieces(fn):
        if is_r0(conds) and not keep_r0:
            continue
        dom = qdomain(conds)
        if dom:
            out.append((dom, env.get('<return>'), conds))
    return out


def breakpoints(*leaflists):
    b = set([Fraction(0)])
    for ll in leaflists:
        for dom, _e, _c in ll:
            for lo, lc, hi, hc in dom:
                b.add(lo)
                if hi is not None:
                    b.add(hi)
    return sorted(b)


def leaf_at_point(leaves, x):
    for dom, e, c in leaves:
        for lo, lc, hi, hc in dom:
            if (lo < x or (lo == x and lc)) and (hi is None or x < hi or (x == hi and hc)):
                return (dom, e, c)
    return None


def leaf_on_open(leaves, a, b):
    """leaf that covers the open interval (a, b); b None = +inf"""
    for dom, e, c in leaves:
        for lo, lc, hi, hc in dom:
            if lo <= a and (hi is None or (b is not None and b <= hi)):
                return (dom, e, c)
    return None


def open_atoms(bps):
    return [(bps[i], bps[i + 1] if i + 1 < len(bps) else None) for i in range(len(bps))]


def merged_pieces(leaves, bps=None):
    """[(lo, hi, expr)] - maximal open intervals on which one leaf applies (hi None = +inf)"""
    bps = bps or breakpoints(leaves)
    out = []
    for a, b in open_atoms(bps):
        lf = leaf_on_open(leaves, a, b)
        if lf is None:
            raise ValueError('no branch covers %s < q < %s' % (a, b))
        if out and out[-1][2] is lf[1] and out[-1][1] == a:
            out[-1] = (out[-1][0], b, lf[1])
        else:
            out.append((a, b, lf[1]))
    return out


def iv_label(a, b):
    return '%s<q<%s' % (float(a), 'inf' if b is None else float(b))


def qkey(conds):
    return tuple((t, v) for t, v in conds if t.startswith('q'))


def rule_algebra(chk, pyk):
    """On every piece of the common refinement of the q-partitions of kernel / dwdq / gradient_h: dwdq == d(kernel)/dq and
    gradient_h == -h1*(DIM*kernel + q*dwdq) (= dW/dh); at every break point the value taken *at* the point agrees with the
    pieces on both sides (polynomial kernels: continuity at the knots, zero at the support edge, no point that falls through to
    another branch); the r == 0 alternative of a method equals its formula at q = 0."""
    n = 0
    # a parent-free parse: the piece extraction deep-copies sub-expressions
    fresh = ast.parse(M.read(KER))
    pyk = dict((c.name, c) for c in kernel_classes(fresh))
    for name, cls in sorted(pyk.items()):
        ms = M.methods(cls)
        try:
            L = dict((m, qleaves(ms[m])) for m in ('kernel', 'dwdq', 'gradient_h'))
            R0 = dict((m, [x for x in qleaves(ms[m], keep_r0=True) if is_r0(x[2])]) for m in ('kernel', 'dwdq', 'gradient_h'))
            bps = breakpoints(L['kernel'], L['dwdq'], L['gradient_h'])
            merged = []
            for a_, b_ in open_atoms(bps):
                tr = tuple(leaf_on_open(L[m], a_, b_) for m in ('kernel', 'dwdq', 'gradient_h'))
                if None in tr:
                    raise ValueError('no branch of %s covers %s < q < %s' % (('kernel', 'dwdq', 'gradient_h')[tr.index(None)], a_, b_))
                ex = tuple(x[1] for x in tr)
                if merged and merged[-1][1] == a_ and all(x is y for x, y in zip(merged[-1][2], ex)):
                    merged[-1] = (merged[-1][0], b_, ex)
                else:
                    merged.append((a_, b_, ex))
        except (ValueError, KeyError) as e:
            chk.undecided('sibling-algebra', name + ':pieces', node=cls, file=KER, func=name, detail='piece extraction failed: %s' % e)
            continue
        polys = {}
        for a_, b_, ex in merged:
            lab = iv_label(a_, b_)
            pk, pd, pg = [to_poly(x) if x is not None else None for x in ex]
            if None in (pk, pd, pg):
                chk.undecided('sibling-algebra', '%s@%s' % (name, lab), node=ms['kernel'], file=KER, func=name, detail='piece not polynomial/exponential in q')
                continue
            polys[(a_, b_)] = (pk, pd, pg)
            ed = exp_derivs([pk, pd, pg])
            want = ddq(pk, ed) if ed is not None else None
            if want is None:
                chk.undecided('sibling-algebra', '%s@%s' % (name, lab), node=ms['kernel'], file=KER, func=name, detail='cannot differentiate piece')
                continue
            n += 2
            wanth = -(Poly.var('h1') * (Poly.var('DIM') * pk + Poly.var('q') * pd))
            diff = want - pd
            diffh = wanth - pg
            own = sorted(a for x in (diff, diffh) for a in x.atoms() if a.startswith('SELF_') and a != 'SELF_FAC')
            if own:
                # constants precomputed by __init__ per dimension (self.<name>): the identities are checked for every supported dimension with
                # the values __init__ assigns
                bad_d = bad_h = None
                for dim in supported_dims(M.find_class(M.py(KER), name)):
                    try:
                        at_ = attrs_of(cls, dim)
                    except ValueError:
                        at_ = {}
                    sub = dict(('SELF_' + k_, v_) for k_, v_ in at_.items())
                    sub['DIM'] = Poly.const(dim)
                    sub = dict((k_, v_) for k_, v_ in sub.items() if k_ != 'SELF_fac')
                    d1, d2 = diff.subs(sub), diffh.subs(sub)
                    if any(a.startswith('SELF_') and a != 'SELF_FAC' for a in d1.atoms() | d2.atoms()):
                        bad_d = bad_h = 'undecided'
                        break
                    if not d1.is_zero() and bad_d is None:
                        bad_d = (dim, d1)
                    if not d2.is_zero() and bad_h is None:
                        bad_h = (dim, d2)
                if bad_d == 'undecided':
                    n -= 2
                    chk.undecided('sibling-algebra', '%s@%s' % (name, lab), node=ms['kernel'], file=KER, func=name, detail='instance constants %s are not numbers set by __init__' % own)
                    continue
                chk.decide(bad_d is None, 'sibling-algebra', '%s:dwdq=dW/dq@%s' % (name, lab), node=ms['dwdq'], file=KER, func=name + '.dwdq',
                           detail_bad='on %s, dim=%s: d(kernel)/dq - dwdq = %s' % ((lab,) + (bad_d or (None, None))), detail_ok='dwdq == d(kernel)/dq for every supported dimension')
                chk.decide(bad_h is None, 'sibling-algebra', '%s:gradient_h=dW/dh@%s' % (name, lab), node=ms['gradient_h'], file=KER, func=name + '.gradient_h',
                           detail_bad='on %s, dim=%s: dW/dh - gradient_h = %s' % ((lab,) + (bad_h or (None, None))), detail_ok='gradient_h == dW/dh for every supported dimension')
                continue
            chk.decide(diff.is_zero(), 'sibling-algebra', '%s:dwdq=dW/dq@%s' % (name, lab), node=ms['dwdq'], file=KER, func=name + '.dwdq',
                       detail_bad='on %s dwdq = %s but d(kernel)/dq = %s' % (lab, pd, want), detail_ok='dwdq == d(kernel)/dq')
            chk.decide(diffh.is_zero(), 'sibling-algebra', '%s:gradient_h=dW/dh@%s' % (name, lab), node=ms['gradient_h'], file=KER,
                       func=name + '.gradient_h',
                       detail_bad='on %s gradient_h = %s but dW/dh = -(1/h)*(dim*W + q*dW/dq) = %s (difference %s)' % (lab, pg, wanth, diffh),
                       detail_ok='gradient_h == dW/dh')
        # break points: the value taken at the point itself and the pieces on both sides
        rs = radius_scale_of(cls)
        for mi, m in enumerate(('kernel', 'dwdq', 'gradient_h')):
            for kx in bps:
                left = [pp for (a_, b_), pp in polys.items() if b_ == kx]
                right = [pp for (a_, b_), pp in polys.items() if a_ == kx]
                at = leaf_at_point(L[m], kx)
                pa = to_poly(at[1]) if at is not None and at[1] is not None else None
                pl = left[0][mi] if left else None
                pr = right[0][mi] if right else None
                if pa is None or (pl is None and pr is None):
                    continue
                if any(a.startswith('EXP{') for x in (pa, pl, pr) if x is not None for a in x.atoms()):
                    if m == 'kernel' and kx == rs:
                        chk.note('%s: the value at q=%g is the truncation of an exponential tail; continuity there is not claimed by the property' % (name, kx))
                    continue
                qv = {'q': Poly.const(kx)}
                va = pa.subs(qv)
                vl = pl.subs(qv) if pl is not None else None
                vr = pr.subs(qv) if pr is not None else None
                if kx == rs:
                    if m != 'kernel':
                        continue
                    n += 1
                    if vl is None or vr is None:
                        n -= 1
                        continue
                    ok = (vl - vr).is_zero() and (va - vr).is_zero()
                    chk.decide(ok, 'sibling-algebra', '%s:vanishes-at-support-edge' % name, node=ms['kernel'], file=KER, func=name + '.kernel',
                               detail_bad='kernel pieces disagree at q=%g: %s from below, %s at the point, %s from above' % (kx, vl, va, vr), detail_ok='%s on both sides' % vl)
                    continue
                sides = [v for v in (vl, vr) if v is not None]
                cont = all((v - va).is_zero() for v in sides)
                if m == 'kernel' or not cont:
                    # kernel: continuity at every knot.  dwdq / gradient_h: only reported when the *point* disagrees with both sides being equal
                    # (a point that falls through to another branch); a genuine kink of the derivative is not judged
                    if m != 'kernel' and len(sides) == 2 and not (sides[0] - sides[1]).is_zero():
                        continue
                    n += 1
                    chk.decide(cont, 'sibling-algebra', '%s:%s-continuous-at-q=%g' % (name, m, float(kx)), node=ms[m], file=KER, func='%s.%s' % (name, m),
                               detail_bad='%s at exactly q=%g is %s but the adjoining pieces give %s from below and %s from above: the point belongs to the wrong branch'
                                          % (m, float(kx), va, vl, vr), detail_ok='%s at the knot and on both sides' % va)
        # the r == 0 alternative of each method equals its formula at q = 0
        for mi, m in enumerate(('kernel', 'dwdq', 'gradient_h')):
            for dom, e, conds in R0[m]:
                main = leaf_at_point(L[m], Fraction(0))
                pm = to_poly(main[1]) if main is not None and main[1] is not None else None
                p0 = to_poly(e) if e is not None else None
                if pm is None or p0 is None:
                    continue
                n += 1
                v0 = pm.subs({'q': Poly.const(0)})
                chk.decide((p0.subs({'q': Poly.const(0)}) - v0).is_zero(), 'sibling-algebra', '%s:%s-at-r=0' % (name, m), node=ms[m], file=KER, func='%s.%s' % (name, m),
                           detail_bad='for rij <= eps %s returns %s but its formula at q = 0 gives %s: coincident particles / the self term get a wrong value' % (m, p0, v0),
                           detail_ok='the r = 0 alternative equals the formula at q = 0 (%s)' % v0)
    chk.floor('algebraic sibling obligations', n, 40)


SQ = 'SQRTPI'


def pi_pow(k):
    """pi ** (k/2) as a Laurent monomial in sqrt(pi)"""
    return Poly.const(1) if k == 0 else Poly({((SQ, k),): Fraction(1)})


def gamma_half(m):
    """Gamma(m/2) for a positive integer m, as a Laurent polynomial in sqrt(pi)"""
    if m == 1:
        return pi_pow(1)
    if m == 2:
        return Poly.const(1)
    return gamma_half(m - 2) * Poly.const(Fraction(m - 2, 2))


def attrs_of(cls, dim):
    """the numeric attributes __init__ sets for this dim, each a Laurent polynomial in sqrt(pi) (attributes of another form are left out)"""
    init = M.methods(cls).get('__init__')
    consts = {'M_1_PI': pi_pow(-2), 'M_2_SQRTPI': pi_pow(-1) * Poly.const(2), 'pi': pi_pow(2), 'dim': Poly.const(dim)}
    vals = {}
    locs = {}          # plain locals of __init__ (a factor accumulated in a local and stored once at the end)

    def ev(e):
        if isinstance(e, ast.Constant) and isinstance(e.value, (int, float)) and not isinstance(e.value, bool):
            return Poly.const(Fraction(e.value).limit_denominator(10 ** 12))
        if isinstance(e, ast.Name) and e.id in locs:
            return locs[e.id]
        if isinstance(e, ast.Name) and e.id in consts:
            return consts[e.id]
        if isinstance(e, ast.Attribute) and isinstance(e.value, ast.Name) and e.value.id == 'self' and e.attr in vals:
            return vals[e.attr]
        if isinstance(e, ast.UnaryOp) and isinstance(e.op, ast.USub):
            return -ev(e.operand)
        if isinstance(e, ast.BinOp) and isinstance(e.op, (ast.Mult, ast.Div, ast.Add, ast.Sub)):
            a, b = ev(e.left), ev(e.right)
            if isinstance(e.op, ast.Mult):
                return a * b
            if isinstance(e.op, ast.Add):
                return a + b
            if isinstance(e.op, ast.Sub):
                return a - b
            if b.is_const() and not b.is_zero():
                return a * Poly.const(1 / b.const_value())
        raise ValueError(compact(e))

    def truth(t):
        if isinstance(t, ast.Compare) and len(t.ops) == 1:
            l, op, r = t.left, type(t.ops[0]), t.comparators[0]
            if isinstance(l, ast.Constant) and compact(r) in ('dim', 'self.dim'):
                l, r = r, l
                op = {ast.Gt: ast.Lt, ast.Lt: ast.Gt, ast.GtE: ast.LtE, ast.LtE: ast.GtE}.get(op, op)
            if compact(l) in ('dim', 'self.dim') and isinstance(r, ast.Constant):
                c = r.value
                return {ast.Eq: dim == c, ast.NotEq: dim != c, ast.Gt: dim > c, ast.GtE: dim >= c, ast.Lt: dim < c, ast.LtE: dim <= c}[op]
            if compact(l) in ('dim', 'self.dim') and isinstance(r, (ast.Tuple, ast.List, ast.Set)) and all(isinstance(x_, ast.Constant) for x_ in r.elts) and op in (ast.In, ast.NotIn):
                return (dim in [x_.value for x_ in r.elts]) == (op is ast.In)
        if isinstance(t, ast.BoolOp):
            vals = [truth(v) for v in t.values]
            return all(vals) if isinstance(t.op, ast.And) else any(vals)
        if isinstance(t, ast.UnaryOp) and isinstance(t.op, ast.Not):
            return not truth(t.operand)
        raise ValueError(compact(t))

    def run(stmts):
        for s_ in stmts:
            if isinstance(s_, ast.If):
                run(s_.body if truth(s_.test) else s_.orelse)
            elif isinstance(s_, ast.Assign) and isinstance(s_.targets[0], ast.Attribute) and compact(s_.targets[0].value) == 'self':
                try:
                    vals[s_.targets[0].attr] = ev(s_.value)
                except ValueError:
                    if s_.targets[0].attr == 'fac':
                        raise
                    vals.pop(s_.targets[0].attr, None)
            elif isinstance(s_, ast.Assign) and len(s_.targets) == 1 and isinstance(s_.targets[0], ast.Name):
                try:
                    locs[s_.targets[0].id] = ev(s_.value)
                except ValueError:
                    locs.pop(s_.targets[0].id, None)
            elif isinstance(s_, ast.AugAssign) and isinstance(s_.target, ast.Name) and s_.target.id in locs and isinstance(s_.op, (ast.Mult, ast.Div, ast.Add, ast.Sub)):
                try:
                    locs[s_.target.id] = ev(ast.BinOp(left=ast.Name(id=s_.target.id, ctx=ast.Load()), op=s_.op, right=s_.value))
                except ValueError:
                    locs.pop(s_.target.id, None)
            elif isinstance(s_, ast.AugAssign) and isinstance(s_.target, ast.Attribute) and compact(s_.target.value) == 'self' and isinstance(s_.op, ast.Mult) \
                    and s_.target.attr in vals:
                try:
                    vals[s_.target.attr] = vals[s_.target.attr] * ev(s_.value)
                except ValueError:
                    if s_.target.attr == 'fac':
                        raise
                    vals.pop(s_.target.attr, None)
    run(init.body)
    return vals


def fac_of(cls, dim):
    """self.fac as set by __init__ for this dim: a Laurent polynomial in sqrt(pi) (None when not of that form)"""
    return attrs_of(cls, dim).get('fac')


def interval_of(qc, rs):
    lo, hi = 0.0, None
    for t, v in qc:
        c = float(t[2:].lstrip('='))
        gt = t[1] == '>'
        if gt == v:
            lo = max(lo, c)
        else:
            hi = c if hi is None else min(hi, c)
    return lo, hi


def rule_normalisation(chk, pyk):
    """integral of W over space = 1 for every class and supported dimension: exact integration of the polynomial pieces (times q^(d-1), surface of the unit sphere),
    Gaussian moments in closed form for the exponential family (over all space: the tail beyond the cut-off is the truncation the property allows)"""
    fresh = ast.parse(M.read(KER))
    classes = dict((c.name, c) for c in kernel_classes(fresh))
    n = 0
    for name, cls in sorted(classes.items()):
        ms = M.methods(cls)
        rs = radius_scale_of(cls)
        try:
            kq = merged_pieces(qleaves(ms['kernel']))
        except (ValueError, KeyError) as e:
            chk.undecided('integrates-to-one', name, node=cls, file=KER, func=name, detail='piece extraction failed: %s' % e)
            continue
        for dim in supported_dims(M.find_class(M.py(KER), name)):
            inst = '%s[dim=%d]' % (name, dim)
            try:
                attrs = attrs_of(cls, dim)
                fac = attrs.get('fac')
            except ValueError as e:
                fac, attrs = None, {}
            if fac is None:
                chk.undecided('integrates-to-one', inst, node=cls, file=KER, func=name + '.__init__', detail='normalising factor is not a closed form in pi')
                continue
            total = Poly()
            okform = True
            for lo, hi, e in kq:
                pk = to_poly(e) if e is not None else None
                if pk is None:
                    okform = False
                    break
                if pk.is_zero():
                    continue
                g = pk.subs({'FAC': Poly.const(1)})
                g = g.subs(dict(('SELF_' + k_, v_) for k_, v_ in attrs.items() if k_ not in ('fac', 'dim') and 'SELF_' + k_ in g.atoms()))
                exps = [a for a in g.atoms() if a.startswith('EXP{')]
                if not exps:
                    if hi is None or set(g.atoms()) - set(['q']):
                        okform = False
                        break
                    # sum_k c_k q^(k+d-1) integrated exactly between the rational knots
                    a_, b_ = lo, hi
                    for mono, c in g.t.items():
                        k = dict(mono).get('q', 0) + dim
                        total = total + Poly.const(c * (b_ ** k - a_ ** k) / k)
                else:
                    if exps != ['EXP{-q^2}'] and exps != ['EXP{-1*q^2}']:
                        inner = to_poly(ast.parse(exps[0][4:-1].replace('^', '**'), mode='eval').body)
                        if len(exps) != 1 or inner is None or not (inner + Poly.var('q') * Poly.var('q')).is_zero():
                            okform = False
                            break
                    rest = g.subs({exps[0]: Poly.const(1)})
                    if set(rest.atoms()) - set(['q', 'DIM']):
                        okform = False
                        break
                    rest = rest.subs({'DIM': Poly.const(dim)})
                    # int_0^inf q^m exp(-q^2) dq = Gamma((m+1)/2)/2
                    for mono, c in rest.t.items():
                        m_ = dict(mono).get('q', 0) + dim - 1
                        total = total + gamma_half(m_ + 1) * Poly.const(Fraction(c) / 2)
            if not okform:
                chk.undecided('integrates-to-one', inst, node=ms['kernel'], file=KER, func=name + '.kernel', detail='kernel piece is neither polynomial in q nor (polynomial) * exp(-q^2)')
                continue
            surface = gamma_half(dim)           # S_d = 2 pi^(d/2) / Gamma(d/2)
            lhs = fac * total * pi_pow(dim) * Poly.const(2)
            n += 1
            ok = (lhs - surface).is_zero()
            chk.decide(ok, 'integrates-to-one', inst, node=ms['kernel'], file=KER, func=name,
                       detail_bad='fac * S_%d * int W(q) q^%d dq = %s / Gamma(%d/2)=%s, not 1: the kernel does not integrate to one in %dD (normalising constant or a piece coefficient is off)'
                                  % (dim, dim - 1, lhs, dim, surface, dim), detail_ok='exact: fac_%d * S_%d * integral = 1' % (dim, dim))
    chk.floor('kernel x dimension normalisations', n, 18)


# -- exact sign of a univariate polynomial on an interval (Sturm sequences over the rationals) --------------------------------
def upoly(p):
    """coefficient list [c0, c1, ...] of a Poly in q only (None otherwise)"""
    out = {}
    for mono, c in p.t.items():
        d = dict(mono)
        if set(d) - set(['q']):
            return None
        out[d.get('q', 0)] = Fraction(c)
    n = max(out) if out else 0
    return [out.get(k, Fraction(0)) for k in range(n + 1)]


def utrim(a):
    a = list(a)
    while a and a[-1] == 0:
        a.pop()
    return a


def urem(a, b):
    a, b = utrim(a), utrim(b)
    while len(a) >= len(b) and a:
        f = a[-1] / b[-1]
        sh = len(a) - len(b)
        for i, c in enumerate(b):
            a[i + sh] -= f * c
        a = utrim(a)
    return a


def ueval(a, x):
    r = Fraction(0)
    for c in reversed(a):
        r = r * x + c
    return r


def roots_in(a, lo, hi):
    """number of distinct real roots of a in the open interval (lo, hi); endpoints that are roots are divided out first"""
    a = utrim(a)
    if not a:
        return None
    for x in (lo, hi):
        while len(a) > 1 and ueval(a, x) == 0:
            # divide by (q - x)
            b = [Fraction(0)] * (len(a) - 1)
            carry = Fraction(0)
            for i in range(len(a) - 1, 0, -1):
                carry = a[i] + carry * x
                b[i - 1] = carry
            a = utrim(b)
    d = [a[i] * i for i in range(1, len(a))]
    seq = [a, utrim(d)]
    while seq[-1]:
        r = urem(seq[-2], seq[-1])
        seq.append([-c for c in r])
    seq = [s_ for s_ in seq if s_]

    def changes(x):
        vals = [ueval(s_, x) for s_ in seq]
        vals = [v for v in vals if v != 0]
        return sum(1 for u, w in zip(vals, vals[1:]) if (u > 0) != (w > 0))
    return changes(lo) - changes(hi)


def rule_monotone(chk, pyk):
    """W is non-increasing in q on every piece (exact: dW/dq has no sign change inside the piece and is <= 0 at its midpoint); with W = 0 at the support edge
    this also gives W >= 0.  The super-Gaussian is excluded by the property."""
    fresh = ast.parse(M.read(KER))
    classes = dict((c.name, c) for c in kernel_classes(fresh))
    n = 0
    for name, cls in sorted(classes.items()):
        if name == 'SuperGaussian':
            chk.note('SuperGaussian: negative tail by construction, monotonicity / sign not required by the property')
            continue
        ms = M.methods(cls)
        rs = radius_scale_of(cls)
        try:
            dq = merged_pieces(qleaves(ms['dwdq']))
        except (ValueError, KeyError) as e:
            chk.undecided('non-increasing', name, node=cls, file=KER, func=name, detail='piece extraction failed: %s' % e)
            continue
        for lo, hi, e in dq:
            pd = to_poly(e) if e is not None else None
            inst = '%s@%s' % (name, iv_label(lo, hi))
            if pd is None:
                chk.undecided('non-increasing', inst, node=ms['dwdq'], file=KER, func=name + '.dwdq', detail='piece not polynomial')
                continue
            if pd.is_zero():
                continue
            g = pd.subs({'FAC': Poly.const(1), 'h1': Poly.const(1)})
            exps = [a for a in g.atoms() if a.startswith('EXP{')]
            if exps:
                g = g.subs(dict((a, Poly.const(1)) for a in exps))      # exp(.) > 0 does not change the sign
            u = upoly(g)
            if u is None or hi is None:
                chk.undecided('non-increasing', inst, node=ms['dwdq'], file=KER, func=name + '.dwdq', detail='derivative piece is not a polynomial in q on a bounded interval')
                continue
            a_, b_ = lo, hi
            k = roots_in(u, a_, b_)
            mid = ueval(u, (a_ + b_) / 2)
            n += 1
            chk.decide(k == 0 and mid <= 0, 'non-increasing', inst, node=ms['dwdq'], file=KER, func=name + '.dwdq',
                       detail_bad='on %g < q < %g dW/dq (up to the positive factor fac/h) is %s: %s sign change(s) inside, value %s at the midpoint - the kernel is not non-increasing there'
                                  % (lo, hi, g, k, mid), detail_ok='no root of dW/dq in (%g, %g), negative at the midpoint (Sturm sequence, exact)' % (lo, hi))
    chk.floor('pieces with exact monotonicity', n, 12)


def main(chk):
    chk.explanation = ('(a) translation validation of the committed compiled kernels against kernels.py (statement-level AST equality of every '
                       'method, attribute coverage, wrappers, template class list); (b) dimensional type inference (powers of length) of '
                       'kernel/dwdq/gradient/gradient_h for every class and supported dim; (c) outermost q cut-off equals radius_scale and the '
                       'value beyond is zero; (d) divisions by r guarded with a zero alternative; (f) algebraic agreement of sibling methods on '
                       'each piece of the q-partition: dwdq == d(kernel)/dq (polynomial/exponential normal form), continuity at knots and zero '
                       'at the support edge for polynomial kernels, gradient_h = -fac*h1*(dw*q + w*dim) with the same pieces.')
    pyk = rule_twin(chk)
    rule_dimensions(chk, pyk)
    rule_symbol_definitions(chk, pyk)
    rule_symbol_definitions(chk, dict((c.name, c) for c in M.classes(M.cy(CK)) if 'kernel' in M.methods(c) and 'gradient' in M.methods(c) and not c.name.endswith('Wrapper')), file=CK)
    rule_cutoff(chk, pyk)
    rule_r0(chk, pyk)
    rule_gradient_form(chk, pyk)
    rule_algebra(chk, pyk)
    rule_normalisation(chk, pyk)
    rule_monotone(chk, pyk)
    chk.extra['programs'] = len(pyk) * len(METHODS)
    chk.extra['disagreements_checked'] = len([o for o in chk.obs if o.rule == 'compiled-twin'])
    chk.assume('W >= 0 follows from non-increasing + zero at the support edge (both decided) for the polynomial kernels; for the Gaussian family the integral is taken over all space (the tail beyond the cut-off is neglected, as the property allows)')
    chk.assume('compyle generated c_kernels.pyx; only its agreement with kernels.py is checked, not compyle itself')


if __name__ == '__main__':
    run_check('C08', main, level='translation_validation')
