"""C13 - small dense linear-algebra helpers (static rules, DESIGN.md C13)."""
import ast
import os
import sys

sys.path.insert(0, os.path.dirname(os.path.dirname(os.path.abspath(__file__))))
from verif_static.core import run_check, AnalysisError, VERIF  # noqa
from verif_static.norm import same  # noqa
from verif_static import model as M, cfg as C, affine as A  # noqa
from verif_static.poly import Poly, from_ast  # noqa

LA = 'pysph/sph/wc/linalg.py'
HELPERS = ('identity', 'dot', 'mat_mult', 'mat_vec_mult', 'augmented_matrix')


def compact(n):
    return M.unparse(n).replace(' ', '')


def U(n):
    return M.unparse(n)


def rule_helpers(chk):
    t = M.py(LA)
    ref = M.set_parents(ast.parse(open(os.path.join(VERIF, 'fixtures', 'linalg_ref.py')).read()))
    for name in HELPERS:
        fn = M.find_func(t, name)
        rf = M.find_func(ref, name)
        try:
            want, _, _ = A.signature(rf)
        except A.Unknown as e:
            raise AnalysisError('reference definition of %s not analysable: %s' % (name, e))
        try:
            got, stores, ex = A.signature(fn)
        except A.Unknown as e:
            chk.undecided('helper-signature', name, node=fn, file=LA, func=name,
                          detail='access signature not derivable: %s' % e)
            continue
        # parameter list must carry the same symbols the signature is written in
        if got == want:
            chk.holds('helper-signature', name, node=fn, file=LA, func=name, detail=' ; '.join(got))
        else:
            bad = [s for s in got if s not in want]
            miss = [s for s in want if s not in got]
            node = fn
            for s in stores:
                if A.canonical(s) in bad:
                    node = s.node
                    break
            chk.violated('helper-signature', name, node=node, file=LA, func=name,
                         detail='computes {%s} but the definition is {%s}' % (' ; '.join(bad) or '-', ' ; '.join(miss) or '-'))


def copyprop(stmts_before, name):
    """resolve simple copies `a = b` textually preceding (same block)"""
    cur = name
    for s in reversed(stmts_before):
        if isinstance(s, ast.Assign) and len(s.targets) == 1 and U(s.targets[0]) == cur and isinstance(s.value, ast.Name):
            cur = s.value.id
    return cur


def _subst(e, mapping):
    """copy of expression / statement `e` with Name loads replaced by the expressions in `mapping`"""
    from verif_static import norm as N_

    class R(ast.NodeTransformer):
        def visit_Name(self, n):
            if isinstance(n.ctx, ast.Load) and n.id in mapping:
                return N_.clone(mapping[n.id])
            return n
    return R().visit(N_.clone(e))


def normalise_gj(fn):
    """gj_solve in the normal form the rules below are written against - the same computation:
    (a) a plain copy of the loop variable made at the top of a loop body (`col = rrcol`), never assigned again in that body, is replaced by the loop variable;
    (b) a temporary assigned once in a loop body and read only in the statement that follows (`cand = abs(...)`; `if cand > big:`) is written in place;
    (c) a shadow of the search result - a variable B that is assigned next to every assignment `I = R` of an index variable, always as the same expression F(R) (`bigrow = row;
        big = abs(m[nt*row + col])`) - is replaced by F(I) and its assignments dropped: B == F(I) is an invariant."""
    from verif_static import norm as N_
    new = M.descending_ranges_ascending(fn)          # (e) `for rb in range(eqns - 1, -1, -1)` is `for k in range(eqns): rb = eqns - 1 - k`

    def stores(node, name):
        return [x for x in ast.walk(node) if isinstance(x, ast.Name) and x.id == name and isinstance(x.ctx, ast.Store)]
    # (a)
    for loop in [l for l in ast.walk(new) if isinstance(l, ast.For) and isinstance(l.target, ast.Name)]:
        lv = loop.target.id
        keep = []
        mapping = {}
        for st in loop.body:
            if isinstance(st, ast.Assign) and len(st.targets) == 1 and isinstance(st.targets[0], ast.Name) and isinstance(st.value, ast.Name) and st.value.id == lv \
                    and len(stores(loop, st.targets[0].id)) == 1 and not mapping.get(st.targets[0].id):
                mapping[st.targets[0].id] = ast.Name(id=lv, ctx=ast.Load())
                continue
            keep.append(_subst(st, mapping) if mapping else st)
        loop.body = keep or [ast.Pass()]
    # (b)
    for blk_owner in [n for n in ast.walk(new) if isinstance(n, (ast.For, ast.If, ast.FunctionDef, ast.While))]:
        for fld in ('body', 'orelse'):
            blk = getattr(blk_owner, fld, None)
            if not isinstance(blk, list):
                continue
            out = []
            k = 0
            while k < len(blk):
                st = blk[k]
                if k + 1 < len(blk) and isinstance(st, ast.Assign) and len(st.targets) == 1 and isinstance(st.targets[0], ast.Name) and isinstance(st.value, ast.Call):
                    nm = st.targets[0].id
                    uses_later = any(isinstance(x, ast.Name) and x.id == nm for later in blk[k + 2:] for x in ast.walk(later))
                    if len(stores(new, nm)) == 1 and not uses_later and not any(isinstance(x, ast.Name) and x.id == nm and isinstance(x.ctx, ast.Store) for x in ast.walk(blk[k + 1])):
                        blk[k + 1] = _subst(blk[k + 1], {nm: st.value})
                        k += 1
                        continue
                out.append(st)
                k += 1
            setattr(blk_owner, fld, out or [ast.Pass()])
    # (d) `if T: ...; return v  else: REST` is `if T: ...; return v` followed by REST
    def flatten(stmts):
        out = []
        for st in stmts:
            for fld in ('body', 'orelse'):
                if isinstance(getattr(st, fld, None), list) and not isinstance(st, ast.FunctionDef):
                    setattr(st, fld, flatten(getattr(st, fld)))
            if isinstance(st, ast.If) and st.orelse and st.body and isinstance(st.body[-1], (ast.Return, ast.Raise)):
                rest = st.orelse
                st.orelse = []
                out.append(st)
                out.extend(rest)
            else:
                out.append(st)
        return out
    new.body = flatten(new.body)
    # (c)
    M.set_parents(new)
    assigns = {}
    for a in ast.walk(new):
        if isinstance(a, ast.Assign) and len(a.targets) == 1 and isinstance(a.targets[0], ast.Name):
            assigns.setdefault(a.targets[0].id, []).append(a)
    for B, alist in sorted(assigns.items()):
        if len(alist) < 2:
            continue
        pairs = []
        for a in alist:
            par = a.parent
            blk = next((getattr(par, f_) for f_ in ('body', 'orelse') if isinstance(getattr(par, f_, None), list) and a in getattr(par, f_)), None)
            sib = [x for x in (blk or []) if isinstance(x, ast.Assign) and x is not a and len(x.targets) == 1 and isinstance(x.targets[0], ast.Name) and isinstance(x.value, ast.Name)]
            pairs.append((a, sib))
        idx_names = set.intersection(*[set(x.targets[0].id for x in sib) for a, sib in pairs]) if pairs else set()
        for I in sorted(idx_names):
            if I == B:
                continue
            rs = [next(x.value.id for x in sib if x.targets[0].id == I) for a, sib in pairs]
            # F from an assignment whose R occurs nowhere else in its expression
            F = None
            for (a, sib), R in zip(pairs, rs):
                cand = _subst(a.value, {R: ast.Name(id=I, ctx=ast.Load())})
                if all(U(_subst(cand, {I: ast.Name(id=R2, ctx=ast.Load())})) == U(a2.value) for (a2, s2), R2 in zip(pairs, rs)):
                    F = cand
                    break
            if F is None:
                continue
            for a, sib in pairs:
                par = a.parent
                for f_ in ('body', 'orelse'):
                    blk = getattr(par, f_, None)
                    if isinstance(blk, list) and a in blk:
                        blk.remove(a)
                        if not blk:
                            blk.append(ast.Pass())

            class RB(ast.NodeTransformer):
                def visit_Name(self, n):
                    if isinstance(n.ctx, ast.Load) and n.id == B:
                        return N_.clone(F)
                    return n
            new = RB().visit(new)
            break
    ast.fix_missing_locations(new)
    M.set_parents(new)
    return new


def rule_gj(chk):
    t = M.py(LA)
    fn = normalise_gj(M.find_func(t, 'gj_solve'))
    ints = {}
    for s in fn.body:
        if isinstance(s, ast.Assign) and isinstance(s.targets[0], ast.Name) and not isinstance(s.value, ast.Call):
            p = from_ast(s.value, ints)
            if p is not None:
                ints[s.targets[0].id] = p
    width = Poly.var('n') + Poly.var('nb')

    def P(e, env=None):
        d = dict(ints)
        d.update(env or {})
        return from_ast(e, d)

    # --- locate the elimination: a division whose denominator is the diagonal entry m[nt*p + p]
    elim = None
    for loop in [l for l in fn.body if isinstance(l, ast.For)]:
        pv = U(loop.target)
        for inner in ast.walk(loop):
            if isinstance(inner, ast.For) and inner is not loop:
                divs = [d for d in ast.walk(inner) if isinstance(d, ast.BinOp) and isinstance(d.op, ast.Div)]
                for d in divs:
                    den = d.right
                    # resolve `dnr = float(m[...])`
                    if isinstance(den, ast.Name):
                        dname = den.id
                        for a in ast.walk(loop):          # (read in the row loop, or hoisted in front of it: the pivot row is not touched while the rows below are cleared)
                            if isinstance(a, ast.Assign) and U(a.targets[0]) == dname:
                                den = a.value
                    if isinstance(den, ast.Call) and M.call_name(den) == 'float':
                        den = den.args[0]
                    if isinstance(den, ast.Subscript) and U(den.value) == 'm':
                        idx = P(den.slice)
                        if idx is not None and idx == width * Poly.var(pv) + Poly.var(pv):
                            rng = A._range(inner.iter, ints)
                            if rng[0] == Poly.var(pv) + Poly.const(1):
                                elim = (loop, inner, pv)
        if elim:
            break
    if elim is None:
        chk.undecided('gj-pivot-drives-row-exchange', 'elimination', node=fn, file=LA, func='gj_solve',
                      detail='cannot locate the forward elimination (division by the diagonal entry)')
        return
    loop, inner, pv = elim
    body = loop.body
    pos = body.index(inner) if inner in body else None
    if pos is None:
        chk.undecided('gj-pivot-drives-row-exchange', 'elimination', node=inner, file=LA, func='gj_solve',
                      detail='elimination loop is not a direct child of the pivot-column loop')
        return
    before = body[:pos]
    # --- pivot search inside the same iteration, before elimination
    search = None
    for s in before:
        if isinstance(s, ast.For):
            lo, hi = A._range(s.iter, ints)
            rv = U(s.target)
            for i in ast.walk(s):
                if isinstance(i, ast.If) and isinstance(i.test, ast.Compare) and isinstance(i.test.ops[0], (ast.Gt, ast.GtE, ast.Lt, ast.LtE)) \
                        and M.call_name(i.test.left) in ('abs', 'fabs') and M.call_name(i.test.comparators[0]) in ('abs', 'fabs'):
                    # |candidate| > |best so far|, in either spelling
                    big_side, small_side = (i.test.left, i.test.comparators[0]) if isinstance(i.test.ops[0], (ast.Gt, ast.GtE)) else (i.test.comparators[0], i.test.left)
                    cand = big_side.args[0]
                    best = small_side.args[0]
                    asg = [b for b in i.body if isinstance(b, ast.Assign) and isinstance(b.targets[0], ast.Name)
                           and U(b.value) == rv]
                    if asg and isinstance(cand, ast.Subscript) and isinstance(best, ast.Subscript):
                        search = (s, i, rv, U(asg[0].targets[0]), cand, best, lo, hi)
    if search is None:
        # is there a search anywhere else in the function (wrong place)?
        anywhere = [i for i in ast.walk(fn) if isinstance(i, ast.If) and isinstance(i.test, ast.Compare)
                    and M.call_name(i.test.left) == 'abs' and M.call_name(i.test.comparators[0]) == 'abs']
        chk.violated('gj-pivot-drives-row-exchange', 'search-before-elimination', node=anywhere[0] if anywhere else inner,
                     file=LA, func='gj_solve',
                     detail='no arg-max search over the rows below the diagonal precedes the elimination of a column in '
                            'the same pass' + ('; the search at line %d runs in a separate loop, before any elimination, '
                                               'so later pivots are chosen from stale rows' % anywhere[0].lineno if anywhere else ''))
        return
    sloop, sif, rv, big, cand, best, lo, hi = search
    sidx = body.index(sloop)
    pre = body[:sidx]
    colv = None
    # column variable used by the search; must be congruent with the pivot column
    env = {}
    for s in pre:
        if isinstance(s, ast.Assign) and isinstance(s.targets[0], ast.Name) and isinstance(s.value, ast.Name):
            env[s.targets[0].id] = env.get(s.value.id, Poly.var(s.value.id))
    pvP = Poly.var(pv)
    seed = env.get(big)
    env.pop(big, None)      # big is the search result, keep it symbolic below
    ci = P(cand.slice, env)
    bi = P(best.slice, env)
    ok_search = ci == width * Poly.var(rv) + pvP and bi == width * Poly.var(big) + pvP
    seed_ok = seed == pvP
    # (a scan that starts at the pivot row itself compares the seed with itself first: the same search)
    rng_ok = (lo.subs(env) == pvP + Poly.const(1) or lo.subs(env) == pvP) and hi == Poly.var('n')
    chk.decide(ok_search, 'gj-pivot-drives-row-exchange', 'search-compares-pivot-column', node=sif, file=LA, func='gj_solve',
               detail_bad='search compares %s with %s, expected |m[row, col]| > |m[big, col]| in the pivot column' % (U(cand), U(best)),
               detail_ok='|m[row,col]| > |m[big,col]|')
    chk.decide(seed_ok and rng_ok, 'gj-pivot-drives-row-exchange', 'search-range', node=sloop, file=LA, func='gj_solve',
               detail_bad='search must start from big = col and scan rows col+1..n-1 (seed %s, range [%s,%s))' % (seed, lo, hi),
               detail_ok='big = col; rows col+1..n-1')
    # the search must not mutate m (a swap with big == row is a no-op and hides the missing exchange)
    noop = [b for b in ast.walk(sloop) if isinstance(b, ast.Assign) and isinstance(b.targets[0], ast.Subscript)
            and U(b.targets[0].value) == 'm']
    if noop:
        # three-statement swap whose two locations are congruent because big was just set to row
        chk.violated('gj-pivot-drives-row-exchange', 'swap-is-noop', node=noop[0], file=LA, func='gj_solve',
                     detail='inside the search %s was just assigned %s, so exchanging m[..%s..] with m[..%s..] exchanges an '
                            'element with itself' % (big, rv, rv, big))
    # --- row exchange between search and elimination
    between = body[sidx + 1:pos]
    exch = None
    for s in between:
        cands = [s] + ([x for x in s.body] if isinstance(s, ast.If) else [])
        for c in cands:
            if isinstance(c, ast.For):
                jv = U(c.target)
                st = [b for b in c.body if isinstance(b, ast.Assign)]
                if len(st) == 3 and isinstance(st[1].targets[0], ast.Subscript) and isinstance(st[2].targets[0], ast.Subscript):
                    tmp = U(st[0].targets[0])
                    l1, l2 = st[1].targets[0], st[2].targets[0]
                    swap = U(st[0].value) == U(l1) and U(st[1].value) == U(l2) and U(st[2].value) == tmp
                    exch = (c, jv, l1, l2, swap, s)
    if exch is None:
        chk.violated('gj-pivot-drives-row-exchange', 'row-exchange', node=sloop, file=LA, func='gj_solve',
                     detail='the row found by the pivot search (%s) never reaches a row exchange before the division by '
                            'the diagonal entry: the search result is dead' % big)
        return
    c, jv, l1, l2, swap, holder = exch
    lo2, hi2 = A._range(c.iter, ints)
    i1, i2 = P(l1.slice, env), P(l2.slice, env)
    rows = {str(i1), str(i2)} == {str(width * pvP + Poly.var(jv)), str(width * Poly.var(big) + Poly.var(jv))}
    chk.decide(swap and rows, 'gj-pivot-drives-row-exchange', 'row-exchange', node=c, file=LA, func='gj_solve',
               detail_bad='exchange does not swap m[col, j] with m[%s, j] (got %s <-> %s)' % (big, U(l1), U(l2)),
               detail_ok='m[col, j] <-> m[%s, j]' % big)
    full = lo2.is_zero() and hi2 == width
    # starting at the pivot column is also complete: entries left of it are already zero in both rows
    partial_ok = lo2.subs(env) == pvP and hi2 == width
    chk.decide(full or partial_ok, 'gj-pivot-drives-row-exchange', 'exchange-covers-augmented-row', node=c, file=LA, func='gj_solve',
               detail_bad='exchange runs over j in [%s,%s): the right-hand-side columns (up to n+nb) are not exchanged' % (lo2, hi2),
               detail_ok='j over [%s, n+nb)' % lo2)
    if isinstance(holder, ast.If):
        tst = U(holder.test).replace(' ', '')
        piv = [pv] + [k_ for k_, v_ in env.items() if v_ == Poly.var(pv)]       # the pivot index, under the loop variable or a copy of it
        # the search result is never above the pivot row, so `big != col`, `big > col` and `col < big` skip the same exchanges; `>=` exchanges a row with itself
        okg = any(tst in ('%s!=%s' % (big, x), '%s!=%s' % (x, big), '%s>%s' % (big, x), '%s<%s' % (x, big), '%s>=%s' % (big, x), '%s<=%s' % (x, big)) for x in piv)
        chk.decide(okg, 'gj-pivot-drives-row-exchange', 'exchange-guard', node=holder, file=LA, func='gj_solve',
                   detail_bad='row exchange is skipped under condition %s' % U(holder.test), detail_ok='skipped only when no better row was found')
    # --- elimination row operation over the full augmented width
    rowop = [b for b in ast.walk(inner) if isinstance(b, ast.For)]
    okop = False
    for r in rowop:
        lo3, hi3 = A._range(r.iter, ints)
        if lo3.is_zero() and hi3 == width:
            okop = True
    chk.decide(okop, 'gj-elimination-full-width', 'forward', node=inner, file=LA, func='gj_solve',
               detail_bad='the row operation of the forward elimination does not cover all n+nb columns',
               detail_ok='row operation over j in [0, n+nb)')
    # --- every row below the pivot is eliminated: the row operation is not skipped on a condition over matrix entries
    M.set_parents(fn)
    for r in rowop:
        lo3, hi3 = A._range(r.iter, ints)
        if not (lo3.is_zero() and hi3 == width):
            continue
        guards = []
        cur = r
        while getattr(cur, 'parent', None) is not None and cur.parent is not inner:
            cur = cur.parent
            if isinstance(cur, ast.If):
                guards.append(U(cur.test))
        chk.decide(not guards, 'gj-elimination-full-width', 'forward:every-row', node=r, file=LA, func='gj_solve',
                   detail_bad='the elimination of a row is skipped when %s: an entry below the pivot that is small but not zero stays in place and back substitution ignores it, so a '
                              'badly scaled but regular system is "solved" with O(1) errors and return code 0' % guards, detail_ok='unconditional for every row below the pivot')
    # --- back substitution: the pivot row is normalised and the column above the pivot cleared over every column that is read afterwards, i.e. [n, n+nb) at least
    later = [s_ for s_ in fn.body if isinstance(s_, ast.For) and s_.lineno > loop.lineno]
    col_loops = 0
    for top in later:
        for asg in ast.walk(top):
            if not (isinstance(asg, ast.Assign) and isinstance(asg.targets[0], ast.Subscript) and U(asg.targets[0].value) == 'm'):
                continue
            lp = M.enclosing(asg, (ast.For,))
            if lp is None:
                continue
            tvar = U(lp.target)
            # column index of the store as a polynomial; local aliases (backCol = rb + augCol - backColr - 1) substituted
            loc = {}
            chain = []
            cur_ = lp
            while cur_ is not None and cur_ is not fn:
                if isinstance(cur_, (ast.For, ast.If)):
                    chain.append(cur_)
                cur_ = getattr(cur_, 'parent', None)
            for holder_ in reversed(chain):        # outermost first: row offsets hoisted into the enclosing loop (rowb = nt*rb) are seen by the inner ones
                for a2 in list(holder_.body) + list(getattr(holder_, 'orelse', [])):
                    if isinstance(a2, ast.Assign) and isinstance(a2.targets[0], ast.Name) and a2.lineno < asg.lineno:
                        pv2 = P(a2.value, loc)
                        # row / column *indices* of the enclosing loops keep their names (they are what the rule talks about); products with the row width are offsets
                        if pv2 is not None and (holder_ is lp or any(sum(e_ for v_, e_ in mono) >= 2 for mono in pv2.t)):
                            loc[a2.targets[0].id] = pv2
            idx = P(asg.targets[0].slice, loc)
            if idx is None:
                continue
            cr = idx.coeff_of(tvar)
            if cr is None or not cr[0].is_const() or abs(cr[0].const_value()) != 1:
                continue        # the loop variable is the row, not the column
            a_co, rest = cr
            lo4, hi4 = A._range(lp.iter, ints)
            # strip the row term nt*<row>
            ends = [a_co * lo4 + rest, a_co * (hi4 - Poly.const(1)) + rest]
            cmin, cmax = (ends[0], ends[1]) if a_co.const_value() > 0 else (ends[1], ends[0])
            # the pivot row of this back-substitution sweep: the variable R whose diagonal entry m[nt*R + R] something is divided by
            piv_row = None
            dens = []
            for d_ in [d_ for d_ in ast.walk(top) if isinstance(d_, ast.BinOp) and isinstance(d_.op, ast.Div)]:
                den_ = d_.right
                if isinstance(den_, ast.Name):          # piv = m[nt*rb + rb]
                    den_ = ([a_.value for a_ in ast.walk(top) if isinstance(a_, ast.Assign) and U(a_.targets[0]) == den_.id] or [den_])[-1]
                if isinstance(den_, ast.Call) and M.call_name(den_) == 'float' and den_.args:
                    den_ = den_.args[0]
                if isinstance(den_, ast.Subscript) and U(den_.value) == 'm':
                    dens.append(den_)
            for den_ in dens:
                di = P(den_.slice, loc)
                for r_ in sorted(di.atoms() - set(['n', 'nb'])) if di is not None else []:
                    if di == width * Poly.var(r_) + Poly.var(r_):
                        piv_row = r_
            if piv_row is None:
                continue
            rowterm = None
            for rv in sorted((cmin.atoms() | cmax.atoms()) - set(['n', 'nb'])):
                if (cmin - width * Poly.var(rv)).atoms() <= set(['n', 'nb', piv_row]) and (cmax - width * Poly.var(rv)).atoms() <= set(['n', 'nb', piv_row]):
                    rowterm = rv
                    break
            if rowterm is None:
                continue
            cmin, cmax = cmin - width * Poly.var(rowterm), cmax - width * Poly.var(rowterm)
            col_loops += 1
            ok_hi = cmax == width - Poly.const(1)
            ok_lo = cmin in (Poly.var(piv_row), Poly.var('n'), Poly.const(0)) or (cmin - Poly.var(piv_row)).is_zero()
            chk.decide(ok_hi and ok_lo, 'gj-back-substitution-covers-rhs', 'columns@%d' % lp.lineno, node=lp, file=LA, func='gj_solve',
                       detail_bad='this back-substitution update touches columns %s .. %s of the row; the right-hand sides live in columns n .. n+nb-1, so the range must end at n+nb-1 and '
                                  'start at or before n (pivot column rb or n): with more right-hand sides than unknowns some columns are neither scaled nor back-substituted' % (cmin, cmax),
                       detail_ok='columns %s .. %s' % (cmin, cmax))
    chk.floor('back-substitution column loops', col_loops, 2)
    # --- near-zero pivot test dominates the division
    g = C.build_cfg(loop.body)          # the whole pass for one pivot: the test may stand in the row loop or, hoisted, in front of it
    tests = [n.id for n in g.nodes if n.kind == 'test' and isinstance(n.ast, ast.If) and 'abs(' in U(n.ast.test)
             and any(isinstance(b, ast.Return) for b in n.ast.body)]
    divn = [n.id for n in g.nodes if n.ast is not None and isinstance(n.ast, ast.Assign)
            and any(isinstance(d, ast.BinOp) and isinstance(d.op, ast.Div) for d in ast.walk(n.ast))]
    chk.decide(bool(tests) and all(any(g.dominates(t_, d) for t_ in tests) for d in divn), 'gj-zero-pivot-guard', 'forward',
               node=inner, file=LA, func='gj_solve', detail_bad='division by the pivot is not dominated by a near-zero test',
               detail_ok='|pivot| < eps returns before dividing')


def rule_returns(chk):
    t = M.py(LA)
    fn = M.find_func(t, 'gj_solve')
    rets = [r for r in ast.walk(fn) if isinstance(r, ast.Return)]
    chk.floor('gj_solve return sites', len(rets), 3)
    for r in rets:
        v = U(r.value) if r.value is not None else 'None'
        if v in ('0.0', '0'):
            # success only at the end, after the result has been extracted
            last = fn.body[-1] is r
            chk.decide(last, 'gj-return-discipline', 'success@end', node=r, file=LA, func='gj_solve',
                       detail_bad='success is reported before the solution is written', detail_ok='return 0.0 is the last statement')
        elif v in ('1.0', '1'):
            guard = M.enclosing(r, (ast.If,))
            gt = U(guard.test) if guard is not None else ''
            ok = guard is not None and ('abs(' in gt and ('<' in gt or '>' in gt))
            chk.decide(ok, 'gj-return-discipline', 'failure@%s' % gt.replace(' ', '')[:40], node=r, file=LA, func='gj_solve',
                       detail_bad='failure is reported outside a (near-)zero pivot test: %s' % gt,
                       detail_ok='failure only under a (near-)zero pivot test')
        else:
            chk.violated('gj-return-discipline', 'value:' + v, node=r, file=LA, func='gj_solve',
                         detail='gj_solve returns %s; callers test for 0.0 / non-zero' % v)
    # "singular" is a statement about the matrix: whatever the failure tests compare the pivot with is a constant or is computed from the n x n block alone - a scale taken over the
    # whole augmented array lets a large right-hand side declare a perfectly regular matrix singular
    M.set_parents(fn)
    from verif_static.norm import local_defs as local_defs_, inline as inline_
    ldefs_ = local_defs_([fn])
    nparam = (M.arg_names(fn) + ['n', 'n'])[1]
    for r in rets:
        v = U(r.value) if r.value is not None else 'None'
        guard = M.enclosing(r, (ast.If,))
        if v not in ('1.0', '1') or guard is None:
            continue
        names = set(x.id for x in ast.walk(guard.test) if isinstance(x, ast.Name)) - set(['abs', 'fabs', 'float', 'tol'])
        bad_scale = []
        for nm in sorted(names):
            defs_ = [a for a in ast.walk(fn) if isinstance(a, ast.Assign) and len(a.targets) == 1 and isinstance(a.targets[0], ast.Name) and a.targets[0].id == nm]
            for a in defs_:
                if isinstance(a.value, ast.Constant):
                    continue
                reads = [x for x in ast.walk(a.value) if isinstance(x, ast.Subscript) and U(x.value) == 'm']
                # the defining statement, or the test that guards it, reads entries of m: which ones?
                gi = M.enclosing(a, (ast.If,))
                if gi is not None:
                    reads += [x for x in ast.walk(gi.test) if isinstance(x, ast.Subscript) and U(x.value) == 'm']
                for x in reads:
                    lo_ = loops_over(x, fn)
                    lo_nodes = {}
                    cur_ = x
                    while cur_ is not None and cur_ is not fn:
                        cur_ = getattr(cur_, 'parent', None)
                        if isinstance(cur_, ast.For) and isinstance(cur_.target, ast.Name) and isinstance(cur_.iter, ast.Call) and U(cur_.iter.func) in ('range', 'prange'):
                            lo_nodes[cur_.target.id] = cur_.iter
                    idx = x.slice
                    okx = False
                    if isinstance(idx, ast.BinOp) and isinstance(idx.op, ast.Add):
                        # nt*row + col with col running over the columns of the matrix proper
                        # ... i.e. a loop variable whose range stops at n (directly or through a local that is n: colrange, eqns - whatever they are called)
                        for colv in (idx.left, idx.right):
                            if isinstance(colv, ast.Name) and colv.id not in lo_nodes and isinstance(ldefs_.get(colv.id), ast.Name) and ldefs_[colv.id].id in lo_nodes:
                                colv = ldefs_[colv.id]          # a plain copy of a loop variable (`col = rrcol`)
                            if isinstance(colv, ast.Name) and colv.id in lo_nodes:
                                ra_ = lo_nodes[colv.id].args
                                stop_ = ra_[0] if len(ra_) == 1 else ra_[1] if len(ra_) in (2, 3) else None
                                if stop_ is not None and same(inline_(stop_, ldefs_), nparam):
                                    okx = True
                    if not okx:
                        bad_scale.append('%s (from %s, index over %s)' % (nm, U(x), sorted(lo_.values())))
        chk.decide(not bad_scale, 'gj-return-discipline', 'singularity-is-judged-on-the-matrix-alone@%d' % r.lineno, node=guard, file=LA, func='gj_solve',
                   detail_bad='the failure test `%s` depends on %s: entries of the right-hand-side columns enter the threshold, so a well-conditioned system with a large right-hand side '
                              '(|b|/|A| beyond 1e12) is reported singular' % (U(guard.test), '; '.join(bad_scale[:2])), detail_ok='pivot against a constant / a scale of the n x n block')
    # result extraction signature: result[nb*i + j] = m[nt*i + n + j]
    last_loops = [s for s in fn.body if isinstance(s, ast.For)]
    ext = last_loops[-1]
    try:
        ex = A.Extract(fn)
        ex.int_names |= {'nt', 'eqns', 'colrange', 'augCol'}
        for s in fn.body:
            if isinstance(s, ast.Assign) and isinstance(s.targets[0], ast.Name) and s.targets[0].id in ex.int_names \
                    and not isinstance(s.value, ast.Call):
                ex.stmt(s, [])
        ex.stmt(ext, [])
        sig = sorted(A.canonical(s) for s in ex.stores)
        want = ['result[nb*o0 + o1] = m[n*o0 + nb*o0 + n + o1]  for o0 in [0,n); o1 in [0,nb)']
        chk.decide(sig == want, 'gj-result-extraction', 'block-copy', node=ext, file=LA, func='gj_solve',
                   detail_bad='solution extraction is %s, expected %s' % (sig, want), detail_ok=sig[0])
    except A.Unknown as e:
        chk.undecided('gj-result-extraction', 'block-copy', node=ext, file=LA, func='gj_solve', detail=str(e))


L3 = 'pysph/base/linalg3.pyx'


def loops_over(stmt, fn):
    """loop variables -> range text of the for loops enclosing stmt inside fn"""
    out = {}
    cur = stmt
    while cur is not None and cur is not fn:
        cur = getattr(cur, 'parent', None)
        if isinstance(cur, ast.For) and isinstance(cur.target, ast.Name):
            out[cur.target.id] = U(cur.iter).replace(' ', '')
    return out


def rule_eigen_wrapper(chk):
    """the scaling wrapper around tred2/tql2: the zero-matrix shortcut is taken only when every entry is zero, every entry is scaled, every eigenvalue scaled back"""
    t = M.cy(L3)
    from verif_static import paths as PT
    # decided on the function with its helpers inlined (everything but the three routines it wraps), per path through it with every loop entered once
    fn = M.inlined_function(t, M.find_func(t, 'eigen_decomposition'), keep=('zero_matrix_case', 'tred2', 'tql2', 'fabs', 'abs'))
    M.set_parents(fn)
    who = 'eigen_decomposition'
    full = ('range(n)', 'range(3)')
    allp = PT.enumerate_paths(M.docstring_stripped(fn.body))
    pths = [p_ for p_ in allp if all(e.truth for e in p_ if e.kind == 'loop')]
    res = {'sum': None, 'seed': None, 'guard': None, 'scaled': None, 'order': None, 'back': None}
    nzero = nwork = 0

    def cover(node, *idx):
        lp = loops_over(node, fn)
        return len(set(idx)) == len(idx) and all(lp.get(i_) in full for i_ in idx)
    for p_ in pths:
        cl = PT.calls_on(p_)
        zc = [(i, c) for i, c, cal, env in cl if cal == 'zero_matrix_case']
        wk = [(i, c, cal) for i, c, cal, env in cl if cal in ('tred2', 'tql2')]
        # the test that separates the two: `<S> == 0` on a name S
        tests = [(i, PT.resolve(e.node, e.env), e.truth) for i, e in enumerate(p_) if e.kind == 'cond']
        sel = [(i, t_, tr) for i, t_, tr in tests if isinstance(t_, ast.Compare) and len(t_.ops) == 1 and isinstance(t_.ops[0], (ast.Eq, ast.NotEq)) and isinstance(t_.left, ast.Name)
               and isinstance(t_.comparators[0], ast.Constant) and t_.comparators[0].value == 0]
        if len(sel) != 1:
            res['guard'] = res['guard'] or 'a path does not decide `s == 0` exactly once'
            continue
        gi, gt, gtruth = sel[0]
        S = gt.left.id
        is_zero = gtruth == isinstance(gt.ops[0], ast.Eq)
        # what S is: a running sum seeded with 0 of |entry| over all nine entries, completed before the test
        sto = [(i, e.node) for i, e in enumerate(p_) if e.kind == 'stmt' and isinstance(e.node, (ast.Assign, ast.AnnAssign, ast.AugAssign))
               and U(e.node.targets[0] if isinstance(e.node, ast.Assign) else e.node.target) == S]
        if not sto or not (isinstance(sto[0][1], (ast.Assign, ast.AnnAssign)) and isinstance(sto[0][1].value, ast.Constant) and sto[0][1].value.value == 0):
            res['seed'] = res['seed'] or 'the sum is not initialised to 0'
        accs = [(i, n_) for i, n_ in sto[1:]]
        ok_sum = len(accs) == 1 and isinstance(accs[0][1], ast.AugAssign) and isinstance(accs[0][1].op, ast.Add) and accs[0][0] < gi
        if ok_sum:
            v = accs[0][1].value
            ok_sum = isinstance(v, ast.Call) and M.call_name(v) in ('fabs', 'abs') and isinstance(v.args[0], ast.Subscript) and isinstance(v.args[0].value, ast.Subscript)
            if ok_sum:
                i1, i2 = U(v.args[0].value.slice), U(v.args[0].slice)
                base = U(v.args[0].value.value)
                ok_sum = cover(accs[0][1], i1, i2) and base in ('A', 'V')
                if ok_sum and base == 'V':
                    ok_sum = any(e.kind == 'stmt' and isinstance(e.node, ast.Assign) and U(e.node.targets[0]) == 'V[%s][%s]' % (i1, i2) and U(e.node.value) == 'A[%s][%s]' % (i1, i2)
                                 for e in p_[:accs[0][0]])
        if not ok_sum:
            res['sum'] = res['sum'] or 'partial or different sum'
        if is_zero:
            nzero += 1
            if len(zc) != 1 or [U(x) for x in zc[0][1].args] != ['V', 'd'] or wk or zc[0][0] < gi:
                res['guard'] = res['guard'] or 'the all-zero branch does not just call zero_matrix_case(V, d)'
            continue
        nwork += 1
        if zc:
            res['guard'] = res['guard'] or 'zero_matrix_case is called for a non-zero matrix'
        div = [(i, e.node) for i, e in enumerate(p_) if e.kind == 'stmt' and isinstance(e.node, ast.AugAssign) and isinstance(e.node.op, ast.Div) and U(PT.resolve(e.node.value, e.env)) == S]
        okd = len(div) == 1 and isinstance(div[0][1].target, ast.Subscript) and isinstance(div[0][1].target.value, ast.Subscript) and U(div[0][1].target.value.value) == 'V' and \
            cover(div[0][1], U(div[0][1].target.value.slice), U(div[0][1].target.slice)) and div[0][0] > gi
        if not okd:
            res['scaled'] = res['scaled'] or 'V[i][j] /= s does not cover all entries'
        names = [cal for i, c, cal in wk]
        if names != ['tred2', 'tql2'] or not all([U(x) for x in c.args][:2] == ['V', 'd'] for i, c, cal in wk) or (okd and wk[0][0] < div[0][0]):
            res['order'] = res['order'] or 'calls %s' % names
        mul = [(i, e.node) for i, e in enumerate(p_) if e.kind == 'stmt' and isinstance(e.node, ast.AugAssign) and isinstance(e.node.op, ast.Mult) and U(PT.resolve(e.node.value, e.env)) == S]
        okm = len(mul) == 1 and isinstance(mul[0][1].target, ast.Subscript) and U(mul[0][1].target.value) == 'd' and cover(mul[0][1], U(mul[0][1].target.slice)) and \
            bool(wk) and mul[0][0] > max(i for i, c, cal in wk)
        if not okm:
            res['back'] = res['back'] or 'eigenvalues not all multiplied by s after the iteration'
    if not (nzero and nwork):
        res['guard'] = res['guard'] or 'no path takes the shortcut / no path does the work'
    chk.decide(res['sum'] is None, 'eigen-scaling-wrapper', 'scale-sums-every-entry', node=fn, file=L3, func=who,
               detail_bad='s must be the sum of |A[i][j]| over all nine entries: it decides `s == 0` (zero-matrix shortcut) - a partial sum sends non-zero matrices (e.g. pure shear, '
                          'zero diagonal) to the shortcut, which returns d = 0, V = I', detail_ok='s += fabs(A[i][j]) for all i, j')
    chk.decide(res['seed'] is None, 'eigen-scaling-wrapper', 'scale-seeded-with-zero', node=fn, file=L3, func=who, detail_bad='s is not initialised to 0', detail_ok='s = 0.0')
    chk.decide(res['guard'] is None, 'eigen-scaling-wrapper', 'zero-shortcut-guard', node=fn, file=L3, func=who, detail_bad='the shortcut must be `if s == 0: zero_matrix_case(V, d)`: %s' % res['guard'],
               detail_ok='if s == 0: zero_matrix_case(V, d)')
    chk.decide(res['scaled'] is None, 'eigen-scaling-wrapper', 'every-entry-scaled', node=fn, file=L3, func=who, detail_bad='V[i][j] /= s must cover all entries', detail_ok='V[i][j] /= s for all i, j')
    chk.decide(res['order'] is None, 'eigen-scaling-wrapper', 'tred2-then-tql2', node=fn, file=L3, func=who, detail_bad='tridiagonalisation must be followed by the QL iteration on the same V, d: %s' % res['order'],
               detail_ok='tred2(V, d, e); tql2(V, d, e)')
    chk.decide(res['back'] is None, 'eigen-scaling-wrapper', 'eigenvalues-scaled-back', node=fn, file=L3, func=who, detail_bad='every eigenvalue must be multiplied by s after the iteration',
               detail_ok='d[i] *= s for all i')
    # tql2: the search for a negligible sub-diagonal entry stops at the sentinel e[n-1] = 0 for EVERY tst1 >= 0 (tst1 is 0 when the leading entries vanish),
    # which needs a non-strict comparison; otherwise m runs to n and e[n] / d[n] are read and divided by
    q = M.find_func(t, 'tql2')
    sent = [a for a in ast.walk(q) if isinstance(a, ast.Assign) and isinstance(a.targets[0], ast.Subscript) and U(a.targets[0].value) == 'e' and
            U(a.targets[0].slice).replace(' ', '') == 'n-1' and isinstance(a.value, ast.Constant) and a.value.value == 0]
    # the search loop: a while loop whose body only advances m.  It is left when a conjunct of its test fails or a leading `if C: break` fires; one of these exit conditions
    # must be the non-strict |e[m]| <= eps*tst1 (however it is spelled: `if ... <= ...: break`, `while ... and not (... <= ...)`, `while ... and ... > ...`)
    def advances_m_only(w):
        rest = [st for st in w.body if not (isinstance(st, ast.If) and any(isinstance(b, ast.Break) for b in st.body))]
        return len(rest) == 1 and U(rest[0]).replace(' ', '') in ('m+=1', 'm=m+1')
    srch = [w for w in ast.walk(q) if isinstance(w, ast.While) and advances_m_only(w)]
    NEG = {ast.Lt: ast.GtE, ast.LtE: ast.Gt, ast.Gt: ast.LtE, ast.GtE: ast.Lt, ast.Eq: ast.NotEq, ast.NotEq: ast.Eq}

    def exit_atom(c, negate):
        """(lhs, op class, rhs) of the condition under which the loop is left, negations pushed into the comparison"""
        while isinstance(c, ast.UnaryOp) and isinstance(c.op, ast.Not):
            c, negate = c.operand, not negate
        if isinstance(c, ast.Compare) and len(c.ops) == 1:
            op = type(c.ops[0])
            if negate:
                op = NEG.get(op)
            return (U(c.left).replace(' ', ''), op, U(c.comparators[0]).replace(' ', ''))
        return None
    ok = bool(sent) and len(srch) == 1
    if ok:
        w = srch[0]
        atoms = []
        conj = w.test.values if isinstance(w.test, ast.BoolOp) and isinstance(w.test.op, ast.And) else [w.test]
        for c_ in conj:
            atoms.append(exit_atom(c_, True))            # the loop goes on while c_ holds: it is left when c_ fails
        for st in w.body:
            if isinstance(st, ast.If) and any(isinstance(b, ast.Break) for b in st.body) and not st.orelse:
                disj = st.test.values if isinstance(st.test, ast.BoolOp) and isinstance(st.test.op, ast.Or) else [st.test]
                for c_ in disj:
                    atoms.append(exit_atom(c_, False))
        small = ('fabs(e[m])', 'abs(e[m])')
        ok = any(a_ is not None and ((a_[0] in small and a_[1] is ast.LtE) or (a_[2] in small and a_[1] is ast.GtE)) for a_ in atoms) and \
            any(a_ is not None and ((a_[0] == 'm' and a_[1] is ast.GtE and a_[2] == 'n') or (a_[2] == 'm' and a_[1] is ast.LtE and a_[0] == 'n')) for a_ in atoms)
    chk.decide(ok, 'eigen-scaling-wrapper', 'tql2:search-stops-at-the-sentinel', node=srch[0] if srch else q, file=L3, func='tql2',
               detail_bad='the scan `while m < n` must stop at the sentinel e[n-1] = 0 through `fabs(e[m]) <= eps*tst1`; with a strict `<` it does not when tst1 == 0 (zero leading '
                          'diagonal and sub-diagonal): m reaches n, the QL step reads past the arrays and divides by zero - the matrix is returned undiagonalised',
               detail_ok='e[n-1] = 0 and a non-strict test: the scan always stops inside the array')
    # tql2: the implicit shift h is accumulated in f and f is added back to every eigenvalue when it is finalised, so within an iteration h must have been taken off every
    # eigenvalue that is not recomputed explicitly there - d[l], d[l+1] are, the rest is d[l+2 .. n-1] whatever the size m of the unreduced block
    M.set_parents(q)
    accum = [a for a in ast.walk(q) if isinstance(a, ast.AugAssign) and isinstance(a.op, ast.Add) and isinstance(a.target, ast.Name) and isinstance(a.value, ast.Name)
             and any(isinstance(b, (ast.Assign, ast.AugAssign)) and isinstance(b.targets[0] if isinstance(b, ast.Assign) else b.target, ast.Subscript)
                     and U((b.targets[0] if isinstance(b, ast.Assign) else b.target).value) == 'd' and a.target.id in [x.id for x in ast.walk(b.value) if isinstance(x, ast.Name)]
                     for b in ast.walk(q))]
    oks, whys = bool(accum), 'the accumulated shift (f += h, added back as d[l] + f) was not found'
    for a in accum:
        H = a.value.id
        outer = None
        cur = a
        while getattr(cur, 'parent', None) is not None:
            cur = cur.parent
            if isinstance(cur, ast.For) and isinstance(cur.target, ast.Name) and U(cur.iter).replace(' ', '') in full:
                outer = cur
        subs = [x for x in ast.walk(q) if isinstance(x, ast.AugAssign) and isinstance(x.op, ast.Sub) and isinstance(x.target, ast.Subscript) and U(x.target.value) == 'd' and U(x.value) == H]
        if outer is None or len(subs) != 1:
            oks, whys = False, '%d statements take %s off the eigenvalues' % (len(subs), H)
            continue
        L = outer.target.id
        lp = M.enclosing(subs[0], (ast.For,))
        rng = lp.iter.args if lp is not None and isinstance(lp.iter, ast.Call) and U(lp.iter.func) == 'range' else []
        if not (lp is not None and U(subs[0].target.slice) == U(lp.target) and len(rng) == 2 and same(rng[0], '%s+2' % L) and U(rng[1]).replace(' ', '') in ('n', '3')):
            oks, whys = False, 'the shift %s is taken off d[%s] for %s in %s only' % (H, U(lp.target) if lp is not None else '?', U(lp.target) if lp is not None else '?', U(lp.iter) if lp is not None else '?')
            continue
        expl = set(U(b.targets[0].slice).replace(' ', '') for b in ast.walk(outer) if isinstance(b, ast.Assign) and isinstance(b.targets[0], ast.Subscript) and U(b.targets[0].value) == 'd'
                   and b.lineno < subs[0].lineno)
        if not set([L, L + '+1']) <= expl:
            oks, whys = False, 'd[%s] and d[%s+1] are not recomputed before the shift of the others' % (L, L)
    chk.decide(oks, 'eigen-scaling-wrapper', 'tql2:shift-taken-off-every-remaining-eigenvalue', node=accum[0] if accum else q, file=L3, func='tql2',
               detail_bad='%s: f is added back to every eigenvalue finalised later, so an eigenvalue outside the shifted range comes out too large by f (a block-diagonal matrix: the '
                          'decoupled last entry)' % whys, detail_ok='d[i] -= h for i in [l+2, n); f += h; d[l], d[l+1] recomputed')
    # tql2: a rotation sweep `for i in range(...): e[i+1] = ...` overwrites the sub-diagonal entries it passes; the closing formula of the iteration needs the entry next to
    # the deflation point as it was BEFORE the sweep (kept in a local), so after the sweep nothing may read, straight from the array, the first or the last element the
    # sweep has stored into
    nsw, stale = 0, []
    for lp in [x for x in ast.walk(q) if isinstance(x, ast.For) and isinstance(x.target, ast.Name) and isinstance(x.iter, ast.Call) and U(x.iter.func) in ('range', 'prange')]:
        iv = lp.target.id
        ra = lp.iter.args
        if len(ra) == 3 and U(ra[2]).replace(' ', '') == '-1':
            first_i, last_i = ra[0], ast.BinOp(left=ra[1], op=ast.Add(), right=ast.Constant(value=1))
        elif len(ra) == 2:
            first_i, last_i = ra[0], ast.BinOp(left=ra[1], op=ast.Sub(), right=ast.Constant(value=1))
        else:
            continue
        par = getattr(lp, 'parent', None)
        blk = next((b_ for f_ in ('body', 'orelse') for b_ in [getattr(par, f_, None)] if isinstance(b_, list) and any(x is lp for x in b_)), None)
        if blk is None:
            continue
        after = blk[[k_ for k_, x in enumerate(blk) if x is lp][0] + 1:]
        for st in [x for x in lp.body if isinstance(x, ast.Assign) and isinstance(x.targets[0], ast.Subscript) and isinstance(x.targets[0].value, ast.Name)
                   and iv in [y.id for y in ast.walk(x.targets[0].slice) if isinstance(y, ast.Name)]]:
            arr = st.targets[0].value.id
            if arr not in ('e', 'd'):
                continue
            ends = [_subst(st.targets[0].slice, {iv: first_i}), _subst(st.targets[0].slice, {iv: last_i})]
            nsw += 1
            for a_ in after:
                for x in ast.walk(a_):
                    if isinstance(x, ast.Subscript) and isinstance(x.ctx, ast.Load) and isinstance(x.value, ast.Name) and x.value.id == arr and any(same(x.slice, e_) for e_ in ends):
                        stale.append((getattr(x, 'lineno', 0), U(x), U(lp.iter)))
    chk.decide(nsw > 0 and not stale, 'eigen-scaling-wrapper', 'tql2:values-the-sweep-overwrites-are-saved-before-it', node=q, file=L3, func='tql2',
               detail_bad='%s: after the rotation sweep the array holds the new sub-diagonal / diagonal entry there, the closing formula of the QL step needs the one from before the sweep (wrong '
                          'eigenvalues for matrices that couple all three directions)' % ('; '.join('line %d reads %s after the sweep over %s has stored into it' % s_ for s_ in stale) or 'no sweep found'),
               detail_ok='%d stores of rotation sweeps: no element a sweep stored first or last is read from the array afterwards in the same pass' % nsw)
    z = M.find_func(t, 'zero_matrix_case')
    M.set_parents(z)
    dz = [a for a in ast.walk(z) if isinstance(a, ast.Assign) and isinstance(a.targets[0], ast.Subscript) and U(a.targets[0].value) == 'd']
    vz = [a for a in ast.walk(z) if isinstance(a, ast.Assign) and isinstance(a.targets[0], ast.Subscript) and isinstance(a.targets[0].value, ast.Subscript) and U(a.targets[0].value.value) == 'V']
    ok = len(dz) == 1 and isinstance(dz[0].value, ast.Constant) and dz[0].value.value == 0 and loops_over(dz[0], z).get(U(dz[0].targets[0].slice)) in full and len(vz) == 1
    if ok:
        i1, i2 = U(vz[0].targets[0].value.slice), U(vz[0].targets[0].slice)
        lp = loops_over(vz[0], z)
        ok = i1 != i2 and lp.get(i1) in full and lp.get(i2) in full and U(vz[0].value).replace(' ', '') in ('%s==%s' % (i1, i2), '%s==%s' % (i2, i1))
    chk.decide(ok, 'eigen-scaling-wrapper', 'zero-case-returns-identity', node=z, file=L3, func='zero_matrix_case', detail_bad='for the zero matrix the result must be d = 0, V = identity',
               detail_ok='d[i] = 0, V[i][j] = (i == j)')


def rule_row_operations(chk):
    """every store into the augmented matrix is an elementary row operation of Gauss-Jordan elimination, decided as a polynomial identity over the entries M[r, c] (flat
    index nt*r + c split into row and column, scalars such as cc / kk / dnr substituted, denominators cleared):
      * a copy of another entry (the row exchange; judged by the pivoting rules),
      * M[R, C] <- M[R, C] - M[R, P]/M[P, P] * M[P, C]  (row R minus the multiple of the pivot row P that clears column P), or
      * M[P, C] <- M[P, C] / M[P, P]  (the pivot row scaled to a unit pivot);
    the column C runs over the whole row or from the pivot column to the last column, the rows R over those below (forward sweep) or above (back substitution) the pivot, and
    where the multiplier is re-read from the matrix inside the column loop the pivot column is visited last (the statement overwrites what the multiplier is computed from)"""
    t = M.py(LA)
    fn = normalise_gj(M.find_func(t, 'gj_solve'))
    params = M.arg_names(fn)
    if len(params) < 3:
        raise AnalysisError('gj_solve: parameters vanished')
    n_, nb_ = Poly.var(params[1]), Poly.var(params[2])
    # the row width: the local that holds n + nb and multiplies the row index in the subscripts of the matrix (whatever it is called); it stays a symbol below
    wcands = set(a_.targets[0].id for a_ in ast.walk(fn) if isinstance(a_, ast.Assign) and len(a_.targets) == 1 and isinstance(a_.targets[0], ast.Name) and
                 from_ast(a_.value) is not None and from_ast(a_.value) == n_ + nb_)
    WN = None
    for x in ast.walk(fn):
        if isinstance(x, ast.Subscript) and isinstance(x.value, ast.Name) and x.value.id == params[0]:
            for y in ast.walk(x.slice):
                if isinstance(y, ast.BinOp) and isinstance(y.op, ast.Mult):
                    for side in (y.left, y.right):
                        if isinstance(side, ast.Name) and side.id in wcands:
                            WN = side.id
    if WN is None:
        raise AnalysisError('gj_solve: the row width (a local holding n + nb that multiplies the row index) was not found')
    env = {}        # integer names -> Poly in the parameters and loop variables (nt stays a symbol: it is what splits a flat index into row and column)
    scal = {}       # scalar names -> ((num, den), loops enclosing the definition)
    stores = []

    class Skip(Exception):
        pass

    def atom(arr, R, C):
        return Poly.var('%s<%s|%s>' % (arr, R, C))

    def rc(idx):
        p_ = from_ast(idx, env)
        if p_ is None:
            raise Skip('index %s' % U(idx))
        sp = p_.coeff_of(WN)
        if sp is None:
            raise Skip('index %s' % U(idx))
        R, C = sp
        # `nt*rb + nt - 1` (the last column of row rb, with the width standing for n + nb) splits into row rb + 1, column -1: a negative constant column is the same entry one
        # row up
        def terms(e_):
            return terms(e_.left) + terms(e_.right) if isinstance(e_, ast.BinOp) and isinstance(e_.op, (ast.Add, ast.Sub)) else [e_]
        if C.is_const() and C.const_value() < 0 and any(isinstance(t_, ast.Name) and t_.id == WN for t_ in terms(idx)):
            R, C = R - Poly.const(1), C + n_ + nb_
        if WN in R.atoms() or WN in C.atoms():
            raise Skip('index %s' % U(idx))
        return R, C

    def rat(e):
        if isinstance(e, ast.Constant) and isinstance(e.value, (int, float)) and not isinstance(e.value, bool):
            return from_ast(e), Poly.const(1)
        if isinstance(e, ast.Name):
            if e.id in scal:
                return scal[e.id][0]
            if e.id in env:
                return env[e.id], Poly.const(1)
            return Poly.var(e.id), Poly.const(1)
        if isinstance(e, ast.Subscript) and isinstance(e.value, ast.Name):
            if e.value.id == params[0]:
                R, C = rc(e.slice)
                return atom('M', R, C), Poly.const(1)
            p_ = from_ast(e.slice, env)
            if p_ is None:
                raise Skip('index %s' % U(e))
            return Poly.var('%s<%s>' % (e.value.id, p_)), Poly.const(1)
        if isinstance(e, ast.UnaryOp) and isinstance(e.op, ast.USub):
            a, b = rat(e.operand)
            return -a, b
        if isinstance(e, ast.Call) and M.call_name(e) == 'float' and len(e.args) == 1:
            return rat(e.args[0])
        if isinstance(e, ast.BinOp) and isinstance(e.op, (ast.Add, ast.Sub, ast.Mult, ast.Div)):
            (a, b), (c, d) = rat(e.left), rat(e.right)
            if isinstance(e.op, ast.Add):
                return a * d + c * b, b * d
            if isinstance(e.op, ast.Sub):
                return a * d - c * b, b * d
            if isinstance(e.op, ast.Mult):
                return a * c, b * d
            return a * d, b * c
        raise Skip('expression %s' % U(e)[:40])

    def walk(stmts, stack):
        for st in stmts:
            if isinstance(st, ast.For) and isinstance(st.target, ast.Name) and isinstance(st.iter, ast.Call) and U(st.iter.func) in ('range', 'prange'):
                a_ = [from_ast(x, env) for x in st.iter.args]
                if any(x is None for x in a_) or len(a_) not in (1, 2):
                    raise AnalysisError('gj_solve: loop %s not understood' % U(st.iter))
                lo, hi = (Poly.const(0), a_[0]) if len(a_) == 1 else (a_[0], a_[1])
                env.pop(st.target.id, None)
                walk(st.body, stack + [(st.target.id, lo, hi, st)])
            elif isinstance(st, (ast.If,)):
                walk(st.body, stack)
                walk(st.orelse, stack)
            elif isinstance(st, ast.Assign) and len(st.targets) == 1:
                tg = st.targets[0]
                if isinstance(st.value, ast.Call) and M.call_name(st.value) == 'declare':
                    continue
                if isinstance(tg, ast.Name) and tg.id == WN:
                    continue            # the row width stays a symbol
                if isinstance(tg, ast.Name):
                    p_ = from_ast(st.value, env)
                    if p_ is not None and WN in p_.atoms() and not any(len(mono) > 1 and any(a_ == WN for a_, e_ in mono) for mono in p_.t):
                        # the width used as a bound / column offset (`backCol = rb + nt - k - 1`), not as the multiplier of a row: it is n + nb there
                        p_ = p_.subs({WN: n_ + nb_})
                    names_ = set(x.id for x in ast.walk(st.value) if isinstance(x, ast.Name))
                    if p_ is not None and not any(isinstance(x, (ast.Subscript, ast.Call)) for x in ast.walk(st.value)) and not (names_ & set(scal)) and \
                            not any(isinstance(x, ast.Constant) and isinstance(x.value, float) for x in ast.walk(st.value)):
                        env[tg.id] = p_
                        scal.pop(tg.id, None)
                    else:
                        try:
                            scal[tg.id] = (rat(st.value), [l_[3] for l_ in stack])
                        except Skip:
                            scal.pop(tg.id, None)
                        env.pop(tg.id, None)
                elif isinstance(tg, ast.Subscript) and isinstance(tg.value, ast.Name) and tg.value.id == params[0]:
                    try:
                        R, C = rc(tg.slice)
                        used = set(x.id for x in ast.walk(st.value) if isinstance(x, ast.Name) and x.id in scal)
                        stores.append((R, C, rat(st.value), list(stack), st, dict((u_, scal[u_][1]) for u_ in used)))
                    except Skip as ex:
                        stores.append((None, None, str(ex), list(stack), st, {}))
            elif isinstance(st, ast.AugAssign) and isinstance(st.op, (ast.Add, ast.Sub, ast.Mult, ast.Div)) and isinstance(st.target, ast.Subscript) and \
                    isinstance(st.target.value, ast.Name) and st.target.value.id == params[0]:
                # m[i] op= e is m[i] = m[i] op e
                try:
                    R, C = rc(st.target.slice)
                    tl = ast.Subscript(value=st.target.value, slice=st.target.slice, ctx=ast.Load())
                    full = ast.BinOp(left=tl, op=st.op, right=st.value)
                    used = set(x.id for x in ast.walk(st.value) if isinstance(x, ast.Name) and x.id in scal)
                    stores.append((R, C, rat(full), list(stack), st, dict((u_, scal[u_][1]) for u_ in used)))
                except Skip as ex:
                    stores.append((None, None, str(ex), list(stack), st, {}))
            elif isinstance(st, ast.AugAssign) and isinstance(st.target, ast.Name):
                scal.pop(st.target.id, None)
                env.pop(st.target.id, None)

    walk(M.docstring_stripped(fn.body), [])
    n_ops = 0
    last_col = n_ + nb_ - Poly.const(1)

    def ends(expr, stack):
        """(loop entry, value of expr in the first pass, in the last pass) for the innermost loop whose variable expr depends on (the row width, where it bounds a loop
        or offsets a column, is n + nb)"""
        wsub = {WN: n_ + nb_}
        for var, lo, hi, node in reversed(stack):
            if var in expr.atoms():
                return (var, lo, hi, node), expr.subs({var: lo}).subs(wsub), expr.subs({var: hi - Poly.const(1)}).subs(wsub)
        return None, expr.subs(wsub), expr.subs(wsub)

    scaled_rows = set()
    op_stores = set()
    for R, C, val, stack, st, used in stores:
        who = 'gj_solve@%d' % st.lineno
        if R is None:
            chk.violated('gj-row-operations', who, node=st, file=LA, func='gj_solve', detail='store into the matrix not understood (%s)' % val)
            continue
        num, den = val
        if den == Poly.const(1) and len(num.t) == 1 and list(num.t.values())[0] == 1 and len(list(num.t)[0]) == 1 and list(num.t)[0][0][1] == 1 and list(num.t)[0][0][0].startswith('M<'):
            continue            # a plain copy of another entry: the row exchange
        n_ops += 1
        op_stores.add(id(st))
        rows = set()
        for a_ in (num.atoms() | den.atoms()):
            if a_.startswith('M<'):
                rows.add(a_[2:].split('|')[0])
        others = sorted(r_ for r_ in rows if r_ != str(R))
        here = atom('M', R, C)
        bad = None
        if not others:
            # the pivot row scaled: M[P, C] / M[P, P]
            P = R
            piv = atom('M', P, P)
            if not (num * piv - den * here).is_zero():
                bad = 'the value stored is not M[r, c]/M[r, r]'
            else:
                scaled_rows.add(str(P))
            in_loop = True
        elif len(others) == 1:
            # find the pivot row as a polynomial: the row of an atom that is not R
            P = None
            # the pivot row as a polynomial: re-derived by parsing the reads of the statement (and of the scalars it uses)
            cand = []
            srcs = [st.value] + [a2.value for a2 in ast.walk(fn) if isinstance(a2, ast.Assign) and isinstance(a2.targets[0], ast.Name) and a2.targets[0].id in used]
            for e_ in srcs:
                for x in ast.walk(e_):
                    if isinstance(x, ast.Subscript) and isinstance(x.value, ast.Name) and x.value.id == params[0]:
                        try:
                            R2, C2 = rc(x.slice)
                        except Skip:
                            continue
                        if str(R2) == others[0]:
                            cand.append(R2)
            P = cand[0] if cand else None
            if P is None:
                bad = 'pivot row not identified'
            else:
                piv = atom('M', P, P)
                want_num = here * piv - atom('M', R, P) * atom('M', P, C)
                exact = (num * piv - den * want_num).is_zero()
                if not exact and str(P) in scaled_rows:
                    # the pivot row has been scaled to a unit pivot earlier in the same pass: M[p, p] is 1 here, a multiplier that leaves the division out (or writes it as a
                    # product) is the same number
                    one = {str(piv.atoms().pop()): Poly.const(1)}
                    exact = (num.subs(one) - den.subs(one) * (here - atom('M', R, P) * atom('M', P, C))).is_zero()
                if not exact:
                    bad = 'the value stored is not M[r, c] - M[r, p]/M[p, p]*M[p, c] for the pivot row p = %s' % P
            in_loop = any(any(l_ is lp_ for l_ in defstack) for defstack in used.values() for lp_ in [ends(C, stack)[0][3]] if ends(C, stack)[0] is not None) or not used
        else:
            P = None
            bad = 'the value stored mixes the rows %s: not an elementary row operation' % sorted(rows)
        if bad is None:
            cl, c0, c1 = ends(C, stack)
            okc = cl is not None and ((c1 == last_col and (c0.is_zero() or c0 == P)) or (c0 == last_col and (c1.is_zero() or c1 == P)))
            if not okc:
                bad = 'the column index %s runs from %s to %s: the operation must reach every column from the pivot column (or the first) to the last, n + nb - 1' % (C, c0, c1)
            elif in_loop and not (c1 == P):
                bad = 'the multiplier is read from the matrix inside the loop over the columns, which overwrites it at the pivot column: that column (%s) must be the last one visited, ' \
                      'the loop ends at column %s' % (P, c1)
        if bad is None and others:
            rl, r0, r1 = ends(R, stack)
            below = (r0 == P + Poly.const(1) and r1 == n_ - Poly.const(1)) or (r1 == P + Poly.const(1) and r0 == n_ - Poly.const(1))
            above = (r0.is_zero() and r1 == P - Poly.const(1)) or (r1.is_zero() and r0 == P - Poly.const(1))
            if rl is None or not (below or above):
                bad = 'the rows %s cleared against the pivot row %s run from %s to %s: all rows below the pivot (forward sweep) or all rows above it (back substitution)' % (R, P, r0, r1)
        if bad is None:
            pl, p0, p1 = ends(P, stack)
            full = (p0.is_zero() and p1 == n_ - Poly.const(1)) or (p1.is_zero() and p0 == n_ - Poly.const(1))
            if pl is None or not full:
                bad = 'the pivot row %s runs from %s to %s, not over all n rows' % (P, p0, p1)
        chk.decide(bad is None, 'gj-row-operations', who, node=st, file=LA, func='gj_solve',
                   detail_bad='`%s`: %s - the transformed system no longer has the solution of the given one' % (U(st)[:70], bad),
                   detail_ok='%s row %s, columns to n + nb - 1' % ('scales pivot' if not others else 'clears column of pivot row %s in' % P, R))
    chk.floor('row operations in gj_solve', n_ops, 3)
    # the tests that report a singular system: a test on a pivot (a diagonal entry) fires at 0 and not at 1e-9 or 1 - small pivots of badly scaled regular systems are
    # divided by; a test on a right-hand-side entry (last column, under a zero pivot) fires for 1 and 1e-6 and not for 0 - 0 x = 0 is consistent.  Decided by evaluating
    # the test, its locals written out, at these values of the one matrix entry it reads
    from verif_static.norm import local_defs as ld_, inline as inl_
    # (integer temporaries - nt, augCol, rb ... - stay names: the flat index is split into row and column with them)
    defs_ = dict((k_, v_) for k_, v_ in ld_([fn]).items() if k_ != WN and k_ not in env and (any(isinstance(x, (ast.Subscript, ast.Call)) for x in ast.walk(v_)) or
                                                                                             (isinstance(v_, ast.Constant) and isinstance(v_.value, (int, float)) and not isinstance(v_.value, bool) and k_ not in M.arg_names(fn))))
    n_t = 0
    for r_ in [x for x in ast.walk(fn) if isinstance(x, ast.Return) and x.value is not None and U(x.value) in ('1.0', '1')]:
        g_ = M.enclosing(r_, (ast.If,))
        if g_ is None or not any(x is r_ for b_ in g_.body for x in ast.walk(b_)):
            continue
        test = inl_(g_.test, defs_)
        if isinstance(test, ast.BoolOp) and isinstance(test.op, ast.And):
            # a conjunct on the indices alone (`rrcol + 1 < eqns`: "there is a row below to clear") only narrows when the test applies; what it says about the entry is the rest
            keep_ = [v_ for v_ in test.values if any(isinstance(x, ast.Subscript) for x in ast.walk(v_)) or not
                     set(x.id for x in ast.walk(v_) if isinstance(x, ast.Name)) <= (set(env) | set(l_.target.id for l_ in ast.walk(fn) if isinstance(l_, ast.For) and isinstance(l_.target, ast.Name)) | set(M.arg_names(fn)))]
            if keep_ and len(keep_) < len(test.values):
                test = keep_[0] if len(keep_) == 1 else ast.BoolOp(op=ast.And(), values=keep_)
        subs_ = [x for x in ast.walk(test) if isinstance(x, ast.Subscript) and isinstance(x.value, ast.Name) and x.value.id == params[0]]
        keys = sorted(set(U(x) for x in subs_))
        who = 'gj_solve@%d' % g_.lineno
        if len(keys) != 1:
            chk.violated('gj-singularity-tests', who, node=g_, file=LA, func='gj_solve', detail='the test `%s` reads %d matrix entries (expected the pivot or one right-hand-side entry)' % (U(g_.test), len(keys)))
            continue
        try:
            R, C = rc(subs_[0].slice)
        except Skip as ex:
            chk.violated('gj-singularity-tests', who, node=g_, file=LA, func='gj_solve', detail='entry tested not understood: %s' % ex)
            continue

        class Sub(ast.NodeTransformer):
            def visit_Subscript(self, n):
                if isinstance(n.value, ast.Name) and n.value.id == params[0]:
                    return ast.copy_location(ast.Name(id='X__', ctx=ast.Load()), n)
                return self.generic_visit(n)
        code = compile(ast.fix_missing_locations(ast.Expression(body=Sub().visit(ast.parse(U(test), mode='eval').body))), '<test>', 'eval')

        def at(v):
            return bool(eval(code, {'__builtins__': {}, 'abs': abs, 'float': float, 'fabs': abs}, {'X__': v}))
        n_t += 1
        try:
            if R == C:
                ok = at(0.0) and not at(1e-9) and not at(-1e-9) and not at(1.0) and not at(-1.0)
                why = 'a pivot test must fire for 0 and not for +-1e-9 or +-1'
            elif C == last_col:
                ok = at(1.0) and at(-1.0) and at(1e-6) and not at(0.0)
                why = 'a right-hand-side test must fire for +-1 and 1e-6 and not for 0'
            else:
                ok, why = False, 'the entry tested, M[%s, %s], is neither a pivot nor in the last column' % (R, C)
        except Exception as ex:          # noqa
            ok, why = False, 'test not evaluable: %s' % ex
        chk.decide(ok, 'gj-singularity-tests', who, node=g_, file=LA, func='gj_solve',
                   detail_bad='`%s` (with its locals written out: `%s`): %s - regular systems are reported singular or singular ones solved' % (U(g_.test), U(test)[:80], why),
                   detail_ok='fires exactly for a vanishing pivot / a non-zero right-hand side')
    chk.floor('singularity tests in gj_solve', n_t, 2)
    # a test on the indices alone that stands around a row operation must not keep any pivot out: it holds (with the polarity of the branch the operation sits in) for the
    # second and the third pivot row (the first has no rows above it, the loops over those rows are empty there anyway)
    for R, C, val, stack, st, used in stores:
        if R is None or id(st) not in op_stores:
            continue
        cur, ok_g, why_g = st, True, ''
        while getattr(cur, 'parent', None) is not None and cur.parent is not fn:
            par = cur.parent
            if isinstance(par, ast.If):
                names_ = set(x.id for x in ast.walk(par.test) if isinstance(x, ast.Name))
                if names_ and names_ <= set(env) | set(v_[0] for v_ in stack) and not any(isinstance(x, (ast.Subscript, ast.Call)) for x in ast.walk(par.test)):
                    in_body = any(x is cur for x in par.body)
                    rows_ = [v_ for v_ in names_ if v_ in env]
                    for val_ in (1, 2):
                        loc = dict((k_, val_) for k_ in names_)
                        try:
                            tv = bool(eval(compile(ast.Expression(body=par.test), '<t>', 'eval'), {'__builtins__': {}}, loc))
                        except Exception:          # noqa
                            tv = in_body
                        if tv != in_body:
                            ok_g, why_g = False, '`%s` keeps the operation out when %s' % (U(par.test), ', '.join('%s = %d' % (k_, val_) for k_ in sorted(names_)))
            cur = par
        if not ok_g:
            chk.violated('gj-row-operations', 'gj_solve@%d:index-guard' % st.lineno, node=st, file=LA, func='gj_solve',
                         detail='%s: a pivot row is left out of the sweep, the rows above it keep their entries in that column' % why_g)
    # declare('<type>', k) hands back k values: unpacked into exactly k names
    for fdef in [f for f in ast.walk(M.py(LA)) if isinstance(f, ast.FunctionDef)]:
        for a_ in ast.walk(fdef):
            if isinstance(a_, ast.Assign) and isinstance(a_.value, ast.Call) and M.call_name(a_.value) == 'declare' and len(a_.value.args) == 2 and isinstance(a_.value.args[1], ast.Constant):
                nt_ = len(a_.targets[0].elts) if isinstance(a_.targets[0], ast.Tuple) else 1
                if nt_ != a_.value.args[1].value:
                    chk.violated('helper-signature', '%s:declare@%d' % (fdef.name, a_.lineno), node=a_, file=LA, func=fdef.name,
                                 detail='`%s` unpacks %d declared values into %d names: the pure-Python call raises, the transpiled one declares the wrong variables' % (U(a_)[:60], a_.value.args[1].value, nt_))


def rule_backsub_pivot(chk):
    """back substitution: a row is left alone (no division) only when its pivot is exactly zero - any other pivot, however small, belongs to a
    regular system and is divided by (the forward sweep never screens the last pivot)"""
    from verif_static import norm as N
    t = M.py(LA)
    fn = M.find_func(t, 'gj_solve')
    M.set_parents(fn)
    n_ = 0
    for iff in [i for i in ast.walk(fn) if isinstance(i, ast.If)]:
        # the if whose one side divides by the tested entry and whose other side does not
        def divs(stmts):
            return [d for st in stmts for d in ast.walk(st) if isinstance(d, ast.BinOp) and isinstance(d.op, ast.Div)]
        db, do = divs(iff.body), divs(iff.orelse)
        if bool(db) == bool(do):
            continue
        denoms = set(U(d.right) for d in (db or do))
        tested = [U(x) for x in ast.walk(iff.test) if isinstance(x, ast.Subscript)]
        if not (set(tested) & denoms):
            continue
        piv = sorted(set(tested) & denoms)[0]
        n_ += 1
        if do:      # `if pivot == 0: <no division> else: <divide>`
            ok = N.same(iff.test, '%s == 0' % piv)
        else:       # `if pivot != 0: <divide>`
            ok = N.same(iff.test, '%s != 0' % piv)
        chk.decide(ok, 'gj-zero-pivot-guard', 'back-substitution:exact-zero', node=iff, file=LA, func='gj_solve',
                   detail_bad='back substitution skips the division when `%s`: a pivot that is tiny but not zero (badly scaled regular systems; the last pivot is never screened by the '
                              'forward sweep) is then treated as singular or silently left unsolved' % U(iff.test), detail_ok='division skipped only for %s == 0' % piv)
    chk.floor('back-substitution pivot tests', n_, 1)


def rule_hypot(chk):
    """hypot2(x, y) (used by tql2): result**2 == x**2 + y**2 - for generic arguments as one identity over all branches, and on the ties |x| == |y|, y == 0, x == 0 that
    comparisons between |x| and |y| single out (a branch meant for `both zero` must not swallow x == y != 0)"""
    from verif_static import symb as S
    rel = 'pysph/base/linalg3.pyx'
    t = M.cy(rel)
    fns = [f for f in ast.walk(t) if isinstance(f, ast.FunctionDef) and f.name == 'hypot2']
    if not fns:
        raise AnalysisError('hypot2 vanished from linalg3.pyx')
    fn = fns[0]
    cases = (('generic', None), ('tie y=x', {'y': 'x'}), ('tie y=-x', {'y': '-x'}), ('y=0', {'y': '0.0'}), ('x=0', {'x': '0.0'}))
    for label, sub in cases:
        try:
            ctx = S.Ctx(seconds=15)
            body = list(M.docstring_stripped(fn.body))
            if sub:
                pre = [ast.parse('%s = %s' % (k, v)).body[0] for k, v in sub.items()]
                body = pre + body
            f2 = ast.FunctionDef(name='hypot2', args=fn.args, body=body, decorator_list=[])
            ev = S.Evaluator(ctx, f2)
            ev.run()
            r = ev.result_of_returns(lambda val, env: val)
            x, y = ctx.var('x'), ctx.var('y')
            if sub:
                if 'y' in sub:
                    y = {'x': x, '-x': -x, '0.0': S.Poly.const(0)}[sub['y']]
                else:
                    x = S.Poly.const(0)
            want = ctx.mul(x, x) + ctx.mul(y, y)
            res = ctx.simplify(ctx.mul(r, r) - want)
            ok, res2 = (True, res) if res.is_zero() else ctx.prove_zero(res)
            if ok:
                chk.holds('hypot-identity', label, node=fn, file=rel, func='hypot2', detail='hypot2(x, y)**2 == x**2 + y**2 (%s)' % label)
                continue
            w = ctx.witness(res, want + S.Poly.const(1))
            if w is not None:
                chk.violated('hypot-identity', label, node=fn, file=rel, func='hypot2',
                             detail='hypot2(x, y)**2 != x**2 + y**2 for %s, e.g. at %s: tql2 divides by this value' % (label, ', '.join('%s=%.3g' % kv for kv in sorted(w[0].items()))))
            else:
                chk.undecided('hypot-identity', label, node=fn, file=rel, func='hypot2', detail='identity neither proved nor refuted (residual %d terms)' % len(res2.t))
        except (S.Unsupported, S.Budget) as e:
            chk.undecided('hypot-identity', label, node=fn, file=rel, func='hypot2', detail=str(e))


def rule_tred2_scaling(chk):
    """tred2 squares the entries of the row it reduces; "any magnitude" (entries of order 1e-160 next to entries of order 1) only survives that when the row is first divided by its
    abs-sum: every accumulation `h += t*t` inside the reduction loop squares a quantity that was divided by the scale computed from the absolute values of the same row"""
    from verif_static import norm as N
    rel = 'pysph/base/linalg3.pyx'
    t = M.cy(rel)
    fns = [f for f in ast.walk(t) if isinstance(f, ast.FunctionDef) and f.name == 'tred2']
    if not fns:
        raise AnalysisError('tred2 vanished from linalg3.pyx')
    fn = fns[0]
    M.set_parents(fn)
    n = 0
    for a in ast.walk(fn):
        if not (isinstance(a, ast.AugAssign) and isinstance(a.op, ast.Add) and isinstance(a.value, ast.BinOp) and isinstance(a.value.op, ast.Mult)
                and compact(a.value.left) == compact(a.value.right) and isinstance(a.value.left, ast.Subscript)):
            continue
        sq = a.value.left
        loop = M.enclosing(a, (ast.For,))
        if loop is None or compact(sq.slice) != compact(loop.target):
            continue
        outer = M.enclosing(loop, (ast.For,))
        if outer is None:
            continue
        # only the reduction loop: the accumulated name is later used to build the Householder vector (sqrt of it)
        if not any(isinstance(c, ast.Call) and M.call_name(c) == 'sqrt' and compact(a.target) in compact(c) for c in ast.walk(outer)):
            continue
        n += 1
        before = [s_ for s_ in loop.body if s_.lineno < a.lineno]
        scaled = [s_ for s_ in before if isinstance(s_, ast.AugAssign) and isinstance(s_.op, ast.Div) and compact(s_.target) == compact(sq)] + \
                 [s_ for s_ in before if isinstance(s_, ast.Assign) and compact(s_.targets[0]) == compact(sq) and isinstance(s_.value, ast.BinOp) and isinstance(s_.value.op, ast.Div)
                  and compact(s_.value.left) == compact(sq)]
        ok = False
        why = 'the squared entry %s is not divided by the row scale first' % compact(sq)
        if scaled:
            dv = scaled[0].value if isinstance(scaled[0], ast.AugAssign) else scaled[0].value.right
            # the scale is the abs-sum of the same row
            abss = [x for x in ast.walk(outer) if isinstance(x, ast.AugAssign) and isinstance(x.op, ast.Add) and compact(x.target) == compact(dv)
                    and isinstance(x.value, ast.Call) and M.call_name(x.value) in ('fabs', 'abs') and compact(x.value.args[0]).split('[')[0] == compact(sq).split('[')[0]]
            ok = bool(abss)
            why = 'the divisor %s is not the sum of |entries| of the same row' % compact(dv)
        chk.decide(ok, 'eigen-scaling-wrapper', 'tred2:squares-of-the-scaled-row@%s' % compact(a.target), node=a, file=rel, func='tred2',
                   detail_bad='`%s`: %s - a row with entries around 1e-160 next to entries of order 1 (any overall scale) underflows in the sum of squares, and the routine then divides by 0' % (U(a), why),
                   detail_ok='row divided by its abs-sum before squaring')
    chk.floor('tred2 sums of squares', n, 1)


def rule_tred2_sign(chk):
    """tred2: the Householder scalar g is -sign(f) * sqrt(h) with |g| = sqrt(h) for EVERY f, f == 0 included (a row whose last sub-diagonal entry vanishes, e.g. a tensor with
    A[1][2] == 0): with g = 0 the reflector degenerates (h - f*g = h, d[i-1] = f - g = 0) into a projection and V is no longer orthogonal.  Decided per path of the statements
    that settle g between its first definition from sqrt(h) and its first use: the value is sqrt(h) times a factor that evaluates to +1 or -1 for f < 0, f == 0 and f > 0."""
    from verif_static import paths as PT
    rel = 'pysph/base/linalg3.pyx'
    t = M.cy(rel)
    fns = [f for f in ast.walk(t) if isinstance(f, ast.FunctionDef) and f.name == 'tred2']
    if not fns:
        raise AnalysisError('tred2 vanished from linalg3.pyx')
    fn = fns[0]
    M.set_parents(fn)
    n = 0
    for a in ast.walk(fn):
        if not (isinstance(a, ast.Assign) and len(a.targets) == 1 and isinstance(a.targets[0], ast.Name) and any(isinstance(c, ast.Call) and M.call_name(c) == 'sqrt' for c in ast.walk(a.value))):
            continue
        g = a.targets[0].id
        par = a.parent
        blk = next((getattr(par, f_) for f_ in ('body', 'orelse') if isinstance(getattr(par, f_, None), list) and a in getattr(par, f_)), None)
        if blk is None:
            continue
        k = blk.index(a)
        seg = [a]
        for st in blk[k + 1:]:
            # statements that (re)define g only: the first one that reads g for something else ends the segment
            if isinstance(st, ast.If) and all(isinstance(x, ast.Assign) and U(x.targets[0]) == g for x in st.body + st.orelse):
                seg.append(st)
            elif isinstance(st, ast.Assign) and U(st.targets[0]) == g:
                seg.append(st)
            else:
                break
        hname = None
        for c in ast.walk(a.value):
            if isinstance(c, ast.Call) and M.call_name(c) == 'sqrt' and c.args and isinstance(c.args[0], ast.Name):
                hname = c.args[0].id
        if hname is None:
            continue
        n += 1
        bad = []
        for p_ in PT.enumerate_paths(seg):
            env = p_[-1].env
            val = env.get(g)
            if val is None:
                bad.append('g not settled')
                continue
            val = PT.resolve(val, env)
            facts = [(compact(t_), tr) for t_, tr in PT.path_facts(p_)]
            # sign cases of f compatible with the tests this path took
            cases = []
            for fv in (-1.0, 0.0, 1.0):
                okc = True
                for t_, tr in facts:
                    try:
                        r_ = eval(compile(ast.Expression(body=ast.parse(t_, mode='eval').body), '<t>', 'eval'), {'__builtins__': {}}, {'f': fv})
                    except Exception:
                        continue
                    if bool(r_) != tr:
                        okc = False
                if okc:
                    cases.append(fv)
            for fv in cases:
                # value of g / sqrt(h): evaluate with sqrt(h) = 1
                try:
                    r_ = eval(compile(ast.Expression(body=ast.parse(U(val), mode='eval').body), '<g>', 'eval'), {'__builtins__': {}},
                              {'f': fv, hname: 1.0, 'sqrt': lambda x: 1.0, 'fabs': abs, 'abs': abs, 'copysign': __import__('math').copysign})
                    if abs(abs(float(r_)) - 1.0) > 0 or (fv != 0 and float(r_) * fv > 0):
                        bad.append('for f %s 0 the value is %s * sqrt(%s)' % ('<' if fv < 0 else '>' if fv > 0 else '==', r_, hname))
                except Exception as ex:
                    bad.append('g = %s cannot be evaluated (%s)' % (U(val), ex))
        chk.decide(not bad, 'eigen-scaling-wrapper', 'tred2:householder-sign@%d' % n, node=a, file=rel, func='tred2',
                   detail_bad='%s: g must be -sign(f)*sqrt(h) with |g| = sqrt(h) also when f == 0 (a vanishing sub-diagonal entry): with g == 0 the reflector is a projection and the '
                              'eigenvectors returned are not orthonormal' % '; '.join(sorted(set(bad))[:2]),
                   detail_ok='|g| = sqrt(h) for f < 0, f == 0, f > 0, sign opposite to f')
    chk.floor('Householder scalars in tred2', n, 1)


def rule_declared_types(chk):
    """Python and the transpiled code compute the same numbers: a local declared for the transpiler must be able to hold what the Python code keeps in it - nothing
    that carries a matrix entry / a quotient may be declared 'float' (single precision in C) or an integer type (truncation)"""
    t = M.py(LA)
    n = 0
    INTS = ('int', 'long', 'unsigned int', 'uint', 'size_t', 'unsigned long')
    for fn in [f for f in t.body if isinstance(f, ast.FunctionDef)]:
        decl = {}
        for a in ast.walk(fn):
            if isinstance(a, ast.Assign) and isinstance(a.value, ast.Call) and M.call_name(a.value) == 'declare' and a.value.args and isinstance(a.value.args[0], ast.Constant):
                ty = str(a.value.args[0].value).strip()
                tg = a.targets[0]
                for x in (tg.elts if isinstance(tg, ast.Tuple) else [tg]):
                    if isinstance(x, ast.Name):
                        decl[x.id] = (ty, a)
        if not decl:
            continue
        n += 1
        bad = None
        for nm, (ty, node) in sorted(decl.items()):
            if ty == 'float' or ty.startswith('matrix') and 'float' in ty:
                bad = bad or (node, "`%s` is declared '%s': single precision in the transpiled code, double precision in Python" % (nm, ty))
        # integer-declared names only ever receive integer expressions
        # (the transpiler types a parameter by its default value: an integer default makes an integer parameter)
        ndef = len(fn.args.defaults)
        int_params = set(a.arg for a, d_ in zip(fn.args.args[len(fn.args.args) - ndef:], fn.args.defaults) if isinstance(d_, ast.Constant) and isinstance(d_.value, int) and not isinstance(d_.value, bool))
        intn = set(k for k, (ty, nd) in decl.items() if ty in INTS) | int_params
        for a in ast.walk(fn):
            if isinstance(a, (ast.Assign, ast.AugAssign)):
                tg = a.targets[0] if isinstance(a, ast.Assign) else a.target
                if isinstance(tg, ast.Name) and tg.id in decl and decl[tg.id][0] in INTS and not (isinstance(a.value, ast.Call) and M.call_name(a.value) == 'declare'):
                    v = a.value
                    fl = [x for x in ast.walk(v) if isinstance(x, ast.Subscript) or (isinstance(x, ast.BinOp) and isinstance(x.op, ast.Div)) or
                          (isinstance(x, ast.Constant) and isinstance(x.value, float)) or (isinstance(x, ast.Name) and x.id not in intn) or
                          (isinstance(x, ast.Call) and M.call_name(x) not in ('int', 'len', 'range', 'abs', 'min', 'max'))]
                    if fl:
                        bad = bad or (a, "`%s` is declared '%s' but receives %s" % (tg.id, decl[tg.id][0], U(v)))
        chk.decide(bad is None, 'helper-signature', 'declared-types:%s' % fn.name, node=bad[0] if bad else fn, file=LA, func=fn.name,
                   detail_bad='%s - the transpiled helper computes different numbers from the Python one' % (bad[1] if bad else ''),
                   detail_ok='%d declared locals: indices are integers, nothing is single precision' % len(decl))
    chk.floor('helpers with declared locals', n, 5)


def main(chk):
    chk.explanation = ('Affine access signatures (E7) of the five helpers compared with definitional forms kept in '
                       'fixtures/linalg_ref.py (other counter names and loop orders); structural rules for gj_solve: the arg-max '
                       'search of each column happens in the same pass as, and before, its elimination, its result drives an '
                       'exchange of whole augmented rows, a swap of congruent locations is a no-op, division guarded by a '
                       'near-zero test, return discipline, result extraction signature.')
    rule_helpers(chk)
    rule_declared_types(chk)
    rule_gj(chk)
    rule_returns(chk)
    rule_eigen_wrapper(chk)
    rule_backsub_pivot(chk)
    rule_row_operations(chk)
    rule_hypot(chk)
    rule_tred2_scaling(chk)
    rule_tred2_sign(chk)
    chk.unit('functions', list(HELPERS) + ['gj_solve'])
    if not any(o.verdict == 'VIOLATED' for o in chk.obs):
        chk.floor('obligations', len(chk.obs), 14)
    chk.assume('compyle transpiles these functions statement by statement (same source for Python and Cython)')
    chk.note('linalg3.pyx: only the scaling wrapper of eigen_decomposition is decided (which matrices take the zero shortcut, every entry scaled, eigenvalues scaled back); '
             'tred2/tql2 themselves - orthonormality and A V = V diag(d) - are numeric facts; not decided')


if __name__ == '__main__':
    run_check('C13', main)
