"""C11 - saved output loads back to the same particles (key-table agreement, DESIGN.md C11)."""
import ast
import os
import sys

sys.path.insert(0, os.path.dirname(os.path.dirname(os.path.abspath(__file__))))
from verif_static.core import run_check, AnalysisError  # noqa
from verif_static import model as M, cfg as C  # noqa

OUT = 'pysph/solver/output.py'
BU = 'pysph/base/utils.py'
PA = 'pysph/base/particle_array.pyx'
ROUND_TRIP_ARRAY_KEYS = ('properties', 'constants', 'output_property_arrays')


def U(n):
    return M.unparse(n)


def str_subscripts(node, base=None):
    """string keys used as X['key'] / X.get('key') (optionally for a given base expression text)"""
    out = {}
    for s in ast.walk(node):
        if isinstance(s, ast.Subscript) and M.const_str(s.slice) is not None:
            if base is None or U(s.value) == base or U(s.value).endswith(base):
                out.setdefault(M.const_str(s.slice), s)
        if isinstance(s, ast.Call) and isinstance(s.func, ast.Attribute) and s.func.attr == 'get' and s.args \
                and M.const_str(s.args[0]) is not None:
            if base is None or U(s.func.value) == base or U(s.func.value).endswith(base):
                out.setdefault(M.const_str(s.args[0]), s)
    return out


def rule_model_round_trip(chk):
    """dump() followed by load(), interpreted (E8) on model particle arrays with a model of h5py and of numpy's npz files (verif_static/iomodel.py): for both formats and every
    combination of detailed_output / only_real / compress what comes back is what went in - every property (written or not) with its type, default and stride, the data of the
    written ones (real particles only when asked), the output list, the constants and the solver data, value for value."""
    from verif_static import emit as EM, absint as AI, iomodel as IO
    IO.install()
    out_t = M.py(OUT)
    dump_fn = M.find_func(out_t, 'dump')

    class Data(list):
        def __init__(self, token, size):
            list.__init__(self, [0] * size)
            self.token = token

        def __eq__(self, other):
            return self is other

        def __hash__(self):
            return id(self)

    def carray(ctype, token):
        return EM.mock(get_c_type=lambda i, a, k, n, e: ctype, get_npy_array=lambda i, a, k, n, e: ('npy', token))

    def model_pa(name, props, consts, outputs, strides, defaults, nreal, ntotal):
        made = {}

        def gpa(i, a, k, n, e):
            all_ = k.get('all', a[0] if a else True)
            real = k.get('only_real', a[1] if len(a) > 1 else True)
            names = list(props) if (all_ or not outputs) else list(outputs)      # ParticleArray.get_property_arrays, decided separately below
            res = {}
            for p_ in names:
                tok = ('data', name, p_, bool(real))
                made[tok] = Data(tok, (nreal if real else ntotal) * strides.get(p_, 1))
                made[tok].ctype = props[p_]
                res[p_] = made[tok]
            return res
        return EM.mock(name=name, properties=dict((p_, carray(t_, (name, p_))) for p_, t_ in props.items()), constants=dict((c_, carray('double', (name, c_))) for c_ in consts),
                       default_values=dict(defaults), stride=dict(strides), output_property_arrays=list(outputs), get_lb_props=lambda i, a, k, n, e: list(props), gpu=None,
                       get_property_arrays=gpa, get_number_of_particles=lambda i, a, k, n, e: nreal if (a and a[0]) else ntotal, lb_props=None)
    SPEC1 = [('fluid', {'x': 'double', 'A': 'double', 'tag': 'int', 'u': 'double', 'B': 'float'}, ['c0'], ['x', 'A', 'tag'], {'A': 4, 'B': 3}, {'x': 0.0, 'A': 1.5, 'tag': 0, 'u': 2.5, 'B': 7.0}, 3, 5),
            ('inlet', {'x': 'double', 'm': 'double'}, [], ['x'], {}, {'x': 0.0, 'm': 1.0}, 0, 0),          # an array that is still empty
            ('ghosts', {'x': 'double', 'p': 'float'}, ['k'], ['x', 'p'], {}, {'x': 0.0, 'p': 9.0}, 0, 4),   # particles but no real ones
             ('solid', {'x': 'double', 'm': 'double'}, [], [], {}, {'x': 0.0, 'm': 1.0}, 2, 2)]             # no output list: everything is written, and the list stays empty
    SPEC2 = [('fluid', {'x': 'double', 'A': 'double', 'tag': 'int', 'u': 'double', 'B': 'float', 'extra': 'long'}, ['c0'], ['x', 'u', 'extra'], {'A': 4, 'B': 3, 'extra': 2},
              {'x': 0.0, 'A': 1.5, 'tag': 0, 'u': 2.5, 'B': 7.0, 'extra': 5}, 3, 5)] + SPEC1[1:]
    SD = {'t': 0.5, 'dt': 1e-3, 'count': 7, 'ids': [42], 'tag': b'abc', 'bodies': {1: 'left', 2: 'right'}, 'gravity': [0.0, -9.81, 0.0]}
    ci = M.ClassIndex([OUT, BU, 'pysph/__init__.py'])
    n = 0
    for fmt in ('hdf5', 'npz'):
        for detailed in (False, True):
            for only_real in (True, False):
                for compress in (False, True):
                  for second in (False, True):
                    inst = '%s:detailed=%s:only_real=%s:compress=%s%s' % (fmt, detailed, only_real, compress, ':second-dump' if second else '')
                    # the second dump of a run: same array names, but a property was added and the output list changed since the first one
                    SPEC = SPEC2 if second else SPEC1
                    pas = [model_pa(*sp) for sp in SPEC]
                    intr = IO.class_intrinsics(ci, OUT, ('HDFOutput', 'NumpyOutput'))
                    intr[('pysph/__init__.py', None, 'has_h5py')] = lambda i, f, a, k, n_, e: True
                    it = AI.Interp(ci, AI.Config([]), intrinsics=intr)
                    IO.FILES.clear()
                    # a name whose stem ends in characters of the extension, as step files do (run_15.hdf5)
                    fname = 'run_dfnp5.' + fmt
                    n += 1
                    try:
                        if second:
                            EM.call_function(it, OUT, 'dump', 'run_dfnp4.' + fmt, [model_pa(*sp) for sp in SPEC1], dict(SD, count=6), detailed_output=detailed, only_real=only_real,
                                             mpi_comm=None, compress=compress)
                        EM.call_function(it, OUT, 'dump', fname, pas, SD, detailed_output=detailed, only_real=only_real, mpi_comm=None, compress=compress)
                        res = EM.call_function(it, OUT, 'load', fname)
                    except AI.Raised as e:
                        chk.violated('round-trip', inst, node=e.node or dump_fn, file=e.rel or OUT, func='dump/load',
                                     detail='on the model problem (a normal array, a still empty one, one without real particles) dump + load raises %s %s' % (e.what, getattr(e, 'args_values', None) or ''))
                        continue
                    except AI.Unsupported as e:
                        chk.undecided('round-trip', inst, node=dump_fn, file=OUT, func='dump/load', detail='not interpretable on the model: %s' % e)
                        continue
                    diffs = []
                    if not isinstance(res, dict) or 'arrays' not in res:
                        diffs.append('load returns %r' % (res,))
                    else:
                        sd = res.get('solver_data')
                        if sd != SD or (isinstance(sd, dict) and any(type(sd[k_]) is not type(SD[k_]) and not (isinstance(sd[k_], list) and isinstance(SD[k_], list)) for k_ in SD if k_ in sd)):
                            diffs.append('solver data comes back as %r (was %r)' % (sd, SD))
                        arrs = res['arrays']
                        if sorted(arrs) != sorted(sp[0] for sp in SPEC):
                            diffs.append('arrays %s' % sorted(arrs))
                        for sp in SPEC:
                            name, props, consts, outputs, strides, defaults, nreal, ntotal = sp
                            pa_ = arrs.get(name)
                            if pa_ is None:
                                continue
                            added = pa_.attrs['added']
                            if sorted(added) != sorted(props):
                                diffs.append('%s: properties %s (was %s)' % (name, sorted(added), sorted(props)))
                            for p_, t_ in props.items():
                                a_ = added.get(p_)
                                if a_ is None:
                                    continue
                                if a_['type'] != t_ or a_['default'] != defaults[p_] or a_['stride'] != strides.get(p_, 1):
                                    diffs.append('%s.%s: type/default/stride %s/%s/%s (was %s/%s/%s)' % (name, p_, a_['type'], a_['default'], a_['stride'], t_, defaults[p_], strides.get(p_, 1)))
                                stored = detailed or not outputs or p_ in outputs
                                tok = getattr(a_['data'], 'token', None) if a_['data'] is not None else None
                                if stored and tok != ('data', name, p_, only_real):
                                    diffs.append('%s.%s: data %s (expected the %s particles of this property)' % (name, p_, tok, 'real' if only_real else 'all'))
                                if not stored and a_['data'] is not None:
                                    diffs.append('%s.%s: data appears although the property was not written' % (name, p_))
                            if pa_.attrs['output_property_arrays'] is None or sorted(pa_.attrs['output_property_arrays']) != sorted(outputs):
                                diffs.append('%s: output arrays %s (was %s)' % (name, pa_.attrs['output_property_arrays'], outputs))
                            if sorted(pa_.attrs['constants']) != sorted(consts) or any(pa_.attrs['constants'][c_] != ('npy', (name, c_)) for c_ in consts if c_ in pa_.attrs['constants']):
                                diffs.append('%s: constants %s (was %s)' % (name, pa_.attrs['constants'], consts))
                    chk.decide(not diffs, 'round-trip', inst, node=dump_fn, file=OUT, func='dump/load',
                               detail_bad='model round trip differs: %s' % '; '.join(diffs[:4]), detail_ok='3 arrays, solver data: identical after dump + load')
    chk.floor('model round trips', n, 32)


def rule_old_files(chk):
    """files written by older releases (npz, version 1: the members `arrays` and `solver_data`) are still read: load() on a model version-1 file hands back the solver data
    that was saved and one array per saved array"""
    from verif_static import emit as EM, absint as AI, iomodel as IO
    ci = M.ClassIndex([OUT, BU, 'pysph/__init__.py'])
    ld = M.find_func(M.py(OUT), 'load')
    SD = {'t': 0.25, 'dt': 1e-2, 'count': 3}
    try:
        intr = IO.class_intrinsics(ci, OUT, ('HDFOutput', 'NumpyOutput'))
        intr[('pysph/__init__.py', None, 'has_h5py')] = lambda i, f, a, k, n_, e: True
        made = []

        def gpa(i, a, k, n, e):
            made.append(k.get('name'))
            return EM.mock(name=k.get('name'))
        saved = AI.EXTERNAL_CALLS.get('pysph.base.utils.get_particle_array')
        AI.EXTERNAL_CALLS['pysph.base.utils.get_particle_array'] = gpa
        try:
            it = AI.Interp(ci, AI.Config([]), intrinsics=intr)
            IO.FILES.clear()
            f = IO.NpzFile()
            f['version'] = IO.NdObj(1)
            f['arrays'] = IO.NdObj({'fluid': {'x': ('data', 'fluid', 'x')}, 'solid': {'x': ('data', 'solid', 'x')}})
            f['solver_data'] = IO.NdObj(dict(SD))
            IO.FILES['old_run.npz'] = f
            res = EM.call_function(it, OUT, 'load', 'old_run.npz')
        finally:
            if saved is None:
                AI.EXTERNAL_CALLS.pop('pysph.base.utils.get_particle_array', None)
            else:
                AI.EXTERNAL_CALLS['pysph.base.utils.get_particle_array'] = saved
        ok = isinstance(res, dict) and res.get('solver_data') == SD and sorted(res.get('arrays') or {}) == ['fluid', 'solid']
        chk.decide(ok, 'round-trip', 'npz:version-1-file', node=ld, file=OUT, func='load',
                   detail_bad='a version-1 npz file with solver data %s and the arrays fluid, solid is loaded as solver data %r, arrays %s' % (
                       SD, res.get('solver_data') if isinstance(res, dict) else res, sorted(res.get('arrays') or {}) if isinstance(res, dict) else None),
                   detail_ok='solver data and both arrays come back')
    except (AI.Unsupported, AI.Raised) as e:
        chk.undecided('round-trip', 'npz:version-1-file', node=ld, file=OUT, func='load', detail='not interpretable on the model file: %s' % e)


def rule_property_arrays_model(chk):
    """ParticleArray.get_property_arrays interpreted (E8, on the lowered Cython) on a model array: which properties are handed to the writer and how much of each - every
    property (all=True or an empty output list) or the output list; the first get_number_of_particles(only_real) * stride(property) values of each"""
    from verif_static import emit as EM, absint as AI
    t = M.cy(PA)
    fn = M.find_method(t, 'ParticleArray', 'get_property_arrays')

    class Arr(object):
        def __init__(self, name):
            self.name = name

        def __getitem__(self, sl):
            return ('slice', self.name, sl.start, sl.stop, sl.step) if isinstance(sl, slice) else ('item', self.name, sl)
    try:
        bad = []
        nrun = 0
        for outputs in (['x', 'A', 'u'], []):
            for all_ in (True, False):
                for only_real in (True, False):
                    it = EM.interpreter()
                    EM.model_module(it, '<pa>', t)
                    props = ['A', 'x', 'B', 'u', 'tag']          # strided properties before and between plain ones
                    strides = {'A': 4, 'B': 3}
                    pa = EM.instance(it, '<pa>', 'ParticleArray', properties=dict((p_, EM.mock(get_npy_array=(lambda p_: lambda i, a, k, n, e: Arr(p_))(p_))) for p_ in props),
                                     stride=dict(strides), output_property_arrays=list(outputs), gpu=None, backend='cython', constants={}, num_real_particles=3,
                                     get_number_of_particles=lambda i, a, k, n, e: 3 if ((a and a[0]) or k.get('real')) else 7)
                    res = EM.call(it, pa, 'get_property_arrays', all=all_, only_real=only_real)
                    nrun += 1
                    want_names = props if (all_ or not outputs) else outputs
                    cnt = 3 if only_real else 7
                    want = dict((p_, ('slice', p_, None, cnt * strides.get(p_, 1), None)) for p_ in want_names)
                    if not isinstance(res, dict) or dict(res) != want:
                        bad.append(('outputs=%s all=%s only_real=%s' % (outputs, all_, only_real), res))
        chk.decide(not bad, 'options-reach-writer', 'get_property_arrays:model-run', node=fn, file=PA, func='get_property_arrays',
                   detail_bad='for a model array (A stride 4, x, B stride 3, u, tag; 3 real of 7 particles) %s gives %s: expected the listed (or all) properties, each as its first count*stride values'
                              % (bad[0][0] if bad else '', bad[0][1] if bad else ''), detail_ok='%d combinations of output list / all / only_real' % nrun)
    except (AI.Unsupported, AI.Raised) as e:
        chk.undecided('options-reach-writer', 'get_property_arrays:model-run', node=fn, file=PA, func='get_property_arrays', detail='not interpretable on the model: %s' % e)


def main(chk):
    chk.explanation = ('Output round trip decided on models: dump() then load() of pysph.solver.output is interpreted (E8) on model particle arrays against a model of h5py and of '
                       "numpy's npz files, for both formats and every combination of detailed_output / only_real / compress, including the second dump of a run and file names "
                       'whose stem ends in characters of the extension; ParticleArray.get_property_arrays (what is handed to the writer) is interpreted on a model array; '
                       'get_number_of_particles(real) returns the real count unconditionally (shared with C06).')
    rule_model_round_trip(chk)
    rule_old_files(chk)
    rule_property_arrays_model(chk)
    # only_real output slices with get_number_of_particles(True): that must be the real count itself (rule shared with C06)
    import importlib.util
    spec6 = importlib.util.spec_from_file_location('c06mod', os.path.join(os.path.dirname(os.path.abspath(__file__)), 'c06.py'))
    c06 = importlib.util.module_from_spec(spec6)
    spec6.loader.exec_module(c06)
    c06.rule_count(chk, M.find_class(M.cy(PA), 'ParticleArray'))
    # ... and the real particles must be the first ones whenever something is dumped: every mutator that changes count or order re-aligns (rule shared with C06)
    c06.rule_align(chk, M.find_class(M.cy(PA), 'ParticleArray'))
    # the npz reader rebuilds every array through ParticleArray(**dictionaries) -> _initialize (rule shared with C06)
    c06.rule_initialize_model(chk)
    # the readers hand the recorded type to add_property: the array made for it has that type whatever the element type of the data read (rule shared with C06)
    c06.rule_typed_creation(chk, M.find_class(M.cy(PA), 'ParticleArray'))
    # ... and the default that was saved (the readers pass it for every property, the built-in tag / pid / gid included) is the one the re-created property gets
    c06.rule_default_kept(chk, M.find_class(M.cy(PA), 'ParticleArray'))
    chk.unit('functions', ['output.dump', 'output.load', 'Output.dump', 'NumpyOutput._dump/_load', 'HDFOutput._dump/_load and helpers', 'utils.get_particles_info',
                           'ParticleArray.get_property_arrays', 'ParticleArray.get_number_of_particles'])
    chk.assume('library facts built into the I/O model (verif_static/iomodel.py): h5py groups/datasets/attrs behave like dictionaries, a dataset keeps the data it was created with, '
               'h5py rejects a chunk shape containing 0; numpy.savez stores non-array objects as 0-d object arrays that give the object back; ParticleArray(name, constants, '
               '**properties) / add_property record what they are given (C06 covers the container itself)')
    chk.assume('the MPI gather path (mpi_comm is not None) is not part of the model')


if __name__ == '__main__':
    run_check('C11', main)
