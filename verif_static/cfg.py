"""E1 - statement-level control-flow graph with dominators and path queries.

Nodes are simple statements and branch tests.  Implicit exceptions raised by
calls are not modelled except inside ``try`` bodies, where every statement of
the body gets an edge to each handler / the finally block (conservative).
"""
import ast

from .core import AnalysisError


class Node(object):
    __slots__ = ('id', 'kind', 'ast', 'label')

    def __init__(self, id, kind, node=None, label=''):
        self.id = id
        self.kind = kind      # entry exit raise stmt test loop join
        self.ast = node
        self.label = label

    def __repr__(self):
        ln = getattr(self.ast, 'lineno', '')
        return '<%d %s %s %s>' % (self.id, self.kind, self.label, ln)


class CFG(object):
    def __init__(self):
        self.nodes = []
        self.succ = {}
        self.pred = {}
        self.entry = self.new('entry')
        self.exit = self.new('exit')
        self.rexit = self.new('raise')
        self.back_edges = set()
        self._dom = None
        self._pdom = None

    def new(self, kind, node=None, label=''):
        n = Node(len(self.nodes), kind, node, label)
        self.nodes.append(n)
        self.succ[n.id] = set()
        self.pred[n.id] = set()
        return n.id

    def edge(self, a, b):
        self.succ[a].add(b)
        self.pred[b].add(a)

    # -- queries -----------------------------------------------------------
    def node_of(self, astnode):
        for n in self.nodes:
            if n.ast is astnode:
                return n.id
        return None

    def nodes_of(self, astnode):
        return [n.id for n in self.nodes if n.ast is astnode]

    def find(self, pred):
        return [n.id for n in self.nodes if n.ast is not None and pred(n)]

    def reachable(self, src, avoid=(), forward=True, stop=()):
        avoid = set(avoid)
        seen = set()
        st = [src]
        adj = self.succ if forward else self.pred
        while st:
            x = st.pop()
            if x in seen or x in avoid:
                continue
            seen.add(x)
            if x in stop:
                continue
            st.extend(adj[x])
        return seen

    def must_pass(self, src, dst, via):
        """True iff every path src ->* dst goes through a node of ``via`` (strictly between or equal)."""
        via = set(via)
        if src in via or dst in via:
            return True
        return dst not in self.reachable(src, avoid=via)

    def _dominators(self, forward=True):
        succ, pred = (self.succ, self.pred) if forward else (self.pred, self.succ)
        root = self.entry if forward else None
        ids = [n.id for n in self.nodes]
        if forward:
            roots = [self.entry]
        else:
            roots = [self.exit, self.rexit]
        reach = set()
        for r in roots:
            reach |= self.reachable(r, forward=forward)
        full = set(reach)
        dom = dict((i, set(full)) for i in reach)
        for r in roots:
            dom[r] = {r}
        changed = True
        order = sorted(reach)
        while changed:
            changed = False
            for i in order:
                if i in roots:
                    continue
                ps = [p for p in pred[i] if p in reach]
                if not ps:
                    new = {i}
                else:
                    new = set.intersection(*[dom[p] for p in ps]) | {i}
                if new != dom[i]:
                    dom[i] = new
                    changed = True
        return dom

    def dominates(self, a, b):
        """a dominates b (every path entry->b passes a)."""
        if self._dom is None:
            self._dom = self._dominators(True)
        return b in self._dom and a in self._dom[b]

    def postdominates(self, a, b, normal_only=True):
        """every path from b to the normal exit passes a."""
        return self.must_pass(b, self.exit, [a]) and (self.exit in self.reachable(b))

    def event_sequences(self, start, stops, event, cap=4000, avoid=()):
        """Set of event tuples along acyclic paths (back edges cut) from ``start``
        to any node in ``stops`` (stops included).  ``event(node)`` returns a
        label or None."""
        stops = set(stops)
        out = set()
        count = [0]
        cut = self.back_edges

        def rec(n, seq, onpath, taken):
            count[0] += 1
            if count[0] > cap * 50:
                raise AnalysisError('path enumeration exceeded budget')
            ev = event(self.nodes[n])
            if ev is not None:
                seq = seq + (ev,)
            if n in stops:
                out.add(seq)
                if len(out) > cap:
                    raise AnalysisError('too many distinct event sequences')
                return
            nxt = []
            for s in self.succ[n]:
                if s in avoid:
                    continue
                if s in stops:
                    nxt.append(s)
                    continue
                if (n, s) in taken:
                    continue
                # an inner loop head may be re-entered once through its back edge: the body is then not taken again
                if s in onpath and not (self.nodes[s].kind == 'loop' and onpath.count(s) < 2):
                    continue
                nxt.append(s)
            if not nxt:
                out.add(seq + ('<cut>',))
                return
            for s in nxt:
                rec(s, seq, onpath + (s,), taken | {(n, s)})
        rec(start, (), (start,), frozenset())
        return out


class _Ctx(object):
    def __init__(self):
        self.breaks = []      # stack of lists of pending node ids
        self.continues = []   # stack of loop head ids
        self.finals = []      # stack of finally bodies (list of stmts)
        self.handlers = []    # stack of handler entry lists


class Builder(object):
    def __init__(self, fn):
        self.g = CFG()
        self.fn = fn
        self.loop_break = []     # stack: list collecting break sources
        self.loop_head = []      # stack: head id
        self.try_stack = []      # stack of dicts {'handlers': [ids], 'final': stmts or None}

    def build(self):
        g = self.g
        body = self.fn.body if hasattr(self.fn, 'body') else self.fn
        outs = self.seq(body, [g.entry])
        for o in outs:
            g.edge(o, g.exit)
        return g

    # each method takes list of predecessor node ids and returns list of exits
    def seq(self, stmts, preds):
        for s in stmts:
            preds = self.stmt(s, preds)
        return preds

    def _link(self, preds, n):
        for p in preds:
            self.g.edge(p, n)

    def _exc_edges(self, n):
        """inside try bodies: statement may jump to handlers / finally."""
        if self.try_stack:
            t = self.try_stack[-1]
            for h in t['handler_entries']:
                self.g.edge(n, h)

    def stmt(self, s, preds):
        g = self.g
        if isinstance(s, ast.If):
            t = g.new('test', s, 'if')
            self._link(preds, t)
            self._exc_edges(t)
            a = self.seq(s.body, [t])
            b = self.seq(s.orelse, [t]) if s.orelse else [t]
            return a + b
        if isinstance(s, (ast.While,)):
            h = g.new('loop', s, 'while')
            self._link(preds, h)
            self.loop_head.append(h)
            self.loop_break.append([])
            outs = self.seq(s.body, [h])
            for o in outs:
                g.edge(o, h)
                g.back_edges.add((o, h))
            brk = self.loop_break.pop()
            self.loop_head.pop()
            infinite = isinstance(s.test, ast.Constant) and bool(s.test.value)
            ex = [] if infinite else [h]
            if s.orelse:
                ex = self.seq(s.orelse, ex)
            return ex + brk
        if isinstance(s, (ast.For, ast.AsyncFor)):
            h = g.new('loop', s, 'for')
            self._link(preds, h)
            self._exc_edges(h)
            self.loop_head.append(h)
            self.loop_break.append([])
            outs = self.seq(s.body, [h])
            for o in outs:
                g.edge(o, h)
                g.back_edges.add((o, h))
            brk = self.loop_break.pop()
            self.loop_head.pop()
            ex = [h]
            if s.orelse:
                ex = self.seq(s.orelse, ex)
            return ex + brk
        if isinstance(s, ast.Break):
            n = g.new('stmt', s, 'break')
            self._link(preds, n)
            if not self.loop_break:
                raise AnalysisError('break outside loop')
            self.loop_break[-1].append(n)
            return []
        if isinstance(s, ast.Continue):
            n = g.new('stmt', s, 'continue')
            self._link(preds, n)
            g.edge(n, self.loop_head[-1])
            g.back_edges.add((n, self.loop_head[-1]))
            return []
        if isinstance(s, ast.Return):
            n = g.new('stmt', s, 'return')
            self._link(preds, n)
            self._exc_edges(n)
            cur = [n]
            # run enclosing finally bodies
            for t in reversed(self.try_stack):
                if t['final']:
                    saved = self.try_stack
                    self.try_stack = self.try_stack[:self.try_stack.index(t)]
                    cur = self.seq(t['final'], cur)
                    self.try_stack = saved
            for c in cur:
                g.edge(c, g.exit)
            return []
        if isinstance(s, ast.Raise):
            n = g.new('stmt', s, 'raise')
            self._link(preds, n)
            cur = [n]
            caught = False
            for t in reversed(self.try_stack):
                if t['handler_entries'] and not t.get('in_handler'):
                    for h in t['handler_entries']:
                        for c in cur:
                            g.edge(c, h)
                    caught = True
                    break
                if t['final']:
                    saved = self.try_stack
                    self.try_stack = self.try_stack[:self.try_stack.index(t)]
                    cur = self.seq(t['final'], cur)
                    self.try_stack = saved
            if not caught:
                for c in cur:
                    g.edge(c, g.rexit)
            return []
        if isinstance(s, (ast.With, ast.AsyncWith)):
            n = g.new('stmt', s, 'with')
            self._link(preds, n)
            self._exc_edges(n)
            outs = self.seq(s.body, [n])
            x = g.new('join', s, 'with-exit')
            self._link(outs, x)
            return [x]
        if isinstance(s, ast.Try):
            # handler entry placeholders
            hentries = [g.new('join', h, 'except') for h in s.handlers]
            rec = {'handler_entries': hentries, 'final': s.finalbody or None}
            if s.finalbody and not s.handlers:
                # exceptions go to a copy of finally then propagate
                fe = g.new('join', s, 'finally-exc')
                rec['handler_entries'] = [fe]
            self.try_stack.append(rec)
            outs = self.seq(s.body, preds)
            if s.orelse:
                outs = self.seq(s.orelse, outs)
            rec['in_handler'] = True
            allouts = list(outs)
            for h, he in zip(s.handlers, hentries):
                allouts += self.seq(h.body, [he])
            self.try_stack.pop()
            if s.finalbody:
                allouts = self.seq(s.finalbody, allouts)
                if not s.handlers:
                    ex = self.seq(s.finalbody, [rec['handler_entries'][0]])
                    # propagate
                    tgt = None
                    for t in reversed(self.try_stack):
                        if t['handler_entries']:
                            tgt = t['handler_entries']
                            break
                    for e in ex:
                        if tgt:
                            for h in tgt:
                                g.edge(e, h)
                        else:
                            g.edge(e, g.rexit)
            return allouts
        if isinstance(s, (ast.FunctionDef, ast.AsyncFunctionDef, ast.ClassDef)):
            n = g.new('stmt', s, 'def')
            self._link(preds, n)
            return [n]
        if isinstance(s, ast.Match):
            t = g.new('test', s, 'match')
            self._link(preds, t)
            outs = [t]
            for c in s.cases:
                outs += self.seq(c.body, [t])
            return outs
        # simple statement
        n = g.new('stmt', s, type(s).__name__)
        self._link(preds, n)
        self._exc_edges(n)
        return [n]


def build_cfg(fn):
    return Builder(fn).build()
