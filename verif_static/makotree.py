"""Mako front end: template -> a Python ``ast`` *program* whose statements are
the template's control lines / code blocks and whose leaf statements are
``__text__("literal")`` and ``__expr__(<python expression>)`` emissions.

Nothing is rendered: the template text is lexed with ``mako.lexer.Lexer`` (the
repository's own tool chain) and re-expressed as Python so that the CFG /
dominance / event-sequence machinery of E1 applies to templates too.

``skeleton(fn)`` gives the *shape* of the emitted text along the all-branches-
taken path: a list of lines, each with its indentation, literal text and the
expressions spliced into it; ``indent(E, k)`` expressions become a line of their
own at indentation 4*k (that is what the template's ``indent`` def emits).
"""
import ast
import re

from .core import AnalysisError
from .model import read, set_parents


class Template(object):
    def __init__(self, rel, module, linemap):
        self.rel = rel
        self.module = module
        self.linemap = linemap
        self.defs = dict((n.name, n) for n in module.body if isinstance(n, ast.FunctionDef))
        for n in self.defs.values():
            n._tpl = self            # skeleton() resolves calls of other defs of the same template through it

    def fn(self, name):
        if name not in self.defs:
            raise AnalysisError('template def vanished: %s in %s' % (name, self.rel))
        return self.defs[name]


def _flat_nodes(nodes):
    return list(nodes)


def parse_template(rel, repo=None):
    try:
        from mako.lexer import Lexer
    except ImportError as e:
        raise AnalysisError('mako not importable: %r' % e)
    text = read(rel, repo)
    try:
        tree = Lexer(text).parse()
    except Exception as e:
        raise AnalysisError('mako lexer failed on %s: %r' % (rel, e))
    out = []       # generated python lines
    lmap = {}      # generated line -> (template line, col)

    def emit(ind, s, node):
        out.append('    ' * ind + s)
        lmap[len(out)] = (getattr(node, 'lineno', 0), getattr(node, 'pos', 0))

    def gen(nodes, ind):
        """nodes: flat list (ControlLine nesting rebuilt from isend)."""
        depth_stack = []
        cur = ind
        count_at = [0]
        i = 0
        skip_until = []
        nodes = list(nodes)
        # the lexer lists a control line's children both nested and flat; use the flat order
        for n in nodes:
            k = type(n).__name__
            if k == 'Text':
                emit(cur, '__text__(%r)' % n.content, n)
                count_at[-1] += 1
            elif k == 'Expression':
                emit(cur, '__expr__(%s)' % n.text.strip().replace('\n', ' '), n)
                count_at[-1] += 1
            elif k == 'Comment':
                continue
            elif k == 'Code':
                src = n.text
                import textwrap
                src = textwrap.dedent(src).strip('\n')
                for l in src.splitlines():
                    emit(cur, l, n)
                    count_at[-1] += 1
            elif k == 'ControlLine':
                if n.isend:
                    if count_at[-1] == 0:
                        emit(cur, 'pass', n)
                    count_at.pop()
                    cur -= 1
                elif n.keyword in ('else', 'elif', 'except', 'finally'):
                    if count_at[-1] == 0:
                        emit(cur, 'pass', n)
                    count_at[-1] = 0
                    emit(cur - 1, n.text.strip().split('#')[0].rstrip() if n.text.strip().startswith('else') else n.text.strip(), n)
                else:
                    t = n.text.strip()
                    # strip trailing comments after the colon
                    m = re.match(r'^(.*:)\s*#.*$', t)
                    if m:
                        t = m.group(1)
                    emit(cur, t, n)
                    cur += 1
                    count_at.append(0)
            elif k == 'DefTag':
                sig = n.attributes.get('name')
                emit(cur, 'def %s:' % sig, n)
                gen_def(n, cur + 1)
                count_at[-1] += 1
            elif k in ('TextTag', 'BlockTag', 'CallTag', 'CallNamespaceTag', 'InheritTag', 'NamespaceTag',
                       'IncludeTag', 'PageTag'):
                raise AnalysisError('%s: unsupported mako tag %s' % (rel, k))
            else:
                raise AnalysisError('%s: unknown mako node %s' % (rel, k))

    def gen_def(tag, ind):
        before = len(out)
        gen(tag.nodes, ind)
        if len(out) == before:
            emit(ind, 'pass', tag)

    out.append('def __template__(helper):')
    lmap[1] = (0, 0)
    gen(tree.nodes, 1)
    src = '\n'.join(out) + '\n'
    try:
        mod = ast.parse(src)
    except SyntaxError as e:
        raise AnalysisError('template %s does not lower to python: %s (line %r)' % (
            rel, e, out[e.lineno - 1] if e.lineno and e.lineno <= len(out) else ''))
    # hoist defs nested in __template__ to module level and remap line numbers
    top = mod.body[0]
    for n in ast.walk(mod):
        if hasattr(n, 'lineno'):
            n.gen_lineno = n.lineno
            tl = lmap.get(n.lineno, (0, 0))
            n.lineno = tl[0]
            n.end_lineno = tl[0]
    defs = [s for s in top.body if isinstance(s, ast.FunctionDef)]
    top.body = [s for s in top.body if not isinstance(s, ast.FunctionDef)] or [ast.Pass()]
    mod.body = defs + [top]
    mod.rel = rel
    set_parents(mod)
    t = Template(rel, mod, lmap)
    t.source = src
    return t


# ---------------------------------------------------------------------------

def is_emit(stmt, kind=None):
    if isinstance(stmt, ast.Expr) and isinstance(stmt.value, ast.Call) and isinstance(stmt.value.func, ast.Name) \
            and stmt.value.func.id in ('__text__', '__expr__'):
        if kind is None or stmt.value.func.id == kind:
            return True
    return False


def emitted_expr(stmt):
    """the python expression of an ``__expr__`` statement"""
    if is_emit(stmt, '__expr__'):
        return stmt.value.args[0] if stmt.value.args else None
    return None


def emitted_text(stmt):
    if is_emit(stmt, '__text__'):
        return stmt.value.args[0].value
    return None


class Line(object):
    __slots__ = ('indent', 'text', 'exprs', 'tline', 'guards', 'loops')

    def __init__(self, indent, text, exprs, tline, guards, loops):
        self.indent = indent
        self.text = text
        self.exprs = exprs
        self.tline = tline
        self.guards = guards   # template-level `if` tests enclosing the emission (ast nodes)
        self.loops = loops     # template-level `for` statements enclosing it

    def __repr__(self):
        return '<L%s ind=%s %r>' % (self.tline, self.indent, self.text)


def skeleton(fn, indent_name='indent', env=None, choose=None, unroll=None, on_iteration=None):
    """All-branches-taken shape of the text emitted by template function ``fn``.

    Returns list of Line.  Placeholders ``\x00k\x00`` in the text stand for the
    k-th expression of the line."""
    lines = []
    cur = {'text': '', 'exprs': [], 'tline': None, 'guards': None, 'loops': None}
    consts = dict(env or {})

    def flush(force=False):
        t = cur['text']
        if t.strip() or cur['exprs']:
            ind = len(t) - len(t.lstrip(' '))
            lines.append(Line(ind, t.strip(), cur['exprs'], cur['tline'], cur['guards'] or (), cur['loops'] or ()))
        cur['text'] = ''
        cur['exprs'] = []
        cur['tline'] = None
        cur['guards'] = None
        cur['loops'] = None

    def mark(s, guards, loops, off=0):
        if cur['tline'] is None:
            cur['tline'] = s.lineno + off
            cur['guards'] = tuple(guards)
            cur['loops'] = tuple(loops)

    def const_int(e):
        if isinstance(e, ast.Constant) and isinstance(e.value, int):
            return e.value
        if isinstance(e, ast.Name) and e.id in consts:
            return consts[e.id]
        if isinstance(e, ast.BinOp) and isinstance(e.op, ast.Add):
            a, b = const_int(e.left), const_int(e.right)
            if a is not None and b is not None:
                return a + b
        return None

    tlocals = {}     # template-level locals set in <% %> blocks: what they stand for is substituted where they are emitted (dest_range = helper.get_parallel_range(group))

    def subst(e):
        if not tlocals:
            return e

        class Sub(ast.NodeTransformer):
            def visit_Name(self, n):
                if isinstance(n.ctx, ast.Load) and n.id in tlocals:
                    return ast.copy_location(ast.parse(ast.unparse(tlocals[n.id]), mode='eval').body, n)
                return n
        return ast.fix_missing_locations(Sub().visit(ast.parse(ast.unparse(e), mode='eval').body))

    tpl = getattr(fn, '_tpl', None)
    KEEP_DEFS = ('indent', 'do_group', fn.name)

    def try_inline(call, base_ind, guards, loops, site):
        """`${some_def(args)}` / `${indent(some_def(args), lvl)}` with some_def another def of the template (one a maintainer has factored a block out into): its lines are
        emitted in place, parameters standing for the arguments, shifted by the indentation of the call site - what Mako does when the template runs"""
        if tpl is None or not isinstance(call, ast.Call) or not isinstance(call.func, ast.Name) or call.func.id in KEEP_DEFS or call.func.id not in tpl.defs or call.keywords:
            return False
        d = tpl.defs[call.func.id]
        params = [a.arg for a in d.args.args]
        if len(call.args) > len(params):
            return False
        saved_t, saved_c = dict(tlocals), dict(consts)
        for p_, a_ in zip(params, call.args):
            a2 = subst(a_)
            v_ = const_int(a2)
            if v_ is not None:
                consts[p_] = v_
                tlocals.pop(p_, None)
            elif not (isinstance(a2, ast.Name) and a2.id == p_):
                consts.pop(p_, None)
                tlocals[p_] = a2
        flush()
        start = len(lines)
        walk(d.body, guards, loops)
        flush()
        for l_ in lines[start:]:
            if l_.indent >= 0:
                l_.indent += base_ind
            l_.tline = site          # positions are those of the call site: rules order phases by where they are emitted
        tlocals.clear()
        tlocals.update(saved_t)
        consts.clear()
        consts.update(saved_c)
        return True

    def walk(stmts, guards, loops):
        for s in stmts:
            if is_emit(s, '__text__'):
                txt = emitted_text(s)
                parts = txt.split('\n')
                for i, p in enumerate(parts):
                    if i > 0:
                        flush()
                    if p:
                        mark(s, guards, loops, i)
                        cur['text'] += p
            elif is_emit(s, '__expr__'):
                e = subst(emitted_expr(s))
                if isinstance(e, ast.Call) and isinstance(e.func, ast.Name) and e.func.id == indent_name \
                        and len(e.args) >= 1:
                    lvl = const_int(e.args[1]) if len(e.args) > 1 else 0
                    # literal prefix before ${indent(...)} is a whitespace-only line
                    prefix = cur['text']
                    if prefix.strip():
                        flush()
                    cur['text'] = ''
                    cur['exprs'] = []
                    cur['tline'] = None
                    mark(s, guards, loops)
                    ind = 4 * lvl if lvl is not None else -1
                    a0 = e.args[0]
                    if ind >= 0 and try_inline(a0, ind, guards, loops, s.lineno):
                        cur['tline'] = None
                        cur['guards'] = None
                        cur['loops'] = None
                        continue
                    lit, lex = None, []
                    left = a0
                    while isinstance(left, ast.BinOp) and isinstance(left.op, (ast.Add, ast.Mod)):
                        left = left.left
                    if isinstance(a0, ast.Constant) and isinstance(a0.value, str):
                        lit = a0.value
                    elif isinstance(a0, ast.BinOp) and isinstance(left, ast.Constant) and isinstance(left.value, str) and left.value.lstrip().startswith('#') and '\n' not in left.value:
                        lit = '# (computed comment)'     # "# text" + something: the emitted line is a comment whatever the rest evaluates to
                    elif isinstance(a0, ast.BinOp) and isinstance(a0.op, ast.Mod) and isinstance(a0.left, ast.Constant) \
                            and isinstance(a0.left.value, str) and '\n' not in a0.left.value:
                        # 'literal %s text' % expr : literal text with spliced expressions
                        parts = a0.left.value.split('%s')
                        ops = list(a0.right.elts) if isinstance(a0.right, ast.Tuple) else [a0.right]
                        if len(parts) == len(ops) + 1:
                            lit = parts[0]
                            for k, o in enumerate(ops):
                                lit += '\x00%d\x00' % k + parts[k + 1]
                            lex = ops
                    if lit is None and isinstance(a0, ast.Call) and isinstance(a0.func, ast.Attribute) and a0.func.attr == 'format' and isinstance(a0.func.value, ast.Constant) \
                            and isinstance(a0.func.value.value, str) and '\n' not in a0.func.value.value:
                        # 'literal {name} text'.format(name=expr): literal text with spliced expressions, as with %
                        import string
                        try:
                            parts_ = list(string.Formatter().parse(a0.func.value.value))
                            kwv = dict((k_.arg, k_.value) for k_ in a0.keywords if k_.arg)
                            lit_, lex_, auto = '', [], 0
                            ok_ = True
                            for text_, field_, spec_, conv_ in parts_:
                                lit_ += text_
                                if field_ is None:
                                    continue
                                if field_ == '':
                                    src_e = a0.args[auto] if auto < len(a0.args) else None
                                    auto += 1
                                elif field_.isdigit():
                                    src_e = a0.args[int(field_)] if int(field_) < len(a0.args) else None
                                else:
                                    src_e = kwv.get(field_)
                                if src_e is None or spec_ or conv_:
                                    ok_ = False
                                    break
                                lit_ += '\x00%d\x00' % len(lex_)
                                lex_.append(src_e)
                            if ok_:
                                lit, lex = lit_, lex_
                        except ValueError:
                            pass
                    if lit is not None and '\n' not in lit:
                        lines.append(Line(ind, lit.strip(), lex, s.lineno, tuple(guards), tuple(loops)))
                    else:
                        lines.append(Line(ind, '\x000\x00', [a0], s.lineno, tuple(guards), tuple(loops)))
                    cur['tline'] = None
                    cur['guards'] = None
                    cur['loops'] = None
                elif not cur['text'].strip() and try_inline(e, len(cur['text']), guards, loops, s.lineno):
                    pass
                else:
                    mark(s, guards, loops)
                    cur['text'] += '\x00%d\x00' % len(cur['exprs'])
                    cur['exprs'].append(e)
            elif isinstance(s, ast.If):
                pick = choose(s.test) if choose is not None else None
                gt_ = subst(s.test) if tlocals else s.test
                if pick is None or pick:
                    walk(s.body, guards + [gt_], loops)
                if s.orelse and (pick is None or not pick):
                    walk(s.orelse, guards + [ast.UnaryOp(op=ast.Not(), operand=gt_)], loops)
            elif isinstance(s, ast.For):
                # a template loop is emitted once, or - when the caller asks - several times in a row (state kept in template variables such as an indent level
                # carries over from one iteration to the next exactly as it does when the template runs)
                sf = s
                if tlocals and any(isinstance(x, ast.Name) and x.id in tlocals for x in ast.walk(s.iter)):
                    # `% for dest in dests:` with dests a template local: the loop is over what the local stands for
                    sf = ast.copy_location(ast.For(target=s.target, iter=subst(s.iter), body=s.body, orelse=s.orelse), s)
                    ast.fix_missing_locations(sf)
                times = (unroll or {}).get(ast.unparse(sf.iter).replace(' ', ''), 1)
                for k in range(times):
                    if on_iteration is not None:
                        on_iteration(sf, k)
                    walk(s.body, guards, loops + [sf])
            elif isinstance(s, ast.Assign) and len(s.targets) == 1 and isinstance(s.targets[0], ast.Name):
                v = const_int(s.value)
                if v is not None:
                    consts[s.targets[0].id] = v
                    tlocals.pop(s.targets[0].id, None)
                else:
                    consts.pop(s.targets[0].id, None)
                    # a name for an expression over the template's arguments (no emission involved)
                    if not any(isinstance(x, ast.Name) and x.id == s.targets[0].id for x in ast.walk(s.value)):
                        tlocals[s.targets[0].id] = subst(s.value)
                    else:
                        tlocals.pop(s.targets[0].id, None)
            elif isinstance(s, ast.AugAssign) and isinstance(s.target, ast.Name):
                v = const_int(s.value)
                if s.target.id in consts and v is not None and isinstance(s.op, (ast.Add, ast.Sub)):
                    consts[s.target.id] += v if isinstance(s.op, ast.Add) else -v
                else:
                    consts.pop(s.target.id, None)
            elif isinstance(s, (ast.Pass, ast.Expr)):
                pass
            else:
                raise AnalysisError('template statement kind %s not handled in skeleton' % type(s).__name__)
    walk(fn.body, [], [])
    flush()
    return lines


def nest_parents(lines):
    """For each line index, the index of the innermost emitted block header
    (a line ending with ':') that encloses it by indentation, or None."""
    parents = []
    stack = []   # (indent, idx) of open headers
    code = [i for i, l in enumerate(lines) if l.indent >= 0 and not l.text.lstrip().startswith('#')]
    nxt = dict((a, b) for a, b in zip(code, code[1:]))
    for i, l in enumerate(lines):
        if l.indent < 0:
            parents.append(None)
            continue
        if l.text.lstrip().startswith('#'):
            parents.append(stack[-1][1] if stack else None)
            continue
        while stack and stack[-1][0] >= l.indent:
            stack.pop()
        parents.append(stack[-1][1] if stack else None)
        if l.text.rstrip().endswith(':') or (i in nxt and lines[nxt[i]].indent > l.indent):
            stack.append((l.indent, i))
    return parents


def ancestors(parents, i):
    out = []
    p = parents[i]
    while p is not None:
        out.append(p)
        p = parents[p]
    return out


def skeleton_source(lines, placeholder='__E%d_%d__'):
    """Text of a skeleton with every spliced expression replaced by an identifier, so that the
    emitted shape can be parsed by the target language's parser.  Returns (source, table) where
    table maps identifier -> (Line, expression ast)."""
    out = []
    table = {}
    code = [i for i, l in enumerate(lines) if l.indent >= 0 and not l.text.lstrip().startswith('#')]
    nxt = dict((a, b) for a, b in zip(code, code[1:]))
    for li, l in enumerate(lines):
        t = l.text
        for k, e in enumerate(l.exprs):
            ident = placeholder % (li, k)
            table[ident] = (l, e)
            t = t.replace('\x00%d\x00' % k, ident)
        # a spliced block that is followed by deeper text emits a block header (e.g. `while True:`)
        if li in nxt and lines[nxt[li]].indent > l.indent and not t.rstrip().endswith(':') and len(l.exprs) == 1 \
                and l.text.strip() == '\x000\x00':
            t = 'with %s:' % t.strip()
        out.append(' ' * max(l.indent, 0) + t)
    return '\n'.join(out) + '\n', table
