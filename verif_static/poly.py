"""Multivariate polynomials with rational coefficients (used by E3 and E7).

A monomial is a sorted tuple of (atom, exponent); atoms are strings.  A Poly
is a dict monomial -> Fraction.  Only ring operations; division is handled by
the callers (E3 keeps reciprocal atoms)."""
import ast
from fractions import Fraction


class Poly(object):
    __slots__ = ('t',)

    def __init__(self, terms=None):
        self.t = dict((k, v) for k, v in (terms or {}).items() if v != 0)

    @staticmethod
    def const(c):
        return Poly({(): Fraction(c)})

    @staticmethod
    def var(name):
        return Poly({((name, 1),): Fraction(1)})

    def __add__(self, o):
        r = dict(self.t)
        for k, v in o.t.items():
            r[k] = r.get(k, 0) + v
        return Poly(r)

    def __neg__(self):
        return Poly(dict((k, -v) for k, v in self.t.items()))

    def __sub__(self, o):
        return self + (-o)

    def __mul__(self, o):
        r = {}
        for k1, v1 in self.t.items():
            for k2, v2 in o.t.items():
                d = dict(k1)
                for a, e in k2:
                    d[a] = d.get(a, 0) + e
                k = tuple(sorted((a, e) for a, e in d.items() if e != 0))
                r[k] = r.get(k, 0) + v1 * v2
        return Poly(r)

    def __pow__(self, n):
        r = Poly.const(1)
        for _ in range(n):
            r = r * self
        return r

    def __eq__(self, o):
        return isinstance(o, Poly) and self.t == o.t

    def __ne__(self, o):
        return not self.__eq__(o)

    def __hash__(self):
        return hash(tuple(sorted(self.t.items())))

    def is_zero(self):
        return not self.t

    def is_const(self):
        return all(k == () for k in self.t)

    def const_value(self):
        return self.t.get((), Fraction(0))

    def atoms(self):
        return set(a for k in self.t for a, e in k)

    def subs(self, mapping):
        """mapping: atom -> Poly"""
        out = Poly()
        for k, v in self.t.items():
            term = Poly.const(v)
            for a, e in k:
                term = term * ((mapping[a] if a in mapping else Poly.var(a)) ** e)
            out = out + term
        return out

    def coeff_of(self, atom):
        """polynomial c such that self = c*atom + rest, for atom appearing with exponent 1 only;
        returns (c, rest) or None when atom appears with higher power"""
        c, rest = {}, {}
        for k, v in self.t.items():
            d = dict(k)
            if atom in d:
                if d[atom] != 1:
                    return None
                del d[atom]
                c[tuple(sorted(d.items()))] = v
            else:
                rest[k] = v
        return Poly(c), Poly(rest)

    def __str__(self):
        if not self.t:
            return '0'
        parts = []
        for k in sorted(self.t, key=lambda m: (-sum(e for a, e in m), m)):
            v = self.t[k]
            mon = '*'.join(a if e == 1 else '%s**%d' % (a, e) for a, e in k)
            if not mon:
                parts.append(str(v))
            elif v == 1:
                parts.append(mon)
            elif v == -1:
                parts.append('-' + mon)
            else:
                parts.append('%s*%s' % (v, mon))
        return ' + '.join(parts).replace('+ -', '- ')

    __repr__ = __str__


def from_ast(e, env=None):
    """ast expression -> Poly, or None if not polynomial.  ``env`` maps names to Poly."""
    env = env or {}
    if isinstance(e, ast.Constant) and isinstance(e.value, (int, float)) and not isinstance(e.value, bool):
        return Poly.const(Fraction(e.value).limit_denominator(10 ** 12) if isinstance(e.value, float) else e.value)
    if isinstance(e, ast.Name):
        return env.get(e.id, Poly.var(e.id))
    if isinstance(e, ast.UnaryOp) and isinstance(e.op, ast.USub):
        p = from_ast(e.operand, env)
        return None if p is None else -p
    if isinstance(e, ast.UnaryOp) and isinstance(e.op, ast.UAdd):
        return from_ast(e.operand, env)
    if isinstance(e, ast.BinOp):
        a, b = from_ast(e.left, env), from_ast(e.right, env)
        if a is None or b is None:
            return None
        if isinstance(e.op, ast.Add):
            return a + b
        if isinstance(e.op, ast.Sub):
            return a - b
        if isinstance(e.op, ast.Mult):
            return a * b
        if isinstance(e.op, ast.Pow) and b.is_const() and b.const_value().denominator == 1 and 0 <= b.const_value() <= 8:
            return a ** int(b.const_value())
        if isinstance(e.op, (ast.Div,)) and b.is_const() and b.const_value() != 0:
            return a * Poly.const(1 / b.const_value())
    return None
