"""Verdict / evidence / known-findings plumbing shared by all checks.

Exit codes: 0 = property clause held on everything analysed (known findings
printed as KNOWN-FINDING lines); 1 = at least one VIOLATED obligation that is
not a listed known finding (a ``VIOLATION property=<id> replay=<path>`` line is
printed for each); 2 = the analysis could not decide (vanished anchor, unknown
idiom on a frozen instance, front-end failure, instance count below floor,
traceback) -- printed as ``ANALYSIS-ERROR``, never as a violation.
"""
import json
import os
import sys
import time
import traceback

VERIF = os.path.dirname(os.path.dirname(os.path.abspath(__file__)))
REPO = os.environ.get('VERIF_REPO', '/repo')
EVIDENCE_DIR = os.environ.get('VERIF_EVIDENCE_DIR') or os.path.join(VERIF, 'evidence')
KNOWN = os.path.join(VERIF, 'known_findings.json')

HOLDS, VIOLATED, UNDECIDED = 'HOLDS', 'VIOLATED', 'UNDECIDED'


class AnalysisError(Exception):
    """The check cannot decide (anchor vanished, unknown idiom, ...)."""


class Ob(object):
    __slots__ = ('rule', 'instance', 'verdict', 'file', 'line', 'func', 'detail', 'key')

    def __init__(self, rule, instance, verdict, file='', line=0, func='', detail='', key=None):
        self.rule = rule
        self.instance = instance
        self.verdict = verdict
        self.file = file
        self.line = line
        self.func = func
        self.detail = detail
        # findings are keyed by rule + construct, never by line number
        self.key = key or ('%s:%s' % (rule, instance))

    def as_dict(self):
        return {'rule': self.rule, 'instance': self.instance, 'verdict': self.verdict,
                'where': '%s:%s' % (self.file, self.line) if self.file else '',
                'function': self.func, 'detail': self.detail, 'key': self.key}


class Check(object):
    def __init__(self, pid, level='other', tier=None, rule_text='', explanation=''):
        self.pid = pid
        self.level = level
        self.tier = tier or os.environ.get('VERIF_TIER') or 'quick'
        if self.tier not in ('quick', 'thorough'):
            self.tier = 'quick'
        try:
            self.seed = int(os.environ.get('VERIF_SEED', '0'))
        except ValueError:
            self.seed = 0
        self.obs = []
        self.units = {}          # what was analysed: name -> count or list
        self.assumptions = []
        self.notes = []
        self.errors = []         # analysis errors (exit 2)
        self.rule_text = rule_text
        self.explanation = explanation
        self.t0 = time.time()
        self.extra = {}
        self.replay = None

    # -- recording -------------------------------------------------------
    def ob(self, rule, instance, verdict, node=None, file='', func='', detail='', key=None, line=None):
        ln = line if line is not None else (getattr(node, 'src_lineno', getattr(node, 'lineno', 0)) if node is not None else 0)
        o = Ob(rule, instance, verdict, file, ln, func, detail, key)
        self.obs.append(o)
        return o

    def holds(self, rule, instance, **kw):
        return self.ob(rule, instance, HOLDS, **kw)

    def violated(self, rule, instance, **kw):
        return self.ob(rule, instance, VIOLATED, **kw)

    def undecided(self, rule, instance, **kw):
        """An obligation frozen as decidable turned undecidable -> analysis error."""
        o = self.ob(rule, instance, UNDECIDED, **kw)
        self.errors.append('UNDECIDED %s %s (%s:%s) %s' % (rule, instance, o.file, o.line, o.detail))
        return o

    def decide(self, cond, rule, instance, detail_bad='', detail_ok='', **kw):
        if cond:
            return self.holds(rule, instance, detail=detail_ok, **kw)
        return self.violated(rule, instance, detail=detail_bad, **kw)

    def error(self, msg):
        self.errors.append(msg)

    def unit(self, name, value):
        self.units[name] = value

    def assume(self, text):
        if text not in self.assumptions:
            self.assumptions.append(text)

    def note(self, text):
        self.notes.append(text)

    def floor(self, what, got, minimum):
        """A rule matching fewer instances than confirmed by hand fails the run."""
        self.units['count:' + what] = got
        # `minimum` is the count confirmed by hand on the pinned tree.  A maintainer who merges duplicated code (two identical branches into one) lowers the
        # count without changing behaviour, so the run fails only when the count falls below two thirds of it (and always when nothing matches): the floor
        # guards against a rule that silently stopped matching, not against tidier code.
        need = max(1, (2 * minimum + 2) // 3) if minimum > 0 else 0
        if got < need:
            self.error('instance count for %s fell to %d (< %d; %d confirmed by hand)' % (what, got, need, minimum))

    # -- known findings ----------------------------------------------------
    def _known(self):
        if not os.path.exists(KNOWN):
            return {}, []
        data = json.load(open(KNOWN))
        known = {}
        fixed = []
        for e in data.get('findings', []):
            if e.get('property') != self.pid:
                continue
            if e.get('status') == 'known':
                known[e['key']] = e
            else:
                fixed.append(e)
        return known, fixed

    # -- finish ------------------------------------------------------------
    def finish(self):
        wall = time.time() - self.t0
        known, fixed = self._known()
        viol = [o for o in self.obs if o.verdict == VIOLATED]
        new = [o for o in viol if o.key not in known]
        listed = [o for o in viol if o.key in known]
        n_ob = len(self.obs)
        n_holds = len([o for o in self.obs if o.verdict == HOLDS])
        rules = sorted(set(o.rule for o in self.obs))
        os.makedirs(EVIDENCE_DIR, exist_ok=True)
        replay_dir = os.path.join(EVIDENCE_DIR, 'replay')
        out_lines = []
        for o in listed:
            out_lines.append('KNOWN-FINDING: property=%s %s [%s] %s:%s %s' % (
                self.pid, known[o.key].get('what', o.detail), o.key, o.file, o.line, o.detail))
        replay_paths = []
        if new:
            os.makedirs(replay_dir, exist_ok=True)
        for i, o in enumerate(new):
            p = os.path.join(replay_dir, '%s_%d.json' % (self.pid, i))
            with open(p, 'w') as f:
                json.dump({'property': self.pid, 'tier': self.tier, 'obligation': o.as_dict(),
                           'how': 'cd /verif && ./check %s --replay %s' % (self.pid, p)}, f, indent=1)
            replay_paths.append(p)
            out_lines.append('  %s %s at %s:%s in %s: %s' % (o.rule, o.instance, o.file, o.line, o.func, o.detail))
            out_lines.append('VIOLATION property=%s replay=%s' % (self.pid, p))
        # sample obligations: violations first, then a spread of rules
        samples = [o.as_dict() for o in viol[:10]]
        seen = set()
        for o in self.obs:
            if o.rule not in seen and o.verdict == HOLDS:
                seen.add(o.rule)
                samples.append(o.as_dict())
        samples = samples[:60]
        distinct = len(set((o.rule, o.instance) for o in self.obs))
        cov = {
            'obligations': n_ob,
            'discharged': n_holds,
            'evaluations': n_ob,
            'distinct_nontrivial': distinct,
            'rule': self.rule_text or 'each obligation is one rule instance (rule, construct) matched in the '
                                      'current /repo sources; distinct = distinct (rule, instance) pairs',
            'explanation': self.explanation,
            'samples': samples,
            'rules': rules,
            'per_rule': {r: {'HOLDS': len([o for o in self.obs if o.rule == r and o.verdict == HOLDS]),
                             'VIOLATED': len([o for o in self.obs if o.rule == r and o.verdict == VIOLATED]),
                             'UNDECIDED': len([o for o in self.obs if o.rule == r and o.verdict == UNDECIDED])}
                         for r in rules},
            'units_analysed': self.units,
            'known_findings_reported': [o.key for o in listed],
            'new_violations': [o.as_dict() for o in new],
            'analysis_errors': self.errors,
            'notes': self.notes,
            'exhaustive': True,
            'checker_cmd': './check %s --tier %s' % (self.pid, self.tier),
            'trusted_base': ['CPython ast', 'Cython parser (as a library)', 'Mako lexer', 'the rule tables in /verif/checks'],
        }
        cov.update(self.extra)
        ev = {'property_id': self.pid, 'tier': self.tier, 'seed': self.seed, 'level': self.level,
              'coverage': cov, 'assumptions': self.assumptions, 'wall_s': round(wall, 3),
              'violations': len(new)}
        with open(os.path.join(EVIDENCE_DIR, self.pid + '.json'), 'w') as f:
            json.dump(ev, f, indent=1, default=str)
        print('%s tier=%s: %d obligations, %d hold, %d violated (%d listed as known), %d analysis errors, %.2fs'
              % (self.pid, self.tier, n_ob, n_holds, len(viol), len(listed), len(self.errors), wall))
        for r in rules:
            pr = cov['per_rule'][r]
            print('  rule %-40s holds=%d violated=%d undecided=%d' % (r, pr['HOLDS'], pr['VIOLATED'], pr['UNDECIDED']))
        for n in self.notes:
            print('  note: ' + n)
        for l in out_lines:
            print(l)
        if self.errors:
            for e in self.errors:
                print('ANALYSIS-ERROR property=%s %s' % (self.pid, e))
        if new:
            return 1
        if self.errors:
            return 2
        return 0


def run_check(pid, fn, level='other', rule_text='', explanation=''):
    """Standard entry point for checks/cNN.py."""
    import argparse
    ap = argparse.ArgumentParser()
    ap.add_argument('--tier', default=None)
    ap.add_argument('--replay', default=None)
    a = ap.parse_args()
    chk = Check(pid, level=level, tier=a.tier, rule_text=rule_text, explanation=explanation)
    chk.replay = a.replay
    try:
        fn(chk)
    except AnalysisError as e:
        chk.error('%s' % e)
    except Exception:
        tb = traceback.format_exc()
        chk.error('internal error in checker: ' + tb.strip().splitlines()[-1])
        sys.stderr.write(tb)
    try:
        from . import paths as _PT
        if _PT.TRUNCATED:
            # a rule that speaks about "every path" must have seen every path
            chk.error('path enumeration cut short at its cap (statement list starting at line %d, %d paths): a rule over all paths is undecided' % _PT.TRUNCATED[0])
    except ImportError:
        pass
    if chk.tier == 'thorough' and not os.environ.get('VERIF_SELFTEST_CHILD') and not a.replay:
        # the checker itself is tested both ways on scratch copies of the current tree (see selftest.py)
        try:
            from . import selftest
            res = selftest.run(pid, REPO)
            bad = [r for r in res if r[1] != 'ok']
            chk.unit('selftest', {'variants': len(res), 'fires-as-expected': len([r for r in res if r[1] == 'ok' and r[2].startswith('fires')]),
                                  'silent-as-expected': len([r for r in res if r[1] == 'ok' and r[2] == 'silent']), 'failed': ['%s: %s %s' % r for r in bad]})
            chk.extra['selftest'] = [{'variant': n, 'outcome': o, 'detail': d} for n, o, d in res]
            for n, o, d in bad:
                chk.error('selftest variant %s: %s %s' % (n, o, d))
            print('  selftest: %d variants, %d as expected' % (len(res), len(res) - len(bad)))
        except Exception:
            tb = traceback.format_exc()
            chk.error('selftest failed to run: ' + tb.strip().splitlines()[-1])
            sys.stderr.write(tb)
    rc = chk.finish()
    if a.replay:
        try:
            want = json.load(open(a.replay))['obligation']['key']
            still = [o for o in chk.obs if o.key == want and o.verdict == VIOLATED]
            print('REPLAY %s: %s' % (want, 'still violated' if still else 'not reproduced on this tree'))
            rc = 1 if still else (2 if chk.errors else 0)
        except Exception as e:
            print('REPLAY: cannot read %s: %r' % (a.replay, e))
            rc = 2
    sys.stdout.flush()
    sys.exit(rc)
