"""Triage only (not a check).  Run with the pre-built extension copy:
PYTHONPATH=/repo/build/lib.linux-x86_64-cpython-312 /venv/bin/python <this file>"""
import _overlay
import numpy as np
from pysph.base.particle_array import ParticleArray
from pysph.base.utils import get_particle_array
from pysph.sph.equation import Equation
from pysph.sph.acceleration_eval import AccelerationEval
from pysph.base.kernels import CubicSpline

class UsesVIJ(Equation):
    def loop(self, d_idx, d_au, VIJ, DWIJ):
        d_au[d_idx] += VIJ[0]*DWIJ[0]
pa = ParticleArray(name='f', x=[0., 1.], y=[0., 0.], z=[0., 0.], h=[1., 1.], au=[0., 0.])   # no u, v, w
try:
    a = AccelerationEval([pa], [UsesVIJ(dest='f', sources=['f'])], CubicSpline(dim=1))
    print('C20: accepted although u,v,w are missing; arrays the generator will dereference:',
          sorted(a.all_group.get_array_names()[1]))
except RuntimeError as e:
    print('C20: rejected:', e)

from pysph.sph.integrator import Integrator
class FakeEval: pass
pa2 = get_particle_array(name='g', x=[0., 1.], h=[2., 3.])
pa2.add_property('dt_cfl'); pa2.dt_cfl[:] = 1.0
I = Integrator(); fe = FakeEval(); fe.particle_arrays = [pa2]; I.acceleration_evals = [fe]
I.compute_h_minimum(); print('C19: hmin for h=[2,3], cached minimum never refreshed:', I.h_minimum)
pa2.get_carray('h').update_min_max(); I.compute_h_minimum()
print('C19: hmin after update_min_max:', I.h_minimum, '; compute_time_step(cfl=1) =', I.compute_time_step(0.1, 1.0), '-> expected 2.0')

from pysph.base.nnps import DomainManager, LinkedListNNPS
a1 = get_particle_array(name='a', x=[0.1, 0.9], y=[0.5, 0.5], h=[0.05, 0.05])
a2 = get_particle_array(name='b', x=[0.05], y=[0.5], h=[0.05])
dm = DomainManager(xmin=0., xmax=1., ymin=0., ymax=1., mirror_in_x=True, n_layers=2.0)
LinkedListNNPS(dim=2, particles=[a1, a2], domain=dm, radius_scale=2.0)
print('C07: mirror image of b at x=0.05 placed at', a2.get('x', only_real_particles=False)[1:], '-> expected [-0.05]')
