#!/bin/bash
# sweep.sh ID [kinds...] : run the property's check on behaviour-preserving whole-file transforms of its anchored .py files
id=$1; shift
kinds=${@:-reformat flip rename}
cd /verif
for kind in $kinds; do
  T=$(mktemp -d /tmp/xf_XXXX); cp -r ${SRC:-/repo}/pysph ${SRC:-/repo}/docs $T/
  /venv/bin/python /verif/tools/sweep/xform.py $id $kind $T >/dev/null 2>$T/err || { echo "$id $kind XFORM-ERR $(tail -1 $T/err)"; rm -rf $T; continue; }
  out=$(VERIF_REPO=$T VERIF_EVIDENCE_DIR=$T/_ev timeout 600 ./check $id --tier quick 2>&1); rc=$?
  echo "$id $kind rc=$rc"
  [ $rc -ne 0 ] && echo "$out" | grep -B1 "^VIOLATION\|^ANALYSIS" | grep -v "^VIOLATION\|^--" | cut -c1-${WIDTH:-220}
  rm -rf $T
done
