"""C12 - every shipped scheme yields a complete, generatable simulation (E8: abstract interpretation of the scheme set-up code).

For every Scheme subclass that provides setup_properties, every configuration of its options that its own code distinguishes
(each truth test / comparison on an option is a decision; all combinations are enumerated, with and without solid arrays,
clean True/False) is interpreted from the syntax trees: __init__, attributes_changed, get_equations, configure_solver and
setup_properties on plain particle arrays.  Then, per configuration,

  * every d_<name> argument of every hook of every equation built for a destination, and every s_<name> argument for each of
    its sources, and every d_<name> argument of the integrator steppers, must be a property or constant the array of that
    role has after setup_properties;
  * every equation / stepper is constructed with keywords its __init__ accepts and with all required ones;
  * setup_properties, get_equations and configure_solver complete (no KeyError / AttributeError / TypeError on the abstract
    arrays).

"A short run leaves all properties finite" is not decided, except for one structural clause of it: a pair hook of an equation whose destination is among its sources does not
divide by the pair distance outside a test on it (every particle is its own neighbour there).  Nothing is imported from the repository.
"""
import ast
import re
import os
import sys

sys.path.insert(0, os.path.dirname(os.path.dirname(os.path.abspath(__file__))))
from verif_static.core import run_check, AnalysisError  # noqa
from verif_static import model as M, eqindex as EI, absint as A  # noqa

NON_ARRAY = set(['d_idx', 's_idx'])
ROLE_WORDS = ('fluids', 'solids', 'bodies', 'boundaries')
# options that attach external machinery (its equations and properties are outside the property): evaluated with their documented default None
FIXED_NONE = ('inlet_outlet_manager',)


def scheme_classes(ci):
    out = []
    for rel, cls in sorted(ci.subclasses('Scheme'), key=lambda x: (x[0], x[1].lineno)):
        if cls.name == 'SchemeChooser':
            continue
        own = False
        for r2, c2 in ci.mro(rel, cls):
            if c2.name == 'Scheme':
                break
            if any(isinstance(s, ast.FunctionDef) and s.name == 'setup_properties' for s in c2.body):
                own = True
        out.append((rel, cls, own))
    return out


def new_particle_array(interp, args, kwargs, node, env):
    name = kwargs.get('name', 'array')
    consts = kwargs.get('constants') or {}
    if A.unknown(consts):
        consts = {}
    props = [k for k in kwargs if k not in ('name', 'constants', 'backend', '**')]
    return interp.new_pa(name, props, consts)


A.EXTERNAL_CALLS['pysph.base.particle_array.ParticleArray'] = new_particle_array


def is_role_param(p):
    return any(w in p for w in ROLE_WORDS)


def instantiate(it, cref):
    """run __init__ with every parameter an undecided option (role lists: one representative array or none)"""
    init = it.find_method(cref, '__init__')
    obj = A.Obj('scheme', __class__=cref)
    if init is None:
        return obj
    fn = init[2]
    args = {}
    params = [a.arg for a in fn.args.args][1:]
    defaults = dict(zip(params[len(params) - len(fn.args.defaults):], fn.args.defaults))
    for p in params:
        if is_role_param(p):
            if p == params[0]:
                # two arrays in the first role (two fluids): what a scheme does "for every fluid" must reach both
                args[p] = ['<%s>' % p, '<%s>#2' % p]
            else:
                none_default = p in defaults and isinstance(defaults[p], ast.Constant) and defaults[p].value is None
                v = it.cfg.decide(('role', p), ['some', 'none'])
                args[p] = ['<%s>' % p] if v == 'some' else (None if none_default else [])
        elif p in FIXED_NONE:
            args[p] = None
        else:
            args[p] = A.Sym(p, nullable=p in defaults and isinstance(defaults[p], ast.Constant) and defaults[p].value is None)
    it.call_function(A.FuncRef(init[0], fn, self_obj=obj, cls=init[1]), [], args, fn)
    return obj


def collect_equations(it, v, out, depth=0):
    if depth > 8:
        return
    if isinstance(v, (list, tuple)):
        for x in v:
            collect_equations(it, x, out, depth + 1)
    elif isinstance(v, A.Inst):
        names = [c.name for r, c in it.mro(v.cls)]
        if 'Equation' in names:
            out.append(v)
        else:
            for x in list(v.args) + list(v.kwargs.values()):
                collect_equations(it, x, out, depth + 1)


def hook_requirements(ci, cref, names):
    """(d names, s names) over the hooks resolved through the MRO"""
    d, s = {}, {}
    for hook, (rel, c2, fn) in EI.resolved_hooks(ci, cref.rel, cref.node, names).items():
        for a in fn.args.args:
            if a.arg in NON_ARRAY:
                continue
            if a.arg.startswith('d_'):
                d.setdefault(a.arg[2:], (hook, rel, fn))
            elif a.arg.startswith('s_'):
                s.setdefault(a.arg[2:], (hook, rel, fn))
    return d, s


PA_API = set(['gpu', 'backend', 'name', 'properties', 'constants', 'array', 'index', 'size', 'remove_particles', 'add_particles', 'get_carray', 'get', 'set', 'extract_particles',
              'append_parray', 'get_number_of_particles', 'num_real_particles', 'stride', 'default_values', 'output_property_arrays', 'add_property', 'add_constant', 'remove_property',
              'align_particles', 'resize', 'update_min_max', 'set_output_arrays', 'add_output_arrays', 'get_property_arrays', 'copy_properties', 'empty_clone', 'time',
              'remove_tagged_particles', 'set_num_real_particles', 'get_npy_array', 'ensure_properties', 'extend', 'set_pid', 'set_to_zero', 'set_device_helper'])


def python_hook_requirements(ci, cref):
    """names read as `dst.<name>` in the Python-level hooks (reduce / py_initialize take the destination array itself): properties or constants it must have"""
    out = {}
    for hook, (rel, c2, fn) in EI.resolved_hooks(ci, cref.rel, cref.node, ('reduce', 'py_initialize')).items():
        params = [a.arg for a in fn.args.args]
        if len(params) < 2:
            continue
        dst = params[1]
        for n in ast.walk(fn):
            if isinstance(n, ast.Attribute) and isinstance(n.value, ast.Name) and n.value.id == dst and n.attr not in PA_API and isinstance(n.ctx, ast.Load):
                par = getattr(n, 'parent', None)
                out.setdefault(n.attr, (hook, rel, fn))
    return out


def stage_names(cref, it):
    out = set()
    for rel, c in it.mro(cref):
        for m in c.body:
            if isinstance(m, ast.FunctionDef) and (m.name in ('initialize', 'py_stage1') or m.name.startswith('stage')):
                out.add(m.name)
    return tuple(sorted(out))


def check_constructor(it, inst):
    """keywords the class's __init__ does not take / required parameters not given"""
    init = it.find_method(inst.cls, '__init__')
    if init is None:
        return None
    fn = init[2]
    params = [a.arg for a in fn.args.args][1:]
    if fn.args.kwarg is not None or '**' in inst.kwargs:
        return None
    bad = [k for k in inst.kwargs if k not in params]
    if bad:
        return "unexpected keyword(s) %s for %s.__init__(%s)" % (sorted(bad), inst.cls.node.name, ', '.join(params))
    nreq = len(params) - len(fn.args.defaults)
    given = set(params[:len(inst.args)]) | set(inst.kwargs)
    missing = [p for p in params[:nreq] if p not in given]
    if missing and fn.args.vararg is None:
        return 'missing required argument(s) %s of %s.__init__' % (missing, inst.cls.node.name)
    if len(inst.args) > len(params) and fn.args.vararg is None:
        return 'too many positional arguments for %s.__init__' % inst.cls.node.name
    return None


def describe(cfg):
    parts = []
    for k, v, dom in cfg.trace:
        if k[0] == 'role':
            parts.append('%s %s' % ('with' if v == 'some' else 'no', k[1]))
        elif k[0] == 'truth':
            parts.append('%s%s' % ('' if v else 'not ', k[1]))
        elif k[0] == 'eq':
            if v:
                parts.append('%s == %r' % (k[1], k[2]))
        elif k[0] == 'value':
            parts.append('%s = %r' % (k[1], v))
        elif k[0] == 'arg' and v is not None:
            parts.append('%s=%s' % (k[1], v))
    return ', '.join(parts) or 'default'


def make_recorder(log):
    """wraps Scheme._ensure_properties: the strides asked for (copied before the call) are remembered per array, the real body is then interpreted"""
    def ensure(it, f, args, kwargs, node, env):
        vals = list(args)
        pa = vals[0] if vals else kwargs.get('pa')
        desired = vals[1] if len(vals) > 1 else kwargs.get('desired_props')
        if isinstance(pa, A.Obj) and not A.unknown(desired):
            for spec in it.iterate(desired, node):
                if isinstance(spec, dict) and isinstance(spec.get('name'), str) and isinstance(spec.get('stride', 1), int):
                    log.append((pa, spec['name'], spec.get('stride', 1), node, env.get('__rel__')))
        return it.call_function(f, args, kwargs, node)
    return ensure


def run_scheme(ci, rel, cls, cfg):
    strides = []
    it = A.Interp(ci, cfg, intrinsics={('pysph/sph/scheme.py', 'Scheme', '_ensure_properties'): make_recorder(strides)})
    cref = A.ClassRef(rel, cls)
    obj = instantiate(it, cref)
    res = {'equations': [], 'steppers': [], 'arrays': {}, 'ctor': [], 'stage': 'get_equations'}
    f = it.find_method(cref, 'get_equations')
    eqs = it.call_function(A.FuncRef(f[0], f[2], self_obj=obj, cls=f[1]), [], {}, f[2])
    collect_equations(it, eqs, res['equations'])
    res['stage'] = 'configure_solver'
    n0 = len(it.insts)
    f = it.find_method(cref, 'configure_solver')
    # integrator_cls: the documented default, or any integrator class the method itself distinguishes (compared with `is` / isinstance / issubclass)
    kwargs = {}
    cands = []
    params = [a.arg for a in f[2].args.args]
    if 'integrator_cls' in params:
        for n_ in ast.walk(f[2]):
            names = []
            if isinstance(n_, ast.Compare):
                names = [x for x in [n_.left] + list(n_.comparators) if isinstance(x, ast.Name)]
            elif isinstance(n_, ast.Call) and isinstance(n_.func, ast.Name) and n_.func.id in ('isinstance', 'issubclass') and len(n_.args) == 2:
                names = [x for x in ast.walk(n_.args[1]) if isinstance(x, ast.Name)]
            for x in names:
                if x.id.endswith('Integrator') and x.id not in cands:
                    cands.append(x.id)
        if cands:
            pick = cfg.decide(('arg', 'integrator_cls'), [None] + cands)
            if pick is not None:
                sc_ = {'__rel__': f[0]}
                for st_ in ast.walk(f[2]):
                    if isinstance(st_, (ast.Import, ast.ImportFrom)):
                        it.stmt(st_, sc_)
                val = sc_.get(pick) or it.lookup_global(f[0], pick)
                if isinstance(val, A.ClassRef):
                    kwargs['integrator_cls'] = val
    # the documented extra_steppers argument belongs to the caller (one dict is handed to several schemes / to a scheme configured again): it must come back as given
    extra = None
    if 'extra_steppers' in params:
        extra = {'<extra>': A.Obj('mock', name='extra stepper')}
        kwargs['extra_steppers'] = extra
    it.call_function(A.FuncRef(f[0], f[2], self_obj=obj, cls=f[1]), [], kwargs, f[2])
    res['extra_mutated'] = sorted(str(k_) for k_ in extra) if extra is not None and sorted(extra) != ['<extra>'] else None
    res['stage_gap'] = None
    for inst in it.insts[n0:]:
        names = [c.name for r, c in it.mro(inst.cls)]
        if 'Integrator' in names:
            have = set()
            for role, st in inst.kwargs.items():
                if isinstance(st, A.Inst):
                    res['steppers'].append((role, st))
                    for nm_ in stage_names(st.cls, it):
                        have.add(nm_[3:] if nm_.startswith('py_') else nm_)
            # every stage the integrator's one_timestep calls must be implemented by some stepper (the stage wrapper is generated only for names some stepper has)
            ot = it.find_method(inst.cls, 'one_timestep')
            if ot is not None:
                called = set(c.func.attr for c in ast.walk(ot[2]) if isinstance(c, ast.Call) and isinstance(c.func, ast.Attribute) and isinstance(c.func.value, ast.Name) and
                             c.func.value.id == 'self' and (c.func.attr.startswith('stage') and c.func.attr[5:].isdigit()))
                gap = sorted(called - have)
                if gap and have:
                    res['stage_gap'] = (inst, gap, sorted(have))
    res['stage'] = 'setup_properties'
    roles = []
    for k, v in obj.attrs.items():
        if isinstance(v, list) and all(isinstance(x, str) and x.startswith('<') for x in v):
            for x in v:
                if x not in roles:
                    roles.append(x)
    default_props = it.lookup_global('pysph/base/utils.py', 'DEFAULT_PROPS')
    if not isinstance(default_props, (set, frozenset)) or len(default_props) < 10:
        raise AnalysisError('DEFAULT_PROPS of pysph/base/utils.py could not be evaluated')
    particles = [it.new_pa(r, sorted(default_props)) for r in roles]
    f = it.find_method(cref, 'setup_properties')
    it.call_function(A.FuncRef(f[0], f[2], self_obj=obj, cls=f[1]), [particles], {'clean': A.Sym('clean')}, f[2])
    for pa in particles:
        res['arrays'][pa.attrs['name']] = pa
    res['type_conflicts'] = [(pa.attrs['name'],) + tc for pa in particles for tc in pa.attrs.get('type_conflicts', [])]
    for inst in res['equations'] + [s for r, s in res['steppers']]:
        bad = check_constructor(it, inst)
        if bad:
            res['ctor'].append((inst, bad))
    res['it'] = it
    res['strides'] = strides
    res['stage'] = 'done'
    return res


def rule_helpers_declared(chk, ci):
    """A Python helper function called from an equation hook is transpiled only when the class lists it in _get_helpers_(): otherwise the generated module calls an
    undefined name and cannot be built.  For every equation class: the repository Python functions its hooks call (resolved through the module's imports) are listed."""
    import os
    n = 0
    for rel, cls in EI.equations():
        hooks = EI.resolved_hooks(ci, rel, cls, EI.HOOKS)
        need = {}
        for h, (r2, c2, fn) in hooks.items():
            if h in ('reduce', 'py_initialize'):
                continue                      # run in Python
            imp = ci.imports.get(r2, {})
            t2 = ci.trees.get(r2)
            local = set(f.name for f in t2.body if isinstance(f, ast.FunctionDef)) if t2 is not None else set()
            for c in M.calls(fn):
                if not isinstance(c.func, ast.Name):
                    continue
                nm = c.func.id
                if nm in ('declare', 'printf', 'cast', 'annotate'):
                    continue              # compyle language primitives (modules may define same-named stubs to silence editors)
                if nm in local:
                    need.setdefault(nm, (h, fn, r2))
                elif nm in imp and imp[nm][1]:
                    mrel = imp[nm][0].replace('.', '/') + '.py'
                    if os.path.exists(os.path.join(M.REPO, mrel)):
                        try:
                            mt = M.py(mrel)
                        except Exception:
                            continue
                        if any(isinstance(f, ast.FunctionDef) and f.name == imp[nm][1] for f in mt.body):
                            need.setdefault(nm, (h, fn, r2))
        if not need:
            continue
        listed = set()
        gh = ci.lookup_method(rel, cls, '_get_helpers_')
        if gh is not None:
            r3, c3, f3 = gh
            t3 = ci.trees.get(r3)
            consts = dict((U(a.targets[0]), a.value) for a in (t3.body if t3 is not None else []) if isinstance(a, ast.Assign) and len(a.targets) == 1)
            for r_ in ast.walk(f3):
                if isinstance(r_, ast.Return) and r_.value is not None:
                    for x in ast.walk(r_.value):
                        if isinstance(x, ast.Name):
                            listed.add(x.id)
                            if x.id in consts:
                                listed |= set(y.id for y in ast.walk(consts[x.id]) if isinstance(y, ast.Name))
                            imp3 = ci.imports.get(r3, {}).get(x.id)
                            if imp3 and imp3[1]:
                                # a list constant imported from another module (HELPERS)
                                mrel3 = imp3[0].replace('.', '/') + '.py'
                                if os.path.exists(os.path.join(M.REPO, mrel3)):
                                    for a3 in M.py(mrel3).body:
                                        if isinstance(a3, ast.Assign) and len(a3.targets) == 1 and U(a3.targets[0]) == imp3[1]:
                                            listed |= set(y.id for y in ast.walk(a3.value) if isinstance(y, ast.Name))
        for nm, (h, fn, r2) in sorted(need.items()):
            n += 1
            chk.decide(nm in listed, 'helpers-declared', '%s:%s' % (cls.name, nm), node=fn, file=r2, func='%s.%s' % (cls.name, h),
                       detail_bad='%s.%s calls the Python helper %s(), which %s._get_helpers_() does not list (%s): the helper is not transpiled, the generated extension calls an '
                                  'undefined name and does not build whenever no other equation of the problem happens to bring it along' % (cls.name, h, nm, cls.name, sorted(listed)),
                       detail_ok='listed in _get_helpers_')
    chk.floor('helper calls in equation hooks', n, 10)


def rule_stepper_wrappers(chk):
    """IntegratorCythonHelper.get_stepper_code interpreted (E8) on a model integrator whose arrays use two stepper classes - one of them through two different objects -
    with a recording code generator: the generated source must hold the wrapper of every stepper class in use, once each (a class without a wrapper is an undeclared type
    in `cdef public <Cls> <array>_stepper`, a wrapper emitted twice is a redeclaration: neither module builds)"""
    from verif_static import emit as EM, absint as AI
    IHF = 'pysph/sph/integrator_cython_helper.py'
    fn = M.find_method(M.py(IHF), 'IntegratorCythonHelper', 'get_stepper_code')
    if fn is None:
        raise AnalysisError('IntegratorCythonHelper.get_stepper_code vanished')
    bad, nrun = None, 0
    try:
        for order in (('a', 'b', 'c'), ('b', 'a', 'c'), ('a', 'c', 'b')):
            it = EM.interpreter()
            EM.model_module(it, '<steppers>', 'class StepA(object):\n    pass\n\nclass StepB(object):\n    pass\n')
            cache = it.module_tree(IHF)[1]

            def name_of(o):
                c = getattr(o, 'attrs', {}).get('__class__')
                return getattr(getattr(c, 'node', None), 'name', repr(o))

            def generator(i, a, k, n, e):
                st = {'last': None}

                def parse(i2, a2, k2, n2, e2):
                    st['last'] = a2[0] if a2 else k2.get('obj')
                    return None

                def get_code(i2, a2, k2, n2, e2):
                    return 'WRAPPER<%s>' % name_of(st['last'])
                return EM.mock(parse=parse, get_code=get_code)
            cache['CythonGenerator'] = generator
            objs = {'a': EM.instance(it, '<steppers>', 'StepA'), 'b': EM.instance(it, '<steppers>', 'StepB'), 'c': EM.instance(it, '<steppers>', 'StepA')}
            from collections import OrderedDict
            steppers = OrderedDict((k, objs[k]) for k in order)
            h = EM.instance(it, IHF, 'IntegratorCythonHelper', object=EM.mock(steppers=steppers), acceleration_eval_helper=EM.mock(known_types={}))
            txt = str(EM.call(it, h, 'get_stepper_code'))
            nrun += 1
            got = sorted(re.findall(r'WRAPPER<([^>]*)>', txt))
            if got != ['StepA', 'StepB']:
                bad = bad or 'arrays %s with steppers %s: wrappers emitted for %s (expected StepA and StepB once each)' % (list(order), [name_of(objs[k]) for k in order], got)
        chk.decide(bad is None, 'stepper-wrappers-complete', 'one-wrapper-per-stepper-class:model-run', node=fn, file=IHF, func='IntegratorCythonHelper.get_stepper_code',
                   detail_bad='%s: the generated integrator declares `cdef public <Cls> <array>_stepper` for a class it never defines (or defines one twice) and cannot be built' % bad,
                   detail_ok='%d model integrators with two stepper classes over three arrays: every class wrapped exactly once' % nrun)
    except (AI.Unsupported, AI.Raised) as e:
        chk.undecided('stepper-wrappers-complete', 'one-wrapper-per-stepper-class:model-run', node=fn, file=IHF, func='IntegratorCythonHelper.get_stepper_code', detail='not interpretable: %s' % e)


def rule_typed_array_declarations(chk):
    """AccelerationEvalCythonHelper.get_array_declarations interpreted (E8) on a model problem with an integer and an unsigned-integer property next to the double ones: the
    d_* / s_* pointers of the generated evaluator are declared with the element type of the property they point into - `double*` for an int array (orig_idx, tag of the ghost
    update groups) is rejected by Cython, no code is generated"""
    from verif_static import emit as EM, absint as AI
    AH = 'pysph/sph/acceleration_eval_cython_helper.py'
    EQF = 'pysph/sph/equation.py'
    fn = M.find_method(M.py(AH), 'AccelerationEvalCythonHelper', 'get_array_declarations')
    try:
        it = EM.interpreter()
        grp = EM.instance(it, EQF, 'CythonGroup', get_array_names=lambda i, a, k, n, e: (set(['s_x', 's_tag']), set(['d_x', 'd_orig_idx', 'd_gid'])))
        kt = {'d_orig_idx': EM.mock(type='int*'), 's_tag': EM.mock(type='int*'), 'd_gid': EM.mock(type='unsigned int*'), 's_gid': EM.mock(type='unsigned int*'),
              'd_x': EM.mock(type='double*'), 's_x': EM.mock(type='double*')}
        h = EM.instance(it, AH, 'AccelerationEvalCythonHelper', object=EM.mock(all_group=grp), known_types=kt)
        txt = str(EM.call(it, h, 'get_array_declarations'))
        got = dict((l_.split()[-1], ' '.join(l_.split()[1:-1])) for l_ in txt.splitlines() if l_.strip().startswith('cdef'))
        want = {'d_orig_idx': 'int*', 's_tag': 'int*', 'd_gid': 'unsigned int*', 'd_x': 'double*', 's_x': 'double*'}
        chk.decide(got == want, 'typed-array-declarations', 'model-run', node=fn, file=AH, func='AccelerationEvalCythonHelper.get_array_declarations',
                   detail_bad='for arrays d_x, s_x (double), d_orig_idx, s_tag (int), d_gid (unsigned int) the evaluator declares %s; expected %s' % (got, want),
                   detail_ok='every pointer declared with the type of its property')
    except (AI.Unsupported, AI.Raised) as e:
        chk.undecided('typed-array-declarations', 'model-run', node=fn, file=AH, func='AccelerationEvalCythonHelper.get_array_declarations', detail='not interpretable: %s' % e)


def U(n_):
    return M.unparse(n_)


def main(chk):
    chk.explanation = ('Each obligation is one (scheme, constructed class, role, side) construction site - or one missing name at such a site - evaluated over every '
                       'configuration the scheme\'s own set-up code distinguishes: the d_*/s_* hook arguments of the class must be properties or constants the '
                       'role\'s array has after setup_properties on plain arrays; plus one obligation per scheme that its set-up code completes.  Requirements and '
                       'provisions are both computed by interpreting the scheme\'s syntax trees, so an option that adds an equation in get_equations without '
                       'adding its properties in setup_properties shows up for exactly the combinations that need it.')
    ci = EI.index()
    schemes = scheme_classes(ci)
    rule_helpers_declared(chk, ci)
    # a complete configuration is not rejected: each array is validated against its own stepper only (rule shared with C20)
    import importlib.util
    spec20 = importlib.util.spec_from_file_location('c20mod', os.path.join(os.path.dirname(os.path.abspath(__file__)), 'c20.py'))
    c20 = importlib.util.module_from_spec(spec20)
    spec20.loader.exec_module(c20)
    c20.rule_stepper_check_scope(chk)
    # the d_/s_ names an equation is validated against (and bound with) are computed from that equation, not remembered per class name (rule shared with C20)
    c20.rule_no_shortcut(chk)
    # the equations a scheme lists reach the generated code through MegaGroup._make_data: every destination gets its own equations, in the order listed (model run shared with C03)
    spec03 = importlib.util.spec_from_file_location('c03mod', os.path.join(os.path.dirname(os.path.abspath(__file__)), 'c03.py'))
    c03 = importlib.util.module_from_spec(spec03)
    spec03.loader.exec_module(c03)
    c03.rule_regroup(chk)
    # the integrator's steppers reach the generated code: every stepper class in use gets its wrapper (model run)
    rule_stepper_wrappers(chk)
    rule_typed_array_declarations(chk)
    chk.floor('Scheme subclasses', len(schemes), 17)
    total_cfg = 0
    total_sites = 0
    n_div = [0]
    n_data = [0]
    for rel, cls, own in schemes:
        who = cls.name
        if not own:
            chk.note('%s provides no setup_properties (outside the property)' % who)
            continue
        self_pair = {}
        it0_mro = A.Interp(ci, A.Config([])).mro(A.ClassRef(rel, cls))          # [(rel, ClassDef)] of the scheme and its bases
        missing = {}      # (kind, class, role, prop) -> (config text, node, rel, count)
        counted = set()
        ctor = {}
        crashes = {}
        undecided = {}
        sites = set()
        ncfg = nrej = 0
        last_stage = {}

        def run(cfg, rel=rel, cls=cls):
            return run_scheme(ci, rel, cls, cfg)
        try:
            for cfg, res in A.explore(run, cap=6000):
                ncfg += 1
                if isinstance(res, A.Raised):
                    if res.what.startswith('raise '):
                        nrej += 1
                        continue
                    key = res.what.split(' (keys')[0]
                    crashes.setdefault(key, (describe(cfg), res.node, res.rel))
                    continue
                it = res['it']
                first = {}
                for pa, pname, want, node, r2 in res['strides']:
                    first.setdefault(pname, want)
                for pa, pname, want, node, r2 in res['strides']:
                    want = first[pname]      # a spec list shared between arrays must mean the same for each of them
                    got = pa.attrs['stride'].get(pname, 1)
                    if pname in pa.attrs['properties'] and got != want and not pa.attrs['top']:
                        k = ('stride', 'setup_properties', pa.attrs['name'].split('#')[0], '%s:%s!=%s' % (pname, got, want))
                        if k not in missing:
                            missing[k] = [describe(cfg), node, r2, 0, '']
                        missing[k][3] += 1
                for aname, pname, have, asked, node_, rel_ in res.get('type_conflicts', []):
                    ctor.setdefault((cls.name, 'setup_properties asks for property `%s` of type %s on the %s array, which already has it as %s (from the property list the scheme starts from): '
                                     'add_property keeps the existing array, so the equations that declare an %s for it (idx = declare(\'int\'); idx = d_%s[d_idx]) do not compile' % (
                                         pname, asked, aname, have, asked, pname)), (describe(cfg), node_, rel_ or rel))
                if res.get('extra_mutated'):
                    f_ = res['it'].find_method(A.ClassRef(rel, cls), 'configure_solver')
                    ctor.setdefault((cls.name, 'configure_solver writes its own steppers into the caller\'s extra_steppers dict (it holds %s afterwards): the next scheme configured with the same '
                                     'dict - or this one after configure() changed the formulation - keeps the stale stepper, whose properties its arrays do not have' % res['extra_mutated']),
                                    (describe(cfg), f_[2], f_[0]))
                if res.get('stage_gap'):
                    inst_, gap, have = res['stage_gap']
                    ctor.setdefault((inst_.cls.node.name, 'one_timestep of %s calls %s but the steppers it is given implement only %s: the generated integrator has no such stage and the first '
                                     'step fails' % (inst_.cls.node.name, ['self.%s()' % g_ for g_ in gap], have)), (describe(cfg), inst_.node, inst_.rel))
                for inst, bad in res['ctor']:
                    ctor.setdefault((inst.cls.node.name, bad), (describe(cfg), inst.node, inst.rel))
                # an equation object is listed once: the generated evaluator declares one member per listed object, named by class and running number, so the same object in two
                # groups is declared twice under one name and the extension does not compile
                seen_ids = {}
                for inst in res['equations']:
                    if id(inst) in seen_ids:
                        ctor.setdefault((inst.cls.node.name, 'the same %s object is listed twice in the equations of the scheme (a group appended again instead of a new one): the generated '
                                         'evaluator declares it twice under one name and cannot be built' % inst.cls.node.name), (describe(cfg), inst.node, inst.rel))
                    seen_ids[id(inst)] = True
                for inst in res['equations']:
                    dest = inst.kwargs.get('dest', inst.args[0] if inst.args else None)
                    srcs = inst.kwargs.get('sources', inst.args[1] if len(inst.args) > 1 else None)
                    # an equation with per-source code (loop / loop_all / initialize_pair) needs a source: given an empty list it is filed as source-less and its pair
                    # code is emitted where no source array, no s_idx and no s_* pointer is bound
                    if isinstance(srcs, (list, tuple)) and len(srcs) == 0:
                        pair = sorted(EI.resolved_hooks(ci, inst.cls.rel, inst.cls.node, ('loop', 'loop_all', 'initialize_pair')))
                        if pair:
                            ctor.setdefault((inst.cls.node.name, '%s(dest=%r, sources=[]) is built with an empty source list although it has %s: the evaluator treats it as source-less and '
                                             'calls %s once per destination particle with nothing bound to its source arguments' % (inst.cls.node.name, dest, '/'.join(pair), pair[0])),
                                            (describe(cfg), inst.node, inst.rel))
                    # a destination that is among its own sources meets itself as a neighbour (distance zero): remembered for the division rule below
                    if isinstance(dest, str) and isinstance(srcs, (list, tuple)) and dest in srcs:
                        self_pair.setdefault((inst.cls.rel, inst.cls.node.name), (inst, describe(cfg)))
                    d, s = hook_requirements(ci, inst.cls, EI.HOOKS)
                    d = dict(d)
                    for nm_, site in python_hook_requirements(ci, inst.cls).items():
                        d.setdefault(nm_, site)
                    for role, need, side in [(dest, d, 'd')] + [(x, s, 's') for x in (srcs or [])]:
                        if not isinstance(role, str):
                            continue
                        pa = res['arrays'].get(role)
                        if pa is None or pa.attrs['top']:
                            continue
                        have = set(pa.attrs['properties']) | set(pa.attrs['constants'])
                        sites.add((inst.cls.node.name, role, side))
                        for prop, (hook, hrel, hfn) in need.items():
                            if prop not in have:
                                k = ('equation', inst.cls.node.name, role.split('#')[0], side + '_' + prop)
                                if k not in missing:
                                    missing[k] = [describe(cfg) + (' (the second array of the role)' if '#' in role else ''), inst.node, inst.rel, 0, hook]
                                if (k, id(cfg)) not in counted:
                                    counted.add((k, id(cfg)))
                                    missing[k][3] += 1
                for role, st in res['steppers']:
                    pa = res['arrays'].get(role)
                    if pa is None or pa.attrs['top']:
                        continue
                    have = set(pa.attrs['properties']) | set(pa.attrs['constants'])
                    d, s = hook_requirements(ci, st.cls, stage_names(st.cls, it))
                    sites.add((st.cls.node.name, role, 'step'))
                    for prop, (hook, hrel, hfn) in d.items():
                        if prop not in have:
                            k = ('stepper', st.cls.node.name, role.split('#')[0], 'd_' + prop)
                            if k not in missing:
                                missing[k] = [describe(cfg) + (' (the second array of the role)' if '#' in role else ''), st.node, st.rel, 0, hook]
                            if (k, id(cfg)) not in counted:
                                counted.add((k, id(cfg)))
                                missing[k][3] += 1
        except A.Unsupported as e:
            chk.undecided('scheme-interpretable', who, node=cls, file=rel, func=who, detail='the set-up code of %s uses a construct the interpreter does not model: %s' % (who, e))
            continue
        total_cfg += ncfg
        total_sites += len(sites)
        # an initial value that setup_properties computes for a property (add_property(name, data=...)) is applied in at least one configuration: a call that no configuration
        # reaches - e.g. because the property has already been created, without data, a few lines earlier - leaves the property at its default (0) although the equations of
        # the scheme start from the computed guess (and divide by it)
        if ncfg > 0:
            for r_sp, c_sp in it0_mro:
                sp_fn = M.methods(c_sp).get('setup_properties')
                if sp_fn is None:
                    continue
                for c_ in M.calls(sp_fn):
                    if isinstance(c_.func, ast.Attribute) and c_.func.attr == 'add_property' and any(k_.arg == 'data' for k_ in c_.keywords):
                        n_data[0] += 1
                        chk.decide((r_sp, c_.lineno) in A.DATA_SITES_EXECUTED, 'initial-values-applied', '%s:%s@%d' % (who, U(c_.args[0]) if c_.args else '?', c_.lineno), node=c_, file=r_sp,
                                   func='%s.setup_properties' % c_sp.name,
                                   detail_bad='`%s` is reached in none of the %d configurations of %s (the property exists already when the call is guarded by "not yet there"): '
                                              'the property keeps its default instead of the computed initial value the scheme\'s equations start from' % (U(c_)[:70], ncfg, who),
                                   detail_ok='executed')
        chk.unit('configurations:%s' % who, {'explored': ncfg, 'rejected by the scheme (explicit raise)': nrej, 'construction sites': len(sites)})
        for key, (conf, node, r2) in sorted(crashes.items()):
            chk.violated('setup-completes', '%s:%s' % (who, key[:70]), node=node, file=r2 or rel, func=who,
                         detail='%s - in the configuration [%s]: the scheme\'s set-up code fails on plain particle arrays named after their role' % (key, conf))
        if not crashes:
            chk.holds('setup-completes', who, node=cls, file=rel, func=who, detail='%d configurations interpreted to the end (%d rejected by an explicit raise)' % (ncfg, nrej))
        # "a short run leaves all properties finite", one structural clause of it: every particle is its own neighbour in an equation whose destination is among its sources,
        # with RIJ = R2IJ = 0 - a pair hook may divide by the distance only where a test on it (or an additive term in the denominator) keeps that pair out
        for (crel, cname), (inst, conf) in sorted(self_pair.items()):
            for hname, (hrel, hcls, hfn) in sorted(EI.resolved_hooks(ci, crel, inst.cls.node, ('loop', 'loop_all')).items()):
                zs = [a.arg for a in hfn.args.args if a.arg in ('RIJ', 'R2IJ')]
                if not zs:
                    continue
                M.set_parents(hfn)
                naked = []
                for dv in ast.walk(hfn):
                    if not (isinstance(dv, ast.BinOp) and isinstance(dv.op, (ast.Div, ast.FloorDiv, ast.Mod))):
                        continue

                    def bare(e):
                        # the denominator vanishes with the distance: the distance itself, a product / power / sqrt of it - not a sum with something else
                        if isinstance(e, ast.Name):
                            return e.id in zs
                        if isinstance(e, ast.BinOp) and isinstance(e.op, ast.Mult):
                            return bare(e.left) or bare(e.right)
                        if isinstance(e, ast.BinOp) and isinstance(e.op, ast.Pow):
                            return bare(e.left)
                        if isinstance(e, ast.Call) and M.call_name(e) in ('sqrt', 'abs', 'fabs') and e.args:
                            return bare(e.args[0])
                        return False
                    if not bare(dv.right):
                        continue
                    cur, guarded = dv, False
                    while cur is not hfn and not guarded:
                        par = getattr(cur, 'parent', None)
                        if par is None:
                            break
                        if isinstance(par, (ast.If, ast.IfExp, ast.While)) and cur is not par.test and any(isinstance(x, ast.Name) and x.id in zs for x in ast.walk(par.test)):
                            guarded = True
                        cur = par
                    if not guarded:
                        naked.append(dv)
                n_div[0] += 1
                chk.decide(not naked, 'self-pair-division', '%s:%s.%s' % (who, cname, hname), node=naked[0] if naked else hfn, file=hrel, func='%s.%s' % (hcls.name, hname),
                           detail_bad='%s builds %s with its destination among its sources (e.g. [%s]), so every particle meets itself with %s = 0; line %d divides by it (`%s`) outside any '
                                      'test on the distance: 0/0 - the accelerations, then every property they feed, become NaN in the first step' % (
                                          who, cname, conf, '/'.join(zs), getattr(naked[0], 'lineno', 0) if naked else 0, U(naked[0])[:60] if naked else ''),
                           detail_ok='every division by %s sits under a test on it' % '/'.join(zs))
        for (cname, bad), (conf, node, r2) in sorted(ctor.items()):
            chk.violated('constructor-keywords', '%s:%s' % (who, cname), node=node, file=r2 or rel, func=who, detail='%s - configuration [%s]' % (bad, conf))
        for (kind, cname, role, prop), (conf, node, r2, cnt, hook) in sorted(missing.items()):
            if kind == 'stride':
                pn, rest = prop.split(':')
                got, want = rest.split('!=')
                chk.violated('strides-as-requested', '%s:%s:%s' % (who, role.strip('<>'), pn), node=node, file=r2 or rel, func='%s.setup_properties' % who,
                             detail='the %s array ends up with stride %s for `%s` although setup_properties asked for %s (%d of %d configurations, e.g. [%s]): the array is too short for the '
                                    'equations that index it with that stride' % (role.strip('<>'), got, pn, want, cnt, ncfg, conf))
                continue
            chk.violated('requirements-provided', '%s:%s:%s:%s' % (who, cname, role.strip('<>'), prop), node=node, file=r2 or rel, func='%s.%s' % (who, 'get_equations' if kind == 'equation' else 'configure_solver'),
                         detail='%s.%s needs %s on the %s array, which setup_properties does not provide in %d of %d configurations, e.g. [%s]'
                                % (cname, hook, prop, role.strip('<>'), cnt, ncfg, conf))
        if not any(k[0] == 'stride' for k in missing):
            chk.holds('strides-as-requested', who, node=cls, file=rel, func=who, detail='every strided property has the requested stride on every array that receives it')
        bad_sites = set((c, r) for k, c, r, p in missing)
        for cname, role, side in sorted(sites):
            if (cname, role) not in bad_sites:
                chk.holds('requirements-provided', '%s:%s:%s:%s' % (who, cname, role.strip('<>'), side), node=cls, file=rel, func=who,
                          detail='every %s argument provided in every configuration that builds it' % ('d_*' if side != 's' else 's_*'))
    chk.unit('configurations explored', total_cfg)
    chk.floor('configurations explored', total_cfg, 1000)
    chk.floor('construction sites (class, role, side)', total_sites, 350)
    chk.assume('option values are independent; every truth test / comparison of an option in the set-up code is explored both ways (a superset of the documented combinations)')
    chk.assume('arrays of the precomputed symbols (x, y, z, u, v, w, h, m, rho) are not part of the requirement sets; for the Python-level hooks (reduce / py_initialize) the names read as dst.<name> are')
    chk.assume('particle arrays start as get_particle_array() defaults and are named after their role; inlet/outlet managers and user create_particles are outside')


if __name__ == '__main__':
    run_check('C12', main)
