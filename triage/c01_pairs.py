"""Triage only: per (source, destination) pair failures of the SFC based classes, uniform and variable h."""
import _overlay
import itertools
import numpy as np
from pysph.base.utils import get_particle_array
from pysph.base import nnps as N
from cyarray.api import UIntArray
def run(name, kw, dim, varh, sizes=(600, 200), seed=3):
    rng = np.random.default_rng(seed)
    pas = []
    for k, m in enumerate(sizes):
        x = rng.random(m); y = rng.random(m) if dim > 1 else np.zeros(m); z = rng.random(m) if dim > 2 else np.zeros(m)
        h = 0.05 * (1 + 2 * rng.random(m)) if varh else np.full(m, 0.08)
        pas.append(get_particle_array(name='a%d' % k, x=x, y=y, z=z, h=h))
    nn = getattr(N, name)(dim=dim, particles=pas, radius_scale=2.0, **kw)
    res = {}
    for s, d in itertools.product(range(len(pas)), repeat=2):
        S, D = pas[s], pas[d]
        X = np.c_[S.x, S.y, S.z]
        bad = miss = extra = 0
        for i in range(0, D.get_number_of_particles(), 5):
            nb = UIntArray(); nn.get_nearest_particles(s, d, i, nb)
            got = set(nb.get_npy_array().tolist())
            dist = np.linalg.norm(X - np.array([D.x[i], D.y[i], D.z[i]]), axis=1)
            want = set(np.where((dist < 2 * D.h[i]) | (dist < 2 * S.h))[0].tolist())
            bad += got != want; miss += len(want - got); extra += len(got - want)
        res[(s, d)] = (bad, miss, extra)
    return res
for name, kw in (('ZOrderNNPS', {}), ('ZOrderNNPS', {'H': 2}), ('ExtendedZOrderNNPS', {'H': 2}), ('ExtendedZOrderNNPS', {'H': 3, 'asymmetric': True}),
                 ('StratifiedSFCNNPS', {'num_levels': 1}), ('StratifiedSFCNNPS', {'num_levels': 2})):
    for dim in (2, 3):
        for varh in (False, True):
            for sizes in ((600,), (600, 200)):
                r = run(name, kw, dim, varh, sizes)
                print('%-20s %-28s dim=%d %s arrays=%d  (src,dst)->(wrong lists, missing, spurious): %s' % (
                    name, kw, dim, 'variable-h' if varh else 'uniform-h ', len(sizes), r), flush=True)
