import _overlay
import numpy as np, sys, faulthandler; faulthandler.enable()
from pysph.base.utils import get_particle_array
from pysph.base.nnps import ZOrderNNPS, LinkedListNNPS
from cyarray.api import UIntArray
cls = ZOrderNNPS if sys.argv[1]=='z' else LinkedListNNPS
cache = sys.argv[2]=='1'
rng=np.random.default_rng(0)
n=2000
pa=get_particle_array(name='a', x=rng.random(n),y=rng.random(n),z=rng.random(n),h=np.full(n,0.1))
nn=cls(dim=3, particles=[pa], radius_scale=2.0, cache=cache)
def brute(i):
    X=np.c_[pa.x,pa.y,pa.z]; d=np.linalg.norm(X-X[i],axis=1); return set(np.where(d<0.2)[0])
def q(i):
    nb=UIntArray(); nn.get_nearest_particles(0,0,i,nb); return set(nb.get_npy_array().tolist())
nn.set_context(0,0) if len(sys.argv)>3 else None
print('before', q(5)==brute(5), flush=True)
bad=0
for it in range(8):
    s=1.0+it  # grow the domain so key tables change size
    pa.x[:]=rng.random(n)*s; pa.y[:]=rng.random(n)*s; pa.z[:]=rng.random(n)*s
    junk=[bytearray(50000+1000*it) for _ in range(20)]
    nn.update()
    for i in (5,150,1500):
        bad += (q(i)!=brute(i))
print('mismatches after updates:', bad, flush=True)
