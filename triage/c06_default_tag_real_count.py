"""Triage only (not a check): first particles given to an empty ParticleArray whose default tag is not Local.
Run: cd /verif/triage && [TRIAGE_EXT=<dir>] timeout 60 /venv/bin/python c06_default_tag_real_count.py"""
import _overlay
import sys
import numpy as np
from pysph.base.particle_array import ParticleArray
bad = 0
for tag in (0, 1, 2):
    pa = ParticleArray(name='a', default_particle_tag=tag)
    pa.add_property('x', data=np.array([1., 2., 3.]))
    tags = pa.get('tag', only_real_particles=False)
    want = int((tags == 0).sum())
    got = pa.get_number_of_particles(True)
    print('default tag %d: tags %s, number of real particles %d (Local tags: %d)' % (tag, tags.tolist(), got, want))
    bad += got != want
sys.exit(1 if bad else 0)
