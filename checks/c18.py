"""C18 - the solver controller never loses a command or a wake-up (lock analysis, DESIGN.md C18)."""
import ast
import os
import sys

sys.path.insert(0, os.path.dirname(os.path.dirname(os.path.abspath(__file__))))
from verif_static.core import run_check, AnalysisError  # noqa
from verif_static import model as M, cfg as C, locks as L  # noqa

CT = 'pysph/solver/controller.py'
SOL = 'pysph/solver/solver.py'

# attribute -> lock that every write from an interface/solver entry point must hold (frozen after reading)
LOCKSET = {'queue': 'qlock', 'queue_dict': 'qlock', 'results': 'res_lock', 'pause': 'plock', 'solver_paused': 'plock'}
# (attribute, function) pairs exempt from LOCKSET, one reason each
LOCKSET_EXEMPT = {
    ('queue', 'sync_commands'): 'solver thread only: re-binds the broadcast value (identity in serial runs)',
    ('queue_dict', 'sync_commands'): 'same',
    ('pause', 'sync_commands'): 'same; pause/continue is refused in parallel runs (pause_on_next returns False)',
}


def U(n):
    return M.unparse(n)


def stmt_of(fn, node):
    """the statement of fn that contains node"""
    for st in ast.walk(fn):
        if isinstance(st, ast.stmt) and not isinstance(st, (ast.FunctionDef, ast.If, ast.With, ast.For, ast.While, ast.Try)) and any(node is x for x in ast.walk(st)):
            return st
    return node if isinstance(node, ast.stmt) else None


COPIERS = ('dict', 'list', 'set', 'tuple', 'sorted', 'frozenset', 'copy.copy', 'copy.deepcopy', 'deepcopy', 'copy')


def copied_shared(fn, stmt, shared):
    """copies of shared containers that flow into the value assigned by stmt (through the locals of fn)"""
    defs = {}
    for a in ast.walk(fn):
        if isinstance(a, ast.Assign) and isinstance(a.targets[0], ast.Name):
            defs.setdefault(a.targets[0].id, []).append(a.value)
    st = stmt if isinstance(stmt, ast.Assign) else stmt_of(fn, stmt)
    if not isinstance(st, ast.Assign):
        return []
    out, todo, seen = [], [st.value], set()
    while todo:
        e = todo.pop()
        for n in ast.walk(e):
            if isinstance(n, ast.Call):
                nm = M.call_name(n) or ''
                args = [U(a_) for a_ in n.args]
                if (nm in COPIERS and any(a_.startswith('self.') and a_[5:] in shared for a_ in args)) or \
                        (nm.endswith('.copy') and nm.startswith('self.') and nm[5:-5] in shared):
                    out.append(U(n))
            if isinstance(n, (ast.ListComp, ast.DictComp, ast.SetComp)) and any(U(g.iter).startswith('self.') and U(g.iter)[5:].split('.')[0] in shared for g in n.generators):
                out.append(U(n)[:40])
            if isinstance(n, ast.Name) and n.id in defs and n.id not in seen:
                seen.add(n.id)
                todo.extend(defs[n.id])
    return out


def entries_from(tree, lm):
    """thread entry points of CommandManager: whatever Controller forwards to, plus the solver hook"""
    ctl = M.find_class(tree, 'Controller')
    out = set()
    for a in ast.walk(ctl):
        if isinstance(a, ast.Attribute) and isinstance(a.value, ast.Attribute) and 'command_manager' in a.value.attr \
                and a.attr in lm.meths:
            out.add(a.attr)
    out.add('execute_commands')
    return out


def command_targets(cls):
    """methods reachable through self.dispatch_dict[...]"""
    sets = {}
    for s in cls.body:
        if isinstance(s, ast.Assign) and isinstance(s.targets[0], ast.Name) and isinstance(s.value, ast.Call) \
                and M.call_name(s.value) == 'set':
            sets[s.targets[0].id] = set(M.str_consts(s.value))
    tg = set()
    for s in cls.body:
        if isinstance(s, ast.Assign) and U(s.targets[0]) == 'dispatch_dict' and isinstance(s.value, ast.Dict):
            tg |= set(U(v) for v in s.value.values)
        if isinstance(s, ast.For) and any(isinstance(a, ast.Assign) and U(a.targets[0]).startswith('dispatch_dict[') for a in s.body):
            a = s.body[0]
            if isinstance(a.value, ast.Name):
                tg.add(a.value.id)
            else:
                tg |= sets.get(U(s.iter), set())
    return tg


def main(chk):
    chk.explanation = ('Lock analysis of CommandManager, exhaustive over its lock objects and acquire/wait/notify sites: '
                       'lock-order graph over with-nesting and call-graph summaries must be acyclic; every Condition.wait sits in '
                       'a predicate loop whose state some other entry point writes and then notifies under the lock; frozen '
                       'lockset table for shared attributes; per-command lock created acquired before publication, released '
                       'exactly once in a finally, result consumed under the command lock.')
    tree = M.py(CT)
    cls_raw = M.find_class(tree, 'CommandManager')
    # private helpers a maintainer may have factored out of the entry points are inlined again (model.inline_helpers): the rules below are written against the
    # entry points of the pinned tree; anything else that starts with an underscore and is called at statement level is analysed as part of its caller
    VOCAB = set(M.methods(cls_raw))
    PINNED = ('__init__', 'add_interface', 'add_function', 'execute_commands', 'wait_for_cmd', 'run_queued_commands', 'run_command', 'pause_on_next', 'wait', 'cont', 'get_result',
              'get_task_lock', 'get_prop', 'set_prop', 'solver_method', 'get_status', 'get_task_status', 'set_log_level', 'dispatch', 'get_particle_array_names',
              'get_named_particle_array', 'get_particle_array_index', 'get_particle_array_from_procs', 'get_particle_array_combined', 'get_output_directory')
    cls = M.inlined_class(cls_raw, keep=set(PINNED) | set(n_ for n_ in VOCAB if not n_.startswith('_')))
    # normal forms: a lock named through a local (`cond = self.plock; with cond:`) is that lock; `while True: if C: break` is `while not C`
    cls = M.predicate_loops(M.self_aliases_inlined(cls))
    lm = L.LockModel(cls, lock_map_attrs=('queue_lock_map',))
    for need in ('rlock', 'res_lock', 'plock', 'qlock'):
        if need not in lm.locks:
            raise AnalysisError('lock attribute %s vanished from CommandManager.__init__' % need)
    entries = entries_from(tree, lm)
    chk.unit('thread entry points', sorted(entries))
    chk.unit('locks', lm.locks)
    chk.floor('thread entry points', len(entries), 6)
    # synthetic call edges through the command table
    tg = command_targets(cls) & set(lm.meths)
    chk.floor('command-table targets', len(tg), 8)
    for name, fn in lm.meths.items():
        for c in M.calls(fn):
            if isinstance(c.func, ast.Subscript) and U(c.func.value) == 'self.dispatch_dict':
                held = None
                for s in lm.calls + lm.acq + lm.ops:
                    pass
                # find the held set at this call: re-walk via the enclosing withs
                h = []
                p = c
                while p is not None and p is not fn:
                    p = getattr(p, 'parent', None)
                    if isinstance(p, ast.With):
                        for it in p.items:
                            lk = lm.lock_of(it.context_expr, {})
                            if lk:
                                h.insert(0, lk)
                if name in lm.func_locks:
                    h.insert(0, lm.func_locks[name])
                for t in sorted(tg):
                    lm.calls.append(L.Site(name, c, h, callee=t))
    lm._entry_held = None
    eh = lm.entry_held(entries)
    chk.unit('locks held on entry', dict((k, sorted(v)) for k, v in eh.items() if v))

    # ---- 0. the @synchronized decorator (whose lock the model above takes as held around the decorated function, and as released when it is left): the call of the wrapped
    # function happens with the lock held and the lock is released however the function is left - a `with` block, or acquire() in front of a try whose finally releases
    dec = M.find_func(tree, 'synchronized')
    inner = [f for f in ast.walk(dec) if isinstance(f, ast.FunctionDef) and f is not dec and any(isinstance(c.func, ast.Name) and c.func.id == 'func' for c in M.calls(f))
             and not any(isinstance(g_, ast.FunctionDef) and g_ is not f for g_ in ast.walk(f))]
    if not inner:
        raise AnalysisError('synchronized(): the wrapper that calls the decorated function was not found')
    M.set_parents(dec)
    for f in inner:
        for c in [c for c in M.calls(f) if isinstance(c.func, ast.Name) and c.func.id == 'func']:
            held = released = False
            node = c
            while node is not f:
                par = node.parent
                if isinstance(par, ast.With) and node in par.body and any(isinstance(it_.context_expr, ast.Name) and it_.context_expr.id == 'lock' for it_ in par.items):
                    held = released = True
                if isinstance(par, ast.Try) and node in par.body and any(isinstance(x, ast.Call) and U(x.func) == 'lock.release' for st in par.finalbody for x in ast.walk(st)):
                    released = True
                for fld in ('body', 'orelse', 'finalbody'):
                    blk = getattr(par, fld, None)
                    if isinstance(blk, list) and node in blk:
                        # an unconditional blocking acquire in front (a non-blocking attempt followed by a blocking one under `if not ...` counts: both ways the lock is held)
                        for st in blk[:blk.index(node)]:
                            if isinstance(st, ast.Expr) and isinstance(st.value, ast.Call) and U(st.value.func) == 'lock.acquire' and not st.value.args and not st.value.keywords:
                                held = True
                            if isinstance(st, ast.If) and isinstance(st.test, ast.UnaryOp) and isinstance(st.test.op, ast.Not) and isinstance(st.test.operand, ast.Call) and \
                                    U(st.test.operand.func) == 'lock.acquire' and not st.orelse and \
                                    any(isinstance(x, ast.Expr) and isinstance(x.value, ast.Call) and U(x.value.func) == 'lock.acquire' and not x.value.args for x in st.body):
                                held = True
                node = par
            chk.decide(held and released, 'command-lock-handoff', 'synchronized:%s:lock-held-and-always-released' % f.name, node=c, file=CT, func='synchronized.' + f.name,
                       detail_bad='the decorated function is called %s: dispatch() raises for an unknown command / property, the interfaces catch that and go on - with the lock '
                                  'still held every later dispatch() blocks for ever' % ('without the lock being held' if not held else 'with the lock held, but an exception in it skips lock.release()'),
                       detail_ok='called under `with lock` / acquire - try - finally release')
    # ---- 1. lock order
    edges = lm.order_edges(entries)
    cyc = lm.cycles(edges)
    in_cycle = set()
    for c in cyc:
        for a, b in zip(c, c[1:]):
            in_cycle.add((a, b))
    for (a, b), sites in sorted(edges.items()):
        s = sites[0]
        if a == b:
            chk.violated('lock-order', '%s->%s' % (a, b), node=s.node, file=CT, func=s.func,
                         detail='non re-entrant lock %s acquired while already held (self-deadlock)' % a)
        elif (a, b) in in_cycle:
            other = [c for c in cyc if (a, b) in zip(c, c[1:])][0]
            rev = []
            for x, y in zip(other, other[1:]):
                if (x, y) != (a, b):
                    r = edges[(x, y)][0]
                    rev.append('%s->%s in %s (line %d)' % (x, y, r.func, r.line))
            chk.violated('lock-order', '%s->%s' % (a, b), node=s.node, file=CT, func=s.func,
                         detail='%s is acquired while %s is held in %s, but the opposite order exists: %s; two threads can '
                                'block each other forever' % (b, a, s.func, '; '.join(rev)))
        else:
            chk.holds('lock-order', '%s->%s' % (a, b), node=s.node, file=CT, func=s.func,
                      detail='%d site(s); no path back from %s to %s' % (len(sites), b, a))
    chk.floor('lock-order edges', len(edges), 4)

    # ---- 2. condition waits / notifies
    waits = [o for o in lm.ops if o.op == 'wait']
    chk.floor('Condition.wait sites', len(waits), 2)
    for o in lm.ops:
        if o.op in ('wait', 'notify', 'notify_all', 'notifyAll'):
            H = set(o.held) | set(eh[o.func])
            chk.decide(o.lock in H, 'condition-used-under-its-lock', '%s.%s@%s' % (o.lock, o.op, o.func), node=o.node, file=CT,
                       func=o.func, detail_bad='%s.%s() without holding %s' % (o.lock, o.op, o.lock), detail_ok='held')
    for w in waits:
        inst = '%s.wait@%s' % (w.lock, w.func)
        loop = w.loop
        # the while must be inside the `with lock` (predicate re-checked under the lock)
        if loop is None:
            chk.violated('wait-in-predicate-loop', inst, node=w.node, file=CT, func=w.func,
                         detail='%s.wait() is not inside a `while <predicate>` loop: a notification sent before the wait starts is '
                                'lost and the waiter blocks forever; spurious wake-ups are not filtered either' % w.lock)
            continue
        pred = sorted(set(a.attr for a in ast.walk(loop.test) if isinstance(a, ast.Attribute) and isinstance(a.value, ast.Name)
                          and a.value.id == 'self' and a.attr not in lm.locks))
        if not pred:
            chk.violated('wait-in-predicate-loop', inst, node=loop, file=CT, func=w.func,
                         detail='loop around %s.wait() tests %s, which reads no shared state' % (w.lock, U(loop.test)))
            continue
        chk.holds('wait-in-predicate-loop', inst, node=loop, file=CT, func=w.func, detail='while %s' % U(loop.test))
        # the predicate must be evaluated while the condition's lock is held: `with L:` encloses the loop, not the reverse
        holder = None
        p_ = w.node
        while p_ is not None and p_ is not loop:
            p_ = getattr(p_, 'parent', None)
            if isinstance(p_, ast.With) and any(lm.lock_of(it.context_expr, {}) == w.lock for it in p_.items):
                holder = p_
                break
        inner_hold = holder is not None      # lock taken inside the loop body => test runs without it
        outer = False
        q_ = loop
        while q_ is not None:
            q_ = getattr(q_, 'parent', None)
            if isinstance(q_, ast.With) and any(lm.lock_of(it.context_expr, {}) == w.lock for it in q_.items):
                outer = True
        outer = outer or (w.lock in eh[w.func])
        chk.decide(outer and not inner_hold, 'predicate-checked-under-lock', inst, node=loop, file=CT, func=w.func,
                   detail_bad='`while %s` is evaluated without holding %s (the lock is taken only around the wait): a state change plus '
                              'notification between the test and the wait is lost and the waiter sleeps forever' % (U(loop.test), w.lock),
                   detail_ok='with %s: while ...: wait()' % w.lock)
        # waiters that do not consume the predicate all become runnable together: the wake-up must be a broadcast
        consumes = any(x.func == w.func and x.attr in pred for x in lm.writes)
        if not consumes:
            for m in lm.meths:
                wr = [x for x in lm.writes if x.func == m and x.attr in pred]
                for nt in [x for x in lm.ops if x.func == m and x.lock == w.lock and x.op in ('notify', 'notify_all', 'notifyAll')]:
                    if wr:
                        chk.decide(nt.op != 'notify', 'broadcast-wakeup', '%s.%s@%s' % (w.lock, nt.op, m), node=nt.node, file=CT, func=m,
                                   detail_bad='%s changes %s and wakes ONE waiter of %s, but waiters in %s() do not consume that state: with two '
                                              'threads waiting only one returns, the other sleeps although its predicate is true' % (m, pred, w.lock, w.func),
                                   detail_ok='notify_all')
        # somebody else changes the predicate and then notifies this condition while holding it
        ok = False
        who = []
        for m in lm.meths:
            if m == w.func:
                continue
            wr = [x for x in lm.writes if x.func == m and x.attr in pred]
            nt = [x for x in lm.ops if x.func == m and x.lock == w.lock and x.op in ('notify', 'notify_all', 'notifyAll')
                  and w.lock in (set(x.held) | set(eh[m]))]
            if wr and nt and min(x.line for x in wr) <= max(x.line for x in nt):
                ok = True
                who.append(m)
        chk.decide(ok, 'waiter-is-woken', inst, node=w.node, file=CT, func=w.func,
                   detail_bad='no other method changes %s and then notifies %s under the lock: the waiter can never proceed' % (pred, w.lock),
                   detail_ok='%s change(s) %s then notify %s' % (who, pred, w.lock))
        # ... and does so on EVERY path after the change: an early return between the state change and the notification leaves the waiter asleep with a true predicate
        for m in who:
            fn_m = lm.meths[m]
            gm = C.build_cfg(fn_m)
            # only a change that can END the wait needs a wake-up: for `while not self.x` that is a write of something truthy, for `while self.x` (a non-empty container)
            # a removal / a falsy value
            waits_for_truthy = isinstance(loop.test, ast.UnaryOp) and isinstance(loop.test.op, ast.Not)

            def can_end(x):
                st_ = stmt_of(fn_m, x.node)
                if isinstance(st_, ast.Assign) and isinstance(st_.value, ast.Constant):
                    return bool(st_.value.value) == waits_for_truthy
                if x.how in ('add', 'append', 'insert', 'update', 'extend', 'setitem'):
                    return waits_for_truthy
                if x.how in ('remove', 'discard', 'pop', 'clear', 'popleft'):
                    return not waits_for_truthy
                return True
            # per feasible path (constants propagated: `flag = False ... if flag:` is pruned; the stored value is looked at after substitution of path-local names)
            from verif_static import paths as PT
            okp = True
            seen_w = seen_n = False
            for p_ in PT.enumerate_paths(M.docstring_stripped(fn_m.body)):
                widx = []
                for i, e in enumerate(p_):
                    if e.kind != 'stmt':
                        continue
                    st_ = e.node
                    if isinstance(st_, ast.Assign) and any(isinstance(t_, ast.Attribute) and U(t_.value) == 'self' and t_.attr in pred for t_ in st_.targets):
                        v_ = PT.resolve(st_.value, e.env)
                        if isinstance(v_, ast.Constant):
                            if bool(v_.value) == waits_for_truthy:
                                widx.append(i)
                        else:
                            widx.append(i)
                    elif isinstance(st_, ast.Expr) and isinstance(st_.value, ast.Call) and isinstance(st_.value.func, ast.Attribute) and \
                            isinstance(st_.value.func.value, ast.Attribute) and U(st_.value.func.value.value) == 'self' and st_.value.func.value.attr in pred:
                        how = st_.value.func.attr
                        if (how in ('add', 'append', 'insert', 'update', 'extend') and waits_for_truthy) or (how in ('remove', 'discard', 'pop', 'clear', 'popleft') and not waits_for_truthy):
                            widx.append(i)
                nidx = [i for i, c, cal, env in PT.calls_on(p_) if cal in ('self.%s.notify' % w.lock, 'self.%s.notify_all' % w.lock, 'self.%s.notifyAll' % w.lock)]
                seen_w = seen_w or bool(widx)
                seen_n = seen_n or bool(nidx)
                if widx and not [j for j in nidx if j > max(widx)] and p_[-1].kind != 'raise':
                    okp = False
            okp = okp and seen_w and seen_n
            chk.decide(okp, 'waiter-is-woken', '%s:every-path-of-%s' % (inst, m), node=fn_m, file=CT, func=m,
                       detail_bad='%s changes %s but some path from that change to its return does not notify %s (e.g. an early return): the thread waiting in %s() is never woken although '
                                  'its predicate became true' % (m, pred, w.lock, w.func), detail_ok='every path after the change notifies %s' % w.lock)

    # ---- 2b. nothing that can block on the solver thread is reachable through dispatch(): dispatch runs under the @synchronized lock every interface needs, so a command
    #          that waits there (for a queued command's own lock, or on a condition) keeps all other interfaces - including the one that must call cont() - out
    tgt = command_targets(cls_raw)

    def blocks(fn):
        out = []
        lockvars = set()
        for a in ast.walk(fn):
            if isinstance(a, ast.Assign) and isinstance(a.targets[0], ast.Name) and 'queue_lock_map' in U(a.value):
                lockvars.add(a.targets[0].id)
        for w_ in ast.walk(fn):
            if isinstance(w_, ast.With):
                for it_ in w_.items:
                    if (isinstance(it_.context_expr, ast.Name) and it_.context_expr.id in lockvars) or 'queue_lock_map[' in U(it_.context_expr):
                        out.append('waits for the lock of a queued command (`with %s`)' % U(it_.context_expr))
            if isinstance(w_, ast.Call) and isinstance(w_.func, ast.Attribute):
                if w_.func.attr == 'wait' and U(w_.func.value).startswith('self.'):
                    out.append('waits on %s' % U(w_.func.value))
                if w_.func.attr == 'acquire' and ((isinstance(w_.func.value, ast.Name) and w_.func.value.id in lockvars) or 'queue_lock_map[' in U(w_.func.value)):
                    out.append('acquires the lock of a queued command')
        return out
    seen_b, todo_b, found_b = set(), [t_ for t_ in sorted(tgt) if t_ in M.methods(cls_raw)], []
    while todo_b:
        m_ = todo_b.pop()
        if m_ in seen_b:
            continue
        seen_b.add(m_)
        fn_ = M.methods(cls_raw)[m_]
        for why_ in blocks(fn_):
            found_b.append((m_, why_, fn_))
        for c_ in M.calls(fn_):
            nm_ = M.call_name(c_) or ''
            if nm_.startswith('self.') and nm_.count('.') == 1 and nm_[5:] in M.methods(cls_raw):
                todo_b.append(nm_[5:])
    chk.decide(not found_b, 'lock-order', 'nothing-dispatched-blocks-on-the-solver', node=found_b[0][2] if found_b else cls_raw, file=CT, func=found_b[0][0] if found_b else 'dispatch',
               detail_bad='%s is reachable through dispatch() (it is in the dispatch table) and %s: it would wait while holding the dispatch lock, so no other interface can issue a '
                          'command - not even the cont() the solver is paused for' % (found_b[0][0] if found_b else '', found_b[0][1] if found_b else ''),
               detail_ok='%d dispatchable commands (and what they call): none waits for a queued command or on a condition' % len(seen_b))
    chk.floor('dispatchable commands', len(seen_b), 8)
    # ---- 3. locksets (frozen table)
    for attr, lock in sorted(LOCKSET.items()):
        ws = [x for x in lm.writes if x.attr == attr and x.func != '__init__']
        if not ws:
            raise AnalysisError('shared attribute %s is no longer written anywhere' % attr)
        for x in ws:
            if (attr, x.func) in LOCKSET_EXEMPT:
                chk.note('lockset exemption %s in %s: %s' % (attr, x.func, LOCKSET_EXEMPT[(attr, x.func)]))
                # the exemption covers re-binding the container itself; replacing it by (something computed from) a copy, outside the lock, loses whatever another thread
                # inserted between the copy and the re-binding
                fn_x = lm.meths[x.func]
                copies = copied_shared(fn_x, x.node, set(LOCKSET))
                chk.decide(not copies, 'lockset', '%s@%s:rebinds-the-live-container' % (attr, x.func), node=x.node, file=CT, func=x.func,
                           detail_bad='self.%s is re-bound, without %s, to a value computed from a copy (%s): an entry added by another thread between the copy and the re-binding is '
                                      'lost (a queued command never runs, a pause request is forgotten)' % (attr, lock, ', '.join(copies)), detail_ok='the live container is passed through')
                continue
            H = set(x.held) | set(eh[x.func])
            chk.decide(lock in H, 'lockset', '%s@%s:%s' % (attr, x.func, x.how), node=x.node, file=CT, func=x.func,
                       detail_bad='self.%s is modified (%s) holding %s; every other writer holds %s' % (attr, x.how, sorted(H) or 'no lock', lock),
                       detail_ok='under %s' % lock)

    # ---- 4. per-command lock hand-off
    disp = lm.meths.get('dispatch')
    rq = lm.meths.get('run_queued_commands')
    gr = lm.meths.get('get_result')
    if not (disp and rq and gr):
        raise AnalysisError('dispatch / run_queued_commands / get_result vanished')
    g = C.build_cfg(disp)
    crt = [n.id for n in g.nodes if n.ast is not None and isinstance(n.ast, ast.Assign) and M.call_name(n.ast.value) == 'threading.Lock']
    acq = [n.id for n in g.nodes if n.ast is not None and isinstance(n.ast, ast.Expr) and (M.call_name(n.ast.value) or '').endswith('.acquire')]
    pub = [n.id for n in g.nodes if n.ast is not None and isinstance(n.ast, ast.Expr) and M.call_name(n.ast.value) == 'self.queue.append']
    mp = [n.id for n in g.nodes if n.ast is not None and isinstance(n.ast, ast.Assign) and U(n.ast.targets[0]).startswith('self.queue_lock_map[')]
    ok = bool(crt and acq and pub and mp) and g.dominates(crt[0], acq[0]) and g.dominates(acq[0], pub[0]) and g.dominates(mp[0], pub[0])
    # the id a command is queued under is unique among the commands that are still around: id() of the freshly made lock that the map keeps alive, or a number drawn from a
    # counter that only grows.  Anything computed from the present size of a table that also shrinks (entries are popped when results are collected) is handed out twice.
    from verif_static import paths as PT
    uniq_bad = []
    n_keys = 0
    for p_ in PT.enumerate_paths(M.docstring_stripped(disp.body)):
        for e in p_:
            if e.kind == 'stmt' and isinstance(e.node, ast.Assign) and U(e.node.targets[0]).startswith('self.queue_lock_map['):
                n_keys += 1
                key = PT.resolve(e.node.targets[0].slice, e.env)
                val = PT.resolve(e.node.value, e.env)
                kt = U(key).replace(' ', '')
                fresh = kt in ('id(%s)' % U(e.node.value).replace(' ', ''), 'id(%s)' % U(val).replace(' ', '')) and 'Lock()' in U(val)          # id() of the very lock stored here, made in this call
                counter = kt.startswith('next(') or kt.startswith('self._next_') or 'itertools.count' in kt
                if not (fresh or counter):
                    uniq_bad.append(kt)
    chk.decide(n_keys > 0 and not uniq_bad, 'command-lock-handoff', 'dispatch:task-id-unique-among-live-commands', node=disp, file=CT, func='dispatch',
               detail_bad='a command is queued under the id %s: not id() of the lock stored with it nor a value of a growing counter - while an earlier command with a higher number is '
                          'still uncollected a new command gets the same id, one client receives the other\'s result and the second get_result fails' % (uniq_bad[:1] or ['?'])[0],
               detail_ok='id(lock) of the lock kept in the map')
    chk.decide(ok, 'command-lock-handoff', 'dispatch:acquired-before-published', node=disp, file=CT, func='dispatch',
               detail_bad='a command id can become visible in the queue before its lock exists and is held: get_result could return before the command ran',
               detail_ok='Lock() -> acquire() -> map/queue insertion')
    if pub and mp:
        qd = [n.id for n in g.nodes if n.ast is not None and isinstance(n.ast, ast.Assign) and U(n.ast.targets[0]).startswith('self.queue_dict[')]
        ok = bool(qd) and g.dominates(qd[0], pub[0])
        chk.decide(ok, 'command-lock-handoff', 'dispatch:command-stored-before-published', node=disp, file=CT, func='dispatch',
                   detail_bad='the id is queued before its (method, args) record is stored', detail_ok='queue_dict entry before queue.append')
    app_ids = set(U(g.nodes[p_].ast.value.args[0]) for p_ in pub if g.nodes[p_].ast.value.args)
    rets = [r for r in ast.walk(disp) if isinstance(r, ast.Return) and r.value is not None and set(x.id for x in ast.walk(r.value) if isinstance(x, ast.Name)) & app_ids]
    chk.decide(bool(rets), 'command-lock-handoff', 'dispatch:returns-task-id', node=disp, file=CT, func='dispatch',
               detail_bad='the task id is not returned to the caller', detail_ok=U(rets[0].value) if rets else '')
    # every request handed a task id has its own queue entry: a return that is not the immediate execution must come after this call's own queue.append
    # and return the id that was appended (a request answered with another request's id is run once for two waiters; the second get_result fails)
    appended = [U(g.nodes[p_].ast.value.args[0]) for p_ in pub if g.nodes[p_].ast.value.args]
    from verif_static import norm as N_
    ldf_ = N_.local_defs([disp])
    for r in [x for x in ast.walk(disp) if isinstance(x, ast.Return) and x.value is not None]:
        fv_ = r.value.func if isinstance(r.value, ast.Call) else None
        if isinstance(fv_, ast.Name) and fv_.id in ldf_:
            fv_ = ldf_[fv_.id]           # `handler = self.dispatch_dict[meth]; return handler(self, ...)`
        immediate = isinstance(fv_, ast.Subscript) and U(fv_.value) == 'self.dispatch_dict'
        if immediate:
            continue
        rn = g.node_of(r)
        ids = set(x.id for x in ast.walk(r.value) if isinstance(x, ast.Name))
        ok = rn is not None and bool(pub) and any(g.dominates(p_, rn) for p_ in pub) and bool(ids & set(appended))
        chk.decide(ok, 'command-lock-handoff', 'dispatch:own-queue-entry@%s' % U(r.value)[:30], node=r, file=CT, func='dispatch',
                   detail_bad='dispatch returns `%s` on a path on which this request was not appended to the queue under that id: the request is never run for this caller '
                              '(or shares the entry - and the single result - of another request)' % U(r.value), detail_ok='returns the id appended by this call')
    # run_queued_commands
    pops = [a for a in ast.walk(rq) if isinstance(a, ast.Assign) and M.call_name(a.value) == 'self.queue.pop']
    if not pops:
        chk.violated('command-lock-handoff', 'run:pop', node=rq, file=CT, func='run_queued_commands', detail='queue is never consumed')
    else:
        idv = U(pops[0].targets[0])
        loop = M.enclosing(pops[0], (ast.While,))
        chk.decide(loop is not None and U(loop.test) == 'self.queue' and U(pops[0].value) == 'self.queue.pop(0)', 'command-lock-handoff',
                   'run:fifo-until-empty', node=pops[0], file=CT, func='run_queued_commands',
                   detail_bad='commands are not consumed first-in first-out until the queue is empty', detail_ok='while self.queue: pop(0)')
        rel = [c for c in M.calls(rq) if isinstance(c.func, ast.Attribute) and c.func.attr == 'release']
        tries = [t for t in ast.walk(rq) if isinstance(t, ast.Try)]
        in_finally = [c for c in rel if any(any(c is x for x in ast.walk(fb)) for t in tries for fb in t.finalbody)]
        from verif_static import norm as N_
        ld_rq = N_.local_defs(rq.body)
        chk.decide(len(rel) == 1 and len(in_finally) == 1 and ('queue_lock_map[%s]' % idv) in U(N_.inline(rel[0], ld_rq)).replace(U(N_.inline(ast.Name(id=idv, ctx=ast.Load()), ld_rq)), idv), 'command-lock-handoff',
                   'run:release-exactly-once-in-finally', node=rel[0] if rel else rq, file=CT, func='run_queued_commands',
                   detail_bad='the command lock of the popped id is not released exactly once on every exit (normal and exceptional): '
                              '%d release site(s), %d inside finally' % (len(rel), len(in_finally)),
                   detail_ok='single release in the finally block')
        if tries:
            t = tries[0]
            runs = [c for b in t.body for c in M.calls(b) if M.call_name(c) == 'self.run_command']
            st = [a for b in t.body for a in ast.walk(b) if isinstance(a, ast.Assign) and U(a.targets[0]) == 'self.results[%s]' % idv]
            chk.decide(len(runs) == 1 and bool(st), 'command-lock-handoff', 'run:executed-once-result-stored', node=t, file=CT,
                       func='run_queued_commands', detail_bad='the command is not executed exactly once with its result stored under its id',
                       detail_ok='results[id] = run_command(...)')
            dl = [d for fb in t.finalbody for d in ast.walk(fb) if isinstance(d, ast.Delete) and U(d.targets[0]) == 'self.queue_dict[%s]' % idv]
            chk.decide(bool(dl), 'command-lock-handoff', 'run:record-removed', node=t, file=CT, func='run_queued_commands',
                       detail_bad='the command record is not removed after execution (it could run again after sync_commands)',
                       detail_ok='del queue_dict[id] in finally')
            # release after result is stored: finally follows the try body by construction; the guard on rank:
            g2 = M.enclosing(rel[0], (ast.If,)) if rel else None
            if g2 is not None:
                chk.decide(U(g2.test).replace(' ', '') == 'self.comm.Get_rank()==0', 'command-lock-handoff', 'run:release-guard',
                           node=g2, file=CT, func='run_queued_commands', detail_bad='release is skipped under %s' % U(g2.test),
                           detail_ok='only non-root ranks (which have no lock) skip it')
    # get_result
    # (on every path; what a `with` acquires and what is read are taken with the path-local names substituted, so the lock may or may not be kept in a local)
    from verif_static import paths as PT
    pid_ = gr.args.args[1].arg if len(gr.args.args) > 1 else 'lock_id'
    KEYS = (pid_, 'int(%s)' % pid_)                     # the id as given or converted to int
    gtl = lm.meths.get('get_task_lock')
    gtl_ok = gtl is not None and len(gtl.args.args) == 2 and any(isinstance(r_, ast.Return) and r_.value is not None and
                                                               U(r_.value).replace(' ', '') in ('self.queue_lock_map[%s]' % gtl.args.args[1].arg, 'self.queue_lock_map[int(%s)]' % gtl.args.args[1].arg)
                                                               for r_ in ast.walk(gtl))
    want_lock = ['self.queue_lock_map[%s]' % k_ for k_ in KEYS] + (['self.get_task_lock(%s)' % k_ for k_ in KEYS] if gtl_ok else [])
    want_res = ['self.results[%s]' % k_ for k_ in KEYS]
    want_pop = ['self.results.pop(%s)' % k_ for k_ in KEYS]
    gpaths = PT.enumerate_paths(M.docstring_stripped(gr.body))
    ok, consumed = bool(gpaths), bool(gpaths)

    def rtext(x, env):
        return U(PT.resolve(x, env)).replace(' ', '')
    for p_ in gpaths:
        if p_[-1].kind == 'raise':
            continue
        held = [e.node for e in p_ if e.kind == 'stmt' and isinstance(e.node, ast.With) and any(rtext(it_.context_expr, e.env) in want_lock for it_ in e.node.items)]
        reads = [x for e in p_ if e.kind in ('stmt', 'return') and not isinstance(e.node, (ast.With, ast.Delete)) for x in ast.walk(e.node)
                 if (isinstance(x, ast.Subscript) and isinstance(x.ctx, ast.Load) and rtext(x, e.env) in want_res) or (isinstance(x, ast.Call) and rtext(x, e.env) in want_pop)]
        if not reads or not held or not all(any(r_ is y for y in ast.walk(held[0])) for r_ in reads):
            ok = False
        dels = [rtext(ast.Subscript(value=d.value, slice=d.slice, ctx=ast.Load()), e.env) for e in p_ if e.kind == 'stmt' and isinstance(e.node, ast.Delete)
                for d in e.node.targets if isinstance(d, ast.Subscript)]
        pops = [rtext(x, e.env) for e in p_ if e.kind in ('stmt', 'return') for x in ast.walk(e.node) if isinstance(x, ast.Call) and isinstance(x.func, ast.Attribute) and x.func.attr == 'pop']
        gone_res = any(d_ in want_res for d_ in dels) or any(p2 in want_pop for p2 in pops)
        gone_lock = any(d_ in ['self.queue_lock_map[%s]' % k_ for k_ in KEYS] for d_ in dels) or any(p2 in ['self.queue_lock_map.pop(%s)' % k_ for k_ in KEYS] for p2 in pops)
        if not (gone_res and gone_lock):
            consumed = False
    chk.decide(ok, 'command-lock-handoff', 'get_result:waits-on-command-lock', node=gr, file=CT, func='get_result',
               detail_bad='the result is read without first acquiring the lock of that command', detail_ok='with queue_lock_map[id]: read result')
    chk.decide(consumed, 'command-lock-handoff', 'get_result:consumes',
               node=gr, file=CT, func='get_result', detail_bad='result / lock are not removed after delivery (delivered twice or leaked)',
               detail_ok='result and lock entry deleted')
    # solver side: wait_for_cmd re-runs queued commands after each wake-up and execute_commands runs them under qlock
    wf = lm.meths.get('wait_for_cmd')
    ex = lm.meths.get('execute_commands')
    ok = any(c.callee == 'run_queued_commands' and 'qlock' in c.held for c in lm.calls if c.func == 'execute_commands') and \
        any(c.callee == 'run_queued_commands' and 'qlock' in c.held for c in lm.calls if c.func == 'wait_for_cmd') and \
        any(c.callee == 'wait_for_cmd' for c in lm.calls if c.func == 'execute_commands')
    chk.decide(ok, 'command-lock-handoff', 'solver:runs-queue-at-control-point-and-while-paused', node=ex, file=CT, func='execute_commands',
               detail_bad='queued commands are not run (under qlock) at the control point and after each wake-up while paused',
               detail_ok='run_queued_commands under qlock in execute_commands and in the pause loop')
    # ... and in the pause loop the queue is run AFTER each wake-up, before the pause condition is looked at again: what was queued while the solver slept is executed
    # before the solver goes on (or leaves its last control point).  Per path through the body of the loop
    wloops = [l for l in ast.walk(wf) if isinstance(l, ast.While)]
    okw, whyw = bool(wloops), 'no pause loop'
    if wloops:
        for p_ in PT.enumerate_paths(list(wloops[0].body)):
            seq = [cal for i, c, cal, env in PT.calls_on(p_) if cal in ('self.qlock.wait', 'self.run_queued_commands')]
            if 'self.qlock.wait' not in seq:
                okw, whyw = False, 'an iteration of the pause loop does not block on qlock (busy loop)'
            elif not seq or seq[-1] != 'self.run_queued_commands':
                okw, whyw = False, 'after waking up (%s) the loop tests the pause again without running the queue' % ' -> '.join(x.split('.')[-1] for x in seq)
    chk.decide(okw, 'command-lock-handoff', 'solver:queue-run-after-every-wake-up', node=wloops[0] if wloops else wf, file=CT, func='wait_for_cmd',
               detail_bad='%s: a command queued during the pause is deferred to the next control point - or never run when the pause was at the last one, and get_result blocks for ever' % whyw,
               detail_ok='wait(); run_queued_commands() in every iteration of the pause loop')
    # who holds a pause: the identity recorded in self.pause is that of the thread calling pause_on_next() / cont() at that moment (an identity captured elsewhere - when
    # a Controller is constructed, in the thread that adds the interface - is shared by all interfaces: one cont() then releases everybody's pause)
    IDENT = 'threading.current_thread().ident'
    ctl = M.find_class(M.py(CT), 'Controller')
    for mname, op_ in (('pause_on_next', 'add'), ('cont', 'remove')):
        fm = lm.meths.get(mname)
        badk, nk = None, 0
        params_ = [a.arg for a in fm.args.args][1:] if fm is not None else []
        for p_ in (PT.enumerate_paths(M.docstring_stripped(fm.body)) if fm is not None else []):
            for i, c, cal, env in PT.calls_on(p_):
                if cal == 'self.pause.' + op_ and c.args:
                    nk += 1
                    x = U(PT.resolve(c.args[0], env)).replace(' ', '')
                    if x == IDENT:
                        continue
                    if x in params_:
                        # handed in by the caller: every caller in the module must pass its own thread's identity, evaluated in the call
                        k_ = params_.index(x)
                        for cc in [cc for cc in ast.walk(ctl) if isinstance(cc, ast.Call) and isinstance(cc.func, ast.Attribute) and cc.func.attr == mname]:
                            arg = cc.args[k_] if k_ < len(cc.args) else dict((kw.arg, kw.value) for kw in cc.keywords).get(x)
                            if arg is not None and U(arg).replace(' ', '') != IDENT:
                                badk = badk or '%s(%s) is given %s' % (mname, x, U(arg))
                    else:
                        badk = badk or 'self.pause.%s(%s)' % (op_, x)
        chk.decide(fm is not None and nk > 0 and badk is None, 'command-lock-handoff', 'pause-identity:%s' % mname, node=fm, file=CT, func=mname,
                   detail_bad='the pause is recorded under an identity that is not the calling thread\'s at the time of the call: %s' % badk,
                   detail_ok='self.pause.%s(threading.current_thread().ident)' % op_)
    # ... and the thread that calls cont() must be the one that called pause_on_next(): the request/response servers among the interfaces serve every request of a client from
    # one thread (the XML-RPC server: one thread for all clients).  A server that starts a thread per *request* (ThreadingMixIn / ForkingMixIn) gives cont() another identity than
    # pause_on_next() had: KeyError, the pause is never released and the solver stays blocked
    SIF = 'pysph/solver/solver_interfaces.py'
    sif = M.py(SIF)
    nsrv = 0
    for c_ in M.classes(sif):
        bases = [M.dotted(b) or U(b) for b in c_.bases]
        if not any(b.split('.')[-1].endswith('Server') for b in bases):
            continue
        nsrv += 1
        per_request = [b for b in bases if b.split('.')[-1] in ('ThreadingMixIn', 'ForkingMixIn', 'ThreadingTCPServer', 'ThreadingHTTPServer', 'ForkingTCPServer')]
        chk.decide(not per_request, 'command-lock-handoff', 'pause-identity:%s-serves-from-one-thread' % c_.name, node=c_, file=SIF, func=c_.name,
                   detail_bad='%s handles every request in a thread (process) of its own (%s): pause_on_next() and cont() record / look up the pause under the identity of the calling '
                              'thread, so the cont() of the client that paused is served under another identity - KeyError, the pause stays, the solver never continues' % (c_.name, per_request),
                   detail_ok='requests are served from the server thread')
    chk.floor('request/response servers among the interfaces', nsrv, 1)
    # pause loop: solver makes no progress while any interface holds a pause
    loops = [l for l in ast.walk(wf) if isinstance(l, ast.While)]
    chk.decide(bool(loops) and U(loops[0].test) == 'self.pause', 'command-lock-handoff', 'solver:stays-paused', node=wf, file=CT,
               func='wait_for_cmd', detail_bad='the solver does not stay at the control point while the pause set is non-empty',
               detail_ok='while self.pause')
    # `solver_paused` is what wait() polls: it may be true only while the solver sits in the pause loop.  On every path through wait_for_cmd that sets it, the last
    # store before the method returns resets it - a flag left standing lets a later wait() return while the solver is running (second pause cycle)
    from verif_static import paths as PT
    wpaths = [p_ for p_ in PT.enumerate_paths(M.docstring_stripped(wf.body)) if p_[-1].kind != 'raise']
    polled = sorted(set(x.attr for m_ in ('wait',) for l_ in ast.walk(lm.meths.get(m_)) if isinstance(l_, ast.While) for x in ast.walk(l_.test)
                        if isinstance(x, ast.Attribute) and isinstance(x.value, ast.Name) and x.value.id == 'self')) if lm.meths.get('wait') is not None else []
    for fl in polled:
        bad_ = None
        sets = 0
        for p_ in wpaths:
            sto = [(i, v) for i, tg, v in PT.stores_on(p_) if tg == 'self.' + fl]
            if sto:
                sets += 1
                last = sto[-1][1]
                if not (isinstance(last, ast.Constant) and not last.value):
                    bad_ = bad_ or U(last)
        if sets:
            chk.decide(bad_ is None, 'command-lock-handoff', 'solver:%s-reset-on-leaving-the-control-point' % fl, node=wf, file=CT, func='wait_for_cmd',
                       detail_bad='a path through wait_for_cmd leaves self.%s = %s behind: wait() polls that flag, so a later wait() returns at once although the solver is running' % (fl, bad_),
                       detail_ok='every path that sets self.%s stores a false value last' % fl)
    # the solver calls the handler at its control point
    sol = M.py(SOL)
    solve = M.find_method(sol, 'Solver', 'solve')
    hook = [c for c in M.calls(solve) if M.call_name(c) == 'self.execute_commands']
    chk.decide(bool(hook) and M.enclosing(hook[0], (ast.While,)) is not None, 'command-lock-handoff', 'solver:control-point-in-loop',
               node=solve, file=SOL, func='Solver.solve', detail_bad='the command handler is not invoked inside the time loop',
               detail_ok='self.execute_commands(self) inside the time loop')
    chk.assume('Python threading primitives behave as documented; dict/set single operations are atomic under the GIL')
    chk.assume('liveness over all interleavings (fairness) is a model-checking statement and is not decided here')


if __name__ == '__main__':
    run_check('C18', main)
