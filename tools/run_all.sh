#!/bin/bash
# tools/run_all.sh [quick|thorough] [jobs]: run every registered check, print one line per property and the lines that need attention
tier=${1:-quick}; jobs=${2:-4}
out=$(mktemp -d /tmp/runall.XXXX)
ids=$(seq -f "C%02g" 1 20)
printf "%s\n" $ids | xargs -P "$jobs" -I{} sh -c "/verif/check {} --tier $tier > $out/{}.log 2>&1; echo {} exit=\$? >> $out/summary"
sort "$out/summary"
grep -h "ANALYSIS-ERROR\|^VIOLATION" "$out"/C*.log | cut -c1-400
rm -rf "$out"
