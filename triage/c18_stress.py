"""Triage only: stress the pause/wait/cont/queued-command protocol after the C18 fixes."""
import _overlay
import threading, time, random
from pysph.solver.controller import CommandManager
class S:
    count = 0; particles = []; t = 0.0; dt = 0.1
    def dump_output(self): return 'dumped'
s = S()
cm = CommandManager(s)
stop = []
def solver():
    while not stop:
        s.count += 1
        cm.execute_commands(s)
def iface(k):
    rnd = random.Random(k)
    for i in range(150):
        if rnd.random() < 0.5:
            cm.pause_on_next(); cm.wait()
            c0 = s.count; time.sleep(0.001); assert s.count == c0, 'solver progressed while paused'
            tid = cm.dispatch(False, 'get_status'); cm.cont()
        else:
            tid = cm.dispatch(False, 'get_particle_array_names')
            assert cm.get_result(tid) == []
ts = threading.Thread(target=solver, daemon=True); ts.start()
ths = [threading.Thread(target=iface, args=(k,), daemon=True) for k in range(2)]
[t.start() for t in ths]
[t.join(30) for t in ths]
print('interfaces finished:', [not t.is_alive() for t in ths], 'solver steps', s.count)
stop.append(1)
