"""A model of the two file back ends of pysph.solver.output for the E8 interpreter: just enough of h5py (File / groups / datasets / attrs) and of numpy.savez / numpy.load
(npz files of 0-d object arrays) that Output.dump and load can be *interpreted* on model particle arrays and the result of load compared with what was dumped.

Facts about the libraries that are built in (and listed in the evidence): h5py rejects a chunk shape containing 0; a dataset created with data keeps that data; attrs behave
like a dictionary; numpy.savez stores every keyword as an array, non-array objects as 0-d object arrays whose `[()]`, `.item()`, `.tolist()` or `shape = (1,)` + `[0]` give the
object back; NpzFile has `.files`.
"""
from . import absint as A

FILES = {}


DATASETS = {}


class AmbiguousTruth(object):
    """result of comparing an array of several elements with a scalar: fine as a value, an error as a truth value (numpy)"""
    def __bool__(self):
        raise ValueError('The truth value of an array with more than one element is ambiguous. Use a.any() or a.all()')


class NdSeq(list):
    """a sequence of numbers as it comes back from an HDF5 attribute: a numpy array - equal to the list it was written from, but `== <scalar>` is element-wise"""
    def __eq__(self, other):
        if isinstance(other, (list, tuple)):
            return list.__eq__(self, list(other))
        return AmbiguousTruth() if len(self) > 1 else (len(self) == 1 and self[0] == other)

    def __ne__(self, other):
        r = self.__eq__(other)
        return r if isinstance(r, AmbiguousTruth) else not r
    __hash__ = None


class H5Attrs(dict):
    """attrs of a group / dataset: a dictionary, plus create(name, data, shape=None, dtype=None) which stores the value *converted* to the given type; a sequence of numbers
    is stored as an array"""
    def __setitem__(self, k, v):
        if isinstance(v, (list, tuple)) and len(v) > 1 and all(isinstance(x, (int, float)) and not isinstance(x, bool) for x in v):
            v = NdSeq(v)
        dict.__setitem__(self, k, v)


F8 = ('f8', '<f8', 'float64', 'double', 'float', 'd')
I8 = ('i8', '<i8', 'int64', 'long', 'int')


def _as_dtype(value, dtype):
    """what a value becomes when stored with an explicit type: itself when the type holds it exactly, a marked conversion otherwise"""
    if dtype is None:
        return value
    if isinstance(dtype, tuple) and dtype and dtype[0] == 'dtype-of':
        ds = DATASETS.get(dtype[1])
        if ds is not None and ds.data is not None:
            return value                    # the type of the written array is the type of the property: its default fits
        dtype = (ds.opts.get('dtype') if ds is not None else None) or 'f4'      # h5py: a dataset created from a shape alone is single precision
    if isinstance(dtype, str):
        if isinstance(value, bool) or isinstance(value, str) or value is None:
            return ('converted to %s' % dtype, value)
        if isinstance(value, float) and dtype in F8:
            return value
        if isinstance(value, int) and dtype in I8:
            return value
        return ('converted to %s' % dtype, value)
    return ('converted to an unknown type', value)


class H5Node(dict):
    def __init__(self, kind, data=None, opts=None):
        dict.__init__(self)
        self.kind, self.data, self.opts, self.attrs = kind, data, dict(opts or {}), H5Attrs()
        DATASETS[id(self)] = self

    def __hash__(self):
        return id(self)

    def __eq__(self, other):
        return self is other


class NdObj(object):
    """numpy 0-d (or shape (1,)) array holding one Python object"""
    def __init__(self, obj):
        self.obj = obj
        self.shape = ()

    def __getitem__(self, i):
        return self.obj

    def __eq__(self, other):
        return self.obj == (other.obj if isinstance(other, NdObj) else other)

    def __ne__(self, other):
        return not self.__eq__(other)

    def __hash__(self):
        return id(self)


class NdBuf(object):
    """numpy.empty(shape, dtype): an uninitialised buffer; `value` is what was read into it"""
    def __init__(self, shape, dtype):
        self.shape, self.dtype, self.value = shape, dtype, ('uninitialised',)

    def __eq__(self, other):
        return self.value == (other.value if isinstance(other, NdBuf) else other)

    def __ne__(self, other):
        return not self.__eq__(other)

    def __hash__(self):
        return id(self)

    def __repr__(self):
        return 'buffer(%r)' % (self.value,)


class NpzFile(dict):
    pass


def _size_of(x):
    if isinstance(x, A.Obj) and 'size' in x.attrs:
        return x.attrs['size']
    try:
        return len(x)
    except Exception:
        return None


def _attr_hook(interp, v, attr, node, env):
    if isinstance(v, H5Node):
        if attr == 'attrs':
            return v.attrs
        if attr == 'create_group':
            def mk(i, args, kwargs, n, e):
                g = H5Node('group')
                v[args[0]] = g
                return g
            return mk
        if attr == 'create_dataset':
            def mkd(i, args, kwargs, n, e):
                # h5py: create_dataset(name, shape=None, dtype=None, data=None, **kwds)
                data = kwargs.get('data', args[3] if len(args) > 3 else None)
                opts = dict((k, x) for k, x in kwargs.items() if k != 'data')
                if len(args) > 1:
                    opts['shape'] = args[1]
                if len(args) > 2:
                    opts['dtype'] = args[2]
                ch = opts.get('chunks')
                if isinstance(ch, (tuple, list)) and any(c == 0 for c in ch):
                    raise A.Raised('ValueError: h5py: chunk shape must not contain 0 (dataset %r of size %s)' % (args[0], _size_of(data)), n, e.get('__rel__'))
                # an explicit element type for data that is given: the values are converted; exact only when the type holds every value of the data's own C type
                dt_ = opts.get('dtype')
                ct_ = getattr(data, 'ctype', None)
                if data is not None and isinstance(dt_, str) and ct_ is not None:
                    HOLDS = {'double': ('f8', '<f8', 'float64', 'double', 'd'), 'float': ('f4', '<f4', 'float32', 'f8', '<f8', 'float64', 'double', 'f', 'd'),
                             'int': ('i4', '<i4', 'int32', 'i8', '<i8', 'int64', 'i', 'l'), 'long': ('i8', '<i8', 'int64', 'l'),
                             'unsigned int': ('u4', '<u4', 'uint32', 'u8', '<u8', 'uint64', 'i8', '<i8', 'int64')}
                    if dt_ not in HOLDS.get(ct_, ()):
                        data = ('converted to %s' % dt_, data)
                d = H5Node('dataset', data=data, opts=opts)
                v[args[0]] = d
                return d
            return mkd
        if attr in ('items', 'keys', 'values', 'get', '__contains__'):
            return ('__method__', v, attr)
        if attr in ('close', 'flush'):
            return lambda i, a, k, n, e: None
        if v.kind == 'dataset' and attr == 'shape':
            return ('shape-of', id(v))
        if v.kind == 'dataset' and attr == 'dtype':
            return ('dtype-of', id(v))
        if v.kind == 'dataset' and attr == 'read_direct':
            def rd(i, args, kwargs, n, e):
                buf = args[0]
                if not isinstance(buf, NdBuf):
                    raise A.Unsupported('h5 model: read_direct into %r' % (buf,))
                # the values arrive converted to the type of the buffer: they are the stored ones only when the buffer was made with the dataset's own shape and type
                faithful = buf.shape == ('shape-of', id(v)) and buf.dtype == ('dtype-of', id(v))
                buf.value = v.data if faithful else ('converted to %s' % (buf.dtype if not isinstance(buf.dtype, tuple) else 'another dataset type',), v.data)
                return None
            return rd
        raise A.Unsupported('h5 model: attribute %s' % attr)
    if isinstance(v, H5Attrs):
        if attr == 'create':
            def create(i, args, kwargs, n, e):
                name = args[0]
                data = kwargs.get('data', args[1] if len(args) > 1 else None)
                dtype = kwargs.get('dtype', args[3] if len(args) > 3 else None)
                v[name] = _as_dtype(data, dtype)
                return None
            return create
        if attr == 'modify':
            def modify(i, args, kwargs, n, e):
                if args[0] not in v:
                    raise A.Raised('KeyError: attrs.modify of a missing attribute %r' % (args[0],), n, e.get('__rel__'))
                v[args[0]] = args[1]
                return None
            return modify
        return NotImplemented
    if isinstance(v, NdBuf):
        if attr == 'shape':
            return v.shape
        if attr == 'dtype':
            return v.dtype
        raise A.Unsupported('ndarray buffer model: attribute %s' % attr)
    if isinstance(v, NdObj):
        if attr in ('item', 'tolist'):
            return lambda i, a, k, n, e: v.obj
        if attr == 'shape':
            return v.shape
        if attr == 'dtype':
            return A.Opaque('dtype')
        raise A.Unsupported('ndarray model: attribute %s' % attr)
    if isinstance(v, NdArr):
        if attr == 'item':
            def item(i, a, k, n, e):
                if len(v) != 1:
                    raise A.Raised('ValueError: can only convert an array of size 1 to a Python scalar', n, e.get('__rel__'))
                return v[0]
            return item
        if attr == 'tolist':
            return lambda i, a, k, n, e: list(v)
        if attr == 'size':
            return len(v)
        return NotImplemented
    if isinstance(v, NpzFile):
        if attr == 'files':
            return list(v.keys())
        if attr in ('items', 'keys', 'values', 'get'):
            return ('__method__', v, attr)
        if attr == 'close':
            return lambda i, a, k, n, e: None
        raise A.Unsupported('npz model: attribute %s' % attr)
    return NotImplemented


def _store_hook(interp, o, attr, v):
    if isinstance(o, NdObj) and attr == 'shape':
        o.shape = v
        return True
    return False


def _h5file(interp, args, kwargs, node, env):
    name = args[0]
    mode = args[1] if len(args) > 1 else kwargs.get('mode', 'r')
    if mode == 'w' or name not in FILES:
        FILES[name] = H5Node('group')
    return FILES[name]


def _savez(interp, args, kwargs, node, env):
    f = NpzFile()
    for k, v in kwargs.items():
        f[k] = NdObj(v)
    FILES[args[0]] = f
    return None


def _npload(interp, args, kwargs, node, env):
    return FILES[args[0]]


def _nparray(interp, args, kwargs, node, env):
    x = args[0]
    if isinstance(x, H5Node) and x.kind == 'dataset':
        return x.data
    return x


def _size(interp, args, kwargs, node, env):
    x = args[0]
    if isinstance(x, (int, float, str, bytes, bool)) or x is None:
        return 1
    n = _size_of(x)
    return n if n is not None else A.Opaque('size')


class NdArr(list):
    """numpy.asarray of a Python sequence: the list itself, with the ndarray methods the readers use"""
    def __hash__(self):
        return id(self)


def _npasarray(interp, args, kwargs, node, env):
    x = args[0]
    if isinstance(x, H5Node) and x.kind == 'dataset':
        return x.data
    if isinstance(x, (list, tuple)) and not isinstance(x, NdArr):
        return NdArr(x)
    if isinstance(x, (int, float, bool)):
        return NdObj(x)
    return x


def new_pa(interp, args, kwargs, node, env):
    """ParticleArray(name, constants=..., **properties) as the readers use it: a record of what it was given"""
    name = kwargs.get('name', args[0] if args else None)
    pa = A.Obj('mock', name=name, constants=dict(kwargs.get('constants') or {}), added={}, output_property_arrays=None)

    def add_property(i, a, k, n, e):
        nm = k.get('name', a[0] if a else None)
        pa.attrs['added'][nm] = dict(type=k.get('type', a[1] if len(a) > 1 else 'double'), default=k.get('default', None), data=k.get('data', None), stride=k.get('stride', 1))

    def set_output_arrays(i, a, k, n, e):
        pa.attrs['output_property_arrays'] = list(a[0])
    pa.attrs['add_property'] = add_property
    pa.attrs['set_output_arrays'] = set_output_arrays
    for k, spec in kwargs.items():
        if k in ('name', 'constants', 'backend') or not isinstance(spec, dict):
            continue
        pa.attrs['added'][spec.get('name', k)] = dict(type=spec.get('type', 'double'), default=spec.get('default'), data=spec.get('data'), stride=spec.get('stride', 1))
    return pa


def install():
    if _attr_hook not in A.ATTR_HOOKS:
        A.ATTR_HOOKS.append(_attr_hook)
        A.STORE_HOOKS.append(_store_hook)
    A.EXTERNAL_CALLS['h5py.File'] = _h5file
    A.EXTERNAL_CALLS['numpy.savez'] = _savez
    A.EXTERNAL_CALLS['numpy.savez_compressed'] = _savez
    A.EXTERNAL_CALLS['numpy.load'] = _npload
    A.EXTERNAL_CALLS['numpy.array'] = _nparray
    A.EXTERNAL_CALLS['numpy.asarray'] = _npasarray
    A.EXTERNAL_CALLS['numpy.empty'] = lambda i, a, k, n, e: NdBuf(a[0] if a else k.get('shape'), k.get('dtype', a[1] if len(a) > 1 else 'float64'))
    A.EXTERNAL_CALLS['numpy.zeros'] = A.EXTERNAL_CALLS['numpy.empty']
    A.EXTERNAL_CALLS['numpy.size'] = _size
    A.EXTERNAL_CALLS['pysph.base.particle_array.ParticleArray'] = new_pa
    A.EXTERNAL_CALLS['pysph.has_h5py'] = lambda i, a, k, n, e: True


def construct(interp, cref, args, kwargs, node):
    """a real instance of a repository class for the interpreter: attributes start empty, __init__ (through the MRO) is run, methods resolve through the class"""
    obj = A.Obj('scheme', __class__=cref)
    init = interp.find_method(cref, '__init__')
    if init is not None:
        interp.call_function(A.FuncRef(init[0], init[2], self_obj=obj, cls=init[1]), list(args), dict(kwargs), node)
    return obj


def class_intrinsics(ci, rel, names):
    import ast as _ast
    out = {}
    t = ci.trees.get(rel)
    for c in (t.body if t is not None else []):
        if isinstance(c, _ast.ClassDef) and c.name in names:
            cref = A.ClassRef(rel, c)
            out[(rel, c.name)] = (lambda cref: (lambda i, f, a, k, n, e: construct(i, cref, a, k, n)))(cref)
    return out


def _isfile(interp, args, kwargs, node, env):
    return args[0] in FILES


def _splitext(interp, args, kwargs, node, env):
    import os
    return os.path.splitext(args[0]) if isinstance(args[0], str) else A.Opaque('splitext')


A.EXTERNAL_CALLS['os.path.isfile'] = _isfile
A.EXTERNAL_CALLS['os.path.splitext'] = _splitext
