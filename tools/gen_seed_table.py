#!/venv/bin/python
"""Regenerates the seed table of DESIGN.md section 8.4 from /verif/seeded/*/meta.json (run after tools/seed_recheck.py).

The table sits between the line starting with '| seed | file(s)' and the heading '### 8.5'."""
import json, os, re
ROOT = '/verif/seeded'
rows = []
def key(d):
    a, b = d.split('-')
    return (a, int(b))
for d in sorted((x for x in os.listdir(ROOT) if os.path.exists(os.path.join(ROOT, x, 'meta.json'))), key=key):
    m = json.load(open(os.path.join(ROOT, d, 'meta.json')))
    files = ', '.join(os.path.basename(f) for f in (m.get('files') or []))
    what = (m.get('breaks') or '').replace('\n', ' ').replace('|', '/')[:110]
    rules = []
    for r in m.get('check_reports') or []:
        rn = r.split(' ')[0]
        if rn and rn not in rules and not rn.startswith(('note', 'check')):
            rules.append(rn)
    by = []
    if m.get('detected_by_check'):
        by.append('%s: %s' % (m['property'], ', '.join(rules[:3]) or 'detected'))
    if m.get('also_detected_by'):
        by.append('by ' + ', '.join(m['also_detected_by']))
    rows.append('| %s | %s | %s | %s |' % (d, files, what, '; '.join(by) or 'MISSED'))
p = '/verif/DESIGN.md'
s = open(p).read()
a = s.index('| seed | file(s)')
b = s.index('### 8.5')
head = '| seed | file(s) | change (abridged) | caught by (rules) |\n|------|---------|-------------------|-------------------|\n'
s = s[:a] + head + '\n'.join(rows) + '\n\n' + s[b:]
open(p, 'w').write(s)
print(len(rows), 'rows;', sum('MISSED' in r for r in rows), 'missed')
