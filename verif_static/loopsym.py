"""Inductive equivariance of a single-loop iteration under a transformation of the inputs.

A solver  pre ; loop { body } ; post  commutes with a transformation T of its inputs (reflection, Galilean shift, ...)
when every loop variable v has an image  T(v) = g_v(loop variables)  such that

  (init)  T applied to the value v has before the loop equals g_v of the initial values,
  (step)  T applied to the value v has after one iteration - computed from *symbolic* loop variables, the symbols
          transformed by their own images - equals g_v of the new values; same for the state at every `break`,
  (exit)  the loop test and every break condition are invariant,
  (post)  the results computed after the loop from symbolic loop variables have the required images.

By induction on the number of iterations the results have the required images for every iteration count, tolerance and
input.  The images g_v are not given: they are searched among candidates supplied by the caller (+-w for a reflection,
v or v + c for a shift) and each is *proved* with symb.Ctx.prove_zero.  Nothing is executed.
"""
import ast

from . import symb as S
from .poly import Poly


class Failure(Exception):
    def __init__(self, stage, var, node, detail):
        Exception.__init__(self, detail)
        self.stage, self.var, self.node, self.detail = stage, var, node, detail


class LoopEvaluator(S.Evaluator):
    """locals not yet assigned evaluate to state symbols '~name'; parameters to themselves"""
    params = ()

    def input_var(self, text):
        base = text.split('[')[0].split('.')[0]
        if base in self.params:
            return self.ctx.var(text)
        return self.ctx.var('~' + text)


def split(fn):
    body = [s for s in fn.body if not (isinstance(s, ast.Expr) and isinstance(s.value, ast.Constant))]
    loops = [i for i, s in enumerate(body) if isinstance(s, (ast.For, ast.While))]
    if len(loops) != 1:
        raise S.Unsupported('expected exactly one top-level loop, found %d' % len(loops))
    i = loops[0]
    return body[:i], body[i], body[i + 1:]


def mk(ctx, fn, stmts, helpers, define_terms):
    f = ast.FunctionDef(name=fn.name, args=fn.args, body=stmts, decorator_list=[])
    ev = LoopEvaluator(ctx, f, helpers=helpers, define_terms=define_terms)
    ev.params = tuple(a.arg for a in fn.args.args)
    return ev


def state_syms(p, ctx, acc=None, seen=None):
    """names of the state symbols a value depends on (through nested atoms)"""
    acc = set() if acc is None else acc
    seen = set() if seen is None else seen
    for a in p.atoms():
        if a in seen:
            continue
        seen.add(a)
        st = ctx.atoms.get(a, ('var', a))
        if st[0] == 'var':
            if st[1].startswith('~'):
                acc.add(st[1][1:])
        elif st[0] in ('inv', 'ind'):
            state_syms(st[1], ctx, acc, seen)
        elif st[0] == 'def':
            state_syms(st[2], ctx, acc, seen)
        elif st[0] == 'fn':
            for x in st[2]:
                state_syms(x, ctx, acc, seen)
    return acc


class Analysis(object):
    def __init__(self, ctx, fn, helpers, define_terms=1, result_keys=('result[0]', 'result[1]')):
        self.ctx, self.fn = ctx, fn
        pre, loop, post = split(fn)
        self.loop = loop
        self.pre = mk(ctx, fn, pre, helpers, define_terms)
        self.pre.run()
        self.body = mk(ctx, fn, loop.body, helpers, define_terms)
        written = set()
        for x in ast.walk(loop):
            if isinstance(x, (ast.Assign, ast.AugAssign, ast.For)):
                for t in (x.targets if isinstance(x, ast.Assign) else [x.target]):
                    for n in ast.walk(t):
                        if isinstance(n, ast.Name):
                            written.add(n.id)
            elif isinstance(x, ast.Expr) and isinstance(x.value, ast.Call):
                for a in x.value.args:
                    if isinstance(a, ast.Name):
                        written.add(a.id)      # may be an output array of a helper
        # loop-invariant numeric constants are used by value
        self.consts = dict((k, v) for k, v in self.pre.env.items() if v.is_const() and k.split('[')[0] not in written)
        self.body.env.update(self.consts)
        if isinstance(loop, ast.For):
            self.body.env[loop.target.id] = ctx.var('~' + loop.target.id)
            self.test = Poly.const(1)
            self.test_syms = set()
        else:
            tev = mk(ctx, fn, [], helpers, define_terms)
            self.test = tev.cond(loop.test)
        self.body.run()
        self.post = mk(ctx, fn, post, helpers, define_terms)
        self.post.env.update(self.consts)
        if isinstance(loop, ast.For):
            self.post.env[loop.target.id] = ctx.var('~' + loop.target.id)
        self.post.run()
        self.result_keys = result_keys
        # environment of the pre block on the path that reaches the loop
        self.env0 = dict(self.pre.env)
        self.outs = dict(self.body.env)              # end of a full iteration
        self.exits = [(c, e) for c, e in self.body.breaks]
        # loop state: symbols the body, its conditions or the post block read
        st = set()
        for v in self.outs.values():
            state_syms(v, ctx, st)
        for c, e in self.exits:
            state_syms(c, ctx, st)
            for v in e.values():
                state_syms(v, ctx, st)
        state_syms(self.test, ctx, st)
        self.body_reads = st
        pst = set()
        for live, val, env in self.post.returns:
            state_syms(live, ctx, pst)
            if isinstance(val, Poly):
                state_syms(val, ctx, pst)
            for k in result_keys:
                if k in env:
                    state_syms(env[k], ctx, pst)
        self.post_reads = pst

    def where(self, var, stmts=None):
        for s in ast.walk(self.fn):
            if isinstance(s, (ast.Assign, ast.AugAssign)):
                t = s.targets[0] if isinstance(s, ast.Assign) else s.target
                if ast.unparse(t).replace(' ', '') == var and (stmts is None or any(s is x or s in list(ast.walk(x)) for x in stmts)):
                    return s
        return self.loop


def prove_equivariance(an, sigma, candidates, expect, label):
    """sigma: renaming of the inputs (name -> Poly or None).  candidates(var, names) -> [(text, g)] with g(lookup) -> Poly.
    expect: {result key: g(lookup)} images required of the results, with lookup over the *untransformed* results.
    Returns the list of (var, image text) proved; raises Failure with the first obligation that has no proof."""
    ctx = an.ctx
    proved = []
    image = {}

    def find(var, transformed, lookup, names, stage, node, must=None):
        for text, g in candidates(var, names):
            if must is not None and text != must:
                continue
            try:
                want = g(lookup)
            except KeyError:
                continue
            if not ctx.maybe_equal(transformed, want):
                continue
            if ctx.prove_zero(transformed - want)[0]:
                return text, g
        raise Failure(stage, var, node, 'under %s the %s of `%s`%s' % (
            label, {'init': 'value before the loop', 'step': 'value after one iteration', 'break': 'value at the break',
                    'zero-trip': 'value before the loop'}.get(stage, stage), var,
            ' is not the required image %s' % must if must else ' is not the image of any loop variable (candidates: %s)' % ', '.join(t for t, g in candidates(var, names))))

    # (init) images of the state the body reads, from the values before the loop
    names0 = sorted(an.env0)
    for v in sorted(an.body_reads):
        if v == getattr(an.loop, 'target', None) and isinstance(an.loop, ast.For):
            continue
        if isinstance(an.loop, ast.For) and isinstance(an.loop.target, ast.Name) and v == an.loop.target.id:
            image[v] = ('+' + v, lambda lk, v=v: lk(v))
            continue
        if v not in an.env0:
            raise Failure('init', v, an.loop, 'loop variable `%s` is read in the first iteration before anything assigns it' % v)
        t = ctx.rename(an.env0[v], sigma)
        image[v] = find(v, t, lambda n: an.env0[n], names0, 'init', an.where(v))
        proved.append(('init', v, image[v][0]))

    def sym(n):
        return ctx.var('~' + n)

    def sigma_hat(imgs):
        def f(name):
            if name.startswith('~'):
                n = name[1:]
                if n in imgs:
                    return imgs[n][1](sym)
                return None
            return sigma(name)
        return f

    sh = sigma_hat(image)
    # (exit) loop test and break conditions invariant
    if not ctx.prove_zero(ctx.rename(an.test, sh) - an.test)[0]:
        raise Failure('exit', 'loop test', an.loop, 'the loop test changes under %s' % label)
    for k, (c, e) in enumerate(an.exits):
        if not ctx.prove_zero(ctx.rename(c, sh) - c)[0]:
            raise Failure('exit', 'break %d' % k, an.loop, 'the condition of a break changes under %s: the two orientations stop after different numbers of iterations' % label)
    proved.append(('exit', 'loop test and %d break condition(s)' % len(an.exits), 'invariant'))
    # (step) one iteration
    out_image = {}
    names1 = sorted(an.outs)
    for v in names1:
        if isinstance(an.loop, ast.For) and v == an.loop.target.id:
            continue
        if v not in an.body_reads and v not in an.post_reads and v not in image:
            continue          # a temporary: assigned in every iteration before it is read and dead after the loop - nothing depends on the value it carries over
        t = ctx.rename(an.outs[v], sh)
        out_image[v] = find(v, t, lambda n: an.outs[n], names1, 'step', an.where(v, an.loop.body), must=image[v][0] if v in image else None)
        proved.append(('step', v, out_image[v][0]))
    for v in image:
        if v not in out_image:
            out_image[v] = image[v]      # not assigned in the body: keeps its initial image
    # states at the breaks carry the same images
    for k, (c, e) in enumerate(an.exits):
        for v in sorted(e):
            if v not in out_image or (isinstance(an.loop, ast.For) and v == an.loop.target.id):
                continue
            t = ctx.rename(e[v], sh)
            find(v, t, lambda n: e[n] if n in e else sym(n), sorted(e), 'break', an.where(v, an.loop.body), must=out_image[v][0])
    # zero iterations: the values before the loop carry the images the post block relies on
    for v in sorted(an.post_reads):
        if v in an.env0 and v in out_image and v not in image:
            t = ctx.rename(an.env0[v], sigma)
            find(v, t, lambda n: an.env0[n], names0, 'zero-trip', an.where(v), must=out_image[v][0])
    # (post)
    for v in sorted(an.post_reads):
        if v not in out_image and not (isinstance(an.loop, ast.For) and v == an.loop.target.id):
            raise Failure('post', v, an.loop, '`%s` is read after the loop but never assigned' % v)
    shp = sigma_hat(out_image)
    post = an.post
    if not post.returns:
        raise S.Unsupported('post block without return')
    rv = post.result_of_returns(lambda val, env: val)
    if not ctx.prove_zero(ctx.rename(rv, shp) - rv)[0]:
        raise Failure('post', 'return code', an.loop, 'the return code changes under %s' % label)
    for live, val, env in post.returns:
        if not ctx.prove_zero(ctx.rename(live, shp) - live)[0]:
            raise Failure('post', 'return condition', an.loop, 'which return is taken after the loop changes under %s' % label)
        for k in an.result_keys:
            if k not in env:
                continue
            want = expect[k](lambda kk: env[kk])
            if not ctx.prove_zero(ctx.rename(env[k], shp) - want)[0]:
                raise Failure('post', k, an.where(k), 'under %s %s does not transform as required' % (label, k))
            proved.append(('post', k, 'as required'))
    # early exits of the pre block
    pre = an.pre
    if pre.returns:
        rv = pre.result_of_returns(lambda val, env: val)
        if not ctx.prove_zero(ctx.rename(rv, sigma) - rv)[0]:
            raise Failure('pre', 'early return', an.fn, 'an early return (input validation / vacuum test) is decided differently under %s' % label)
        proved.append(('pre', '%d early return(s)' % len(pre.returns), 'invariant'))
    return proved
