"""C07 - periodic and mirror ghosts (static rules on CPUDomainManager, DESIGN.md C07)."""
import ast
import os
import sys

sys.path.insert(0, os.path.dirname(os.path.dirname(os.path.abspath(__file__))))
from verif_static.core import run_check, AnalysisError  # noqa
from verif_static.norm import same, same_stmt  # noqa
from verif_static import model as M, cfg as C  # noqa

NB = 'pysph/base/nnps_base.pyx'
AXES = ('x', 'y', 'z')
VEL = {'x': 'u', 'y': 'v', 'z': 'w'}


def U(n):
    return M.unparse(n)


def compact(n):
    return U(n).replace(' ', '')


class Builder(object):
    """Flow-sensitive abstract walk of one ghost creator.

    Abstract values:
      carray var  -> ('coord', owner, axis)        x = pa_wrapper.x / ghost_pa.get_carray('x')
      scalar var  -> ('cval', owner, axis)         xi = x.data[i]
      list var    -> set of tags ('idx'|'mt', axis, side, owner) accumulated by append
    """

    def __init__(self, chk, fn, kind, flag_prefix):
        self.chk = chk
        self.fn = fn
        self.kind = kind                  # 'periodic' | 'mirror'
        self.flag_prefix = flag_prefix    # 'periodic_in_' | 'mirror_in_'
        self.env = {}
        self.lists = {}
        self.layer = None
        self.pending = None               # last extraction awaiting its translate/negate
        self.extractions = []
        self.scans = []
        self.owner_alias = {}             # pa -> pa_wrapper ...

    def rule(self, ok, inst, node, bad, good=''):
        self.chk.decide(ok, 'ghost-provenance:' + self.kind, inst, node=node, file=NB, func=self.fn.name,
                        detail_bad=bad, detail_ok=good)

    # -- abstract evaluation of helper expressions
    def coord_of(self, e):
        """('coord', owner, axis) for expressions denoting a coordinate carray"""
        if isinstance(e, ast.Name) and e.id in self.env and self.env[e.id][0] == 'coord':
            return self.env[e.id]
        if isinstance(e, ast.Attribute) and e.attr in AXES and isinstance(e.value, ast.Name):
            return ('coord', self.owner_alias.get(e.value.id, e.value.id), e.attr)
        if isinstance(e, ast.Call) and isinstance(e.func, ast.Attribute) and e.func.attr == 'get_carray' and e.args \
                and M.const_str(e.args[0]) in AXES and isinstance(e.func.value, ast.Name):
            return ('coord', e.func.value.id, M.const_str(e.args[0]))
        return None

    def cval_of(self, e):
        if isinstance(e, ast.Name) and e.id in self.env and self.env[e.id][0] == 'cval':
            return self.env[e.id]
        if isinstance(e, ast.Subscript) and isinstance(e.value, ast.Attribute) and e.value.attr == 'data':
            c = self.coord_of(e.value.value)
            if c:
                return ('cval', c[1], c[2])
        return None

    def bound_of(self, e):
        """(axis, 'min'|'max') for xmin / self.xmin ..."""
        nm = M.dotted(e)
        if nm is None:
            return None
        nm = nm.split('.')[-1]
        if len(nm) == 4 and nm[0] in AXES and nm[1:] in ('min', 'max'):
            return (nm[0], nm[1:])
        return None

    def side_test(self, test):
        """(axis, side, owner) if test is (c - a_min) <= layer  /  (a_max - c) <= layer, else None/('bad', why)"""
        if not (isinstance(test, ast.Compare) and len(test.ops) == 1 and isinstance(test.ops[0], (ast.LtE, ast.Lt))):
            return None
        l, r = test.left, test.comparators[0]
        if not (isinstance(l, ast.BinOp) and isinstance(l.op, ast.Sub)):
            return None
        if U(r) != self.layer:
            return ('bad', 'distance compared with %s, not with the layer thickness %s' % (U(r), self.layer))
        cv, bd = self.cval_of(l.left), self.bound_of(l.right)
        if cv and bd:
            if bd[1] != 'min':
                return ('bad', '%s: coordinate minus upper bound' % U(l))
            if cv[2] != bd[0]:
                return ('bad', '%s mixes axis %s coordinate with axis %s bound' % (U(l), cv[2], bd[0]))
            return (cv[2], 'low', cv[1])
        bd, cv = self.bound_of(l.left), self.cval_of(l.right)
        if cv and bd:
            if bd[1] != 'max':
                return ('bad', '%s: lower bound minus coordinate' % U(l))
            if cv[2] != bd[0]:
                return ('bad', '%s mixes axis %s coordinate with axis %s bound' % (U(l), cv[2], bd[0]))
            return (cv[2], 'high', cv[1])
        return None

    def expand_dist(self, e):
        """e with the locals that name a distance to a face (`d_low = xi - xmin`, flow-sensitive: the name stands for what it was last assigned) written out"""
        dist = getattr(self, 'dist', {})
        if not dist or not any(isinstance(x, ast.Name) and x.id in dist for x in ast.walk(e)):
            return e
        import copy as _copy

        class R(ast.NodeTransformer):
            def visit_Name(self_, n):
                if isinstance(n.ctx, ast.Load) and n.id in dist:
                    return _copy.deepcopy(dist[n.id])
                return n
        return R().visit(_copy.deepcopy(e))

    def mirror_translate(self, e):
        """(axis, side, owner) for -2*(c - amin) / 2*(amax - c)"""
        e = self.expand_dist(e)
        neg = False
        if isinstance(e, ast.BinOp) and isinstance(e.op, ast.Mult):
            k, inner = e.left, e.right
            if isinstance(k, ast.UnaryOp) and isinstance(k.op, ast.USub):
                neg = True
                k = k.operand
            if isinstance(k, ast.Constant) and k.value in (-2, -2.0):
                neg = True
                k = ast.Constant(value=2)
            if isinstance(k, ast.Constant) and k.value in (2, 2.0) and isinstance(inner, ast.BinOp) and isinstance(inner.op, ast.Sub):
                cv, bd = self.cval_of(inner.left), self.bound_of(inner.right)
                if cv and bd and bd[1] == 'min' and cv[2] == bd[0] and neg:
                    return (cv[2], 'low', cv[1])
                bd, cv = self.bound_of(inner.left), self.cval_of(inner.right)
                if cv and bd and bd[1] == 'max' and cv[2] == bd[0] and not neg:
                    return (cv[2], 'high', cv[1])
        return None

    # -- walk
    def walk(self, stmts, guards):
        for s in stmts:
            self.stmt(s, guards)

    def stmt(self, s, guards):
        if isinstance(s, ast.AnnAssign):
            if s.value is None:
                return
            tgt, val = s.target, s.value
            return self.assign(tgt, val, s, guards)
        if isinstance(s, ast.Assign) and len(s.targets) == 1:
            return self.assign(s.targets[0], s.value, s, guards)
        if isinstance(s, ast.For):
            self.scan_bound(s)
            self.walk(s.body, guards)
            return
        if isinstance(s, ast.If):
            side = self.side_test(self.expand_dist(s.test))
            self.walk(s.body, guards + [(s, side)])
            if s.orelse:
                self.walk(s.orelse, guards)
            return
        if isinstance(s, ast.Expr) and isinstance(s.value, ast.Call):
            return self.call(s.value, s, guards, None)

    def scan_bound(self, loop):
        """a candidate scan `for i in range(N)` that reads coordinates must cover the whole array it reads"""
        if not (isinstance(loop.iter, ast.Call) and M.call_name(loop.iter) == 'range' and len(loop.iter.args) == 1
                and isinstance(loop.target, ast.Name)):
            return
        iv = loop.target.id
        owners = set()
        for sub in ast.walk(loop):
            if isinstance(sub, ast.Subscript) and isinstance(sub.value, ast.Attribute) and sub.value.attr == 'data' and U(sub.slice) == iv:
                c = self.coord_of(sub.value.value)
                if c:
                    owners.add(c[1])
        if not owners:
            return
        b = loop.iter.args[0]
        bv = self.env.get(b.id) if isinstance(b, ast.Name) else None
        if isinstance(b, ast.Attribute) and b.attr == 'length':
            c = self.coord_of(b.value)
            bv = ('len', c[1]) if c else None
        ok = bv is not None and bv[0] == 'len' and {bv[1]} == owners
        self.chk.decide(ok, 'ghost-scan-covers-whole-array:' + self.kind, 'scan@%s' % '/'.join(sorted(owners)) + ':%d' % len(self.scans), node=loop,
                        file=NB, func=self.fn.name,
                        detail_bad='the candidate scan over the coordinates of `%s` runs to %s (%s), not over every particle currently in that '
                                   'array: images created earlier (e.g. periodic ghosts in a mixed periodic/mirror domain) are not re-imaged' % (
                                       '/'.join(sorted(owners)), U(b), bv),
                        detail_ok='0..%s.length' % '/'.join(sorted(owners)))
        self.scans.append(loop)

    def assign(self, tgt, val, s, guards):
        if isinstance(tgt, ast.Name) and isinstance(val, ast.Name) and any(e['target'] == val.id for e in self.extractions):
            # `copy = high_copy`: the extracted particles under another name - what is done to `copy` from here on is done to that extraction
            for e in reversed(self.extractions):
                if e['target'] == val.id:
                    self.extractions.remove(e)
                    self.extractions.append(e)
                    e['target'] = tgt.id
                    break
            return
        if isinstance(tgt, ast.Name) and isinstance(val, ast.BinOp) and isinstance(val.op, ast.Sub) and all(isinstance(o, (ast.Name, ast.Attribute)) for o in (val.left, val.right)):
            # a local naming a distance to a face: remembered as the expression it stands for (and forgotten as anything else)
            if not hasattr(self, 'dist'):
                self.dist = {}
            self.dist[tgt.id] = self.expand_dist(val)
            self.env.pop(tgt.id, None)
            return
        if isinstance(tgt, ast.Name) and hasattr(self, 'dist'):
            self.dist.pop(tgt.id, None)
        if isinstance(tgt, ast.Name):
            if isinstance(val, ast.Attribute) and val.attr == 'length':
                c = self.coord_of(val.value)
                if c:
                    self.env[tgt.id] = ('len', c[1])
                    return
            if isinstance(val, ast.Call) and (M.call_name(val) or '').endswith('get_number_of_particles'):
                self.env[tgt.id] = ('count', U(val))
                return
            c = self.coord_of(val)
            if c:
                self.env[tgt.id] = c
                return
            cv = self.cval_of(val)
            if cv and isinstance(val, ast.Subscript):
                self.env[tgt.id] = cv
                return
            if tgt.id == 'cell_size' or (self.layer is None and 'n_layers' in U(val)):
                self.layer = tgt.id
                self.layer_def = val
                return
            if isinstance(val, ast.Attribute) and val.attr == 'pa' and isinstance(val.value, ast.Name):
                # pa = pa_wrapper.pa : coordinates of pa_wrapper belong to pa
                self.owner_alias[val.value.id] = tgt.id
                return
            if isinstance(val, ast.Call) and M.call_name(val) in ('LongArray', 'DoubleArray'):
                self.lists[tgt.id] = {'tags': set(), 'created_in_loop': bool(guards) or self.in_loop}
                return
            if isinstance(val, ast.Call):
                self.env.pop(tgt.id, None)
                return self.call(val, s, guards, tgt.id)
            self.env.pop(tgt.id, None)

    in_loop = False

    def call(self, c, s, guards, target):
        nm = M.call_name(c) or ''
        meth = nm.split('.')[-1]
        recv = nm.rsplit('.', 1)[0] if '.' in nm else ''
        if meth == 'reset' and recv in self.lists:
            self.lists[recv]['tags'] = set()
            return
        if meth == 'append' and recv in self.lists and c.args:
            # which side test guards this append?
            side = None
            for g, sd in reversed(guards):
                if sd is not None:
                    side = sd
                    break
            arg = c.args[0]
            if isinstance(arg, ast.Name) and side and side[0] != 'bad':
                self.lists[recv]['tags'].add(('idx',) + side)
            elif side and side[0] == 'bad':
                self.rule(False, 'layer-test@%s' % recv, s, side[1])
            else:
                mt = self.mirror_translate(arg)
                if mt:
                    if side and side[0] != 'bad' and (side[0], side[1]) != (mt[0], mt[1]):
                        self.rule(False, 'mirror-offset@%s' % recv, s,
                                  'offset %s (axis %s, %s side) stored under the test for axis %s, %s side' % (
                                      U(arg), mt[0], mt[1], side[0], side[1]))
                    self.lists[recv]['tags'].add(('mt',) + mt)
                elif recv in self.lists and not isinstance(arg, ast.Name):
                    self.rule(False, 'mirror-offset@%s' % recv, s,
                              'offset %s is not -2*(c - a_min) / +2*(a_max - c) of one axis' % U(arg))
            return
        if meth == 'extract_particles' and c.args and isinstance(c.args[0], ast.Name) and c.args[0].id in self.lists:
            lst = c.args[0].id
            tags = set(self.lists[lst]['tags'])
            flag = None
            for g, sd in guards:
                t = U(g.test)
                if t.startswith(self.flag_prefix) or t.startswith('self.' + self.flag_prefix):
                    flag = t[-1]
            dest = None
            if len(c.args) > 1:
                dest = U(c.args[1])
            for k in c.keywords:
                if k.arg == 'dest_array':
                    dest = U(k.value)
            ext = {'list': lst, 'tags': tags, 'src': recv, 'dest': dest or target, 'flag': flag, 'node': s,
                   'translated': None, 'negated': None, 'target': target}
            self.extractions.append(ext)
            self.pending = ext
            return
        if meth == '_add_to_array' and self.pending is not None and self.kind == 'periodic' and len(c.args) >= 2:
            arr = c.args[0]
            ax = M.const_str(arr.args[0]) if isinstance(arr, ast.Call) and arr.args else None
            owner = M.call_name(arr).rsplit('.', 1)[0] if isinstance(arr, ast.Call) and M.call_name(arr) else None
            disp = c.args[1]
            sign = 1
            if isinstance(disp, ast.UnaryOp) and isinstance(disp.op, ast.USub):
                sign = -1
                disp = disp.operand
            dn = (M.dotted(disp) or '').split('.')[-1]
            start_ok = any(k.arg == 'start' and U(k.value) == 'start' for k in c.keywords) or \
                (len(c.args) > 2 and U(c.args[2]) == 'start')
            self.pending['translated'] = {'axis': ax, 'owner': owner, 'sign': sign, 'by': dn, 'start': start_ok, 'node': s}
            self.pending = None
            return
        if meth == '_add_array_to_array' and self.kind == 'mirror' and len(c.args) == 2:
            ext = self.last_for_target(c.args[0])
            arr = c.args[0]
            ax = M.const_str(arr.args[0]) if isinstance(arr, ast.Call) and arr.args else None
            tl = U(c.args[1])
            if ext is not None:
                ext['translated'] = {'axis': ax, 'by': tl, 'bytags': set(self.lists.get(tl, {'tags': set()})['tags']),
                                     'node': s}
            return
        if meth == '_mul_to_array' and self.kind == 'mirror' and len(c.args) == 2:
            ext = self.last_for_target(c.args[0])
            arr = c.args[0]
            comp = M.const_str(arr.args[0]) if isinstance(arr, ast.Call) and arr.args else None
            if ext is not None:
                ext['negated'] = {'comp': comp, 'by': U(c.args[1]), 'node': s}
            return

    def last_for_target(self, arr):
        if isinstance(arr, ast.Call) and M.call_name(arr):
            owner = M.call_name(arr).rsplit('.', 1)[0]
            for e in reversed(self.extractions):
                if e['target'] == owner:
                    return e
        return None

    # -- obligations on the collected extractions
    def judge(self):
        seen = {}
        for e in self.extractions:
            tags = e['tags']
            idx = [t for t in tags if t[0] == 'idx']
            inst = '%s<-%s' % (e['list'], e['src'])
            if len(idx) != 1:
                self.rule(False, inst, e['node'],
                          'index list %s mixes or lacks a single (axis, side) provenance: %s' % (e['list'], sorted(tags)))
                continue
            _, axis, side, owner = idx[0]
            key = (axis, side, 'face' if owner == 'pa' else 'corner')
            seen[key] = seen.get(key, 0) + 1
            inst = '%s:%s-%s-%s' % (e['list'], axis, side, key[2])
            # the list must be extracted from the array whose coordinates filled it
            self.rule(e['src'] == owner, inst + ':source', e['node'],
                      'candidates selected by reading the coordinates of `%s` are extracted from `%s`' % (owner, e['src']),
                      'selected and extracted from `%s`' % owner)
            self.rule(e['flag'] == axis, inst + ':flag', e['node'],
                      'images along axis %s are created under the %s%s switch' % (axis, self.flag_prefix, e['flag']),
                      'under %s%s' % (self.flag_prefix, axis))
            tr = e['translated']
            if tr is None:
                self.rule(False, inst + ':translate', e['node'], 'copied particles are never shifted to their image position')
                continue
            if self.kind == 'periodic':
                want_sign = 1 if side == 'low' else -1
                ok = tr['axis'] == axis and tr['by'] == axis + 'translate' and tr['sign'] == want_sign
                self.rule(ok, inst + ':translate', tr['node'],
                          'copies of the %s-%s layer are shifted by %s%s on coordinate %s (expected %s%stranslate on %s)' % (
                              axis, side, '-' if tr['sign'] < 0 else '+', tr['by'], tr['axis'],
                              '+' if want_sign > 0 else '-', axis, axis),
                          '%s%stranslate on %s' % ('+' if want_sign > 0 else '-', axis, axis))
                self.rule(tr['start'] and tr['owner'] == e['dest'], inst + ':only-new-copies', tr['node'],
                          'shift is not restricted to the particles just copied (start=start on the destination buffer)',
                          'applied from the first new copy on')
            else:
                bt = tr['bytags']
                ok = tr['axis'] == axis and bt == {('mt', axis, side, owner)}
                self.rule(ok, inst + ':translate', tr['node'],
                          'reflected copies of the %s-%s layer are displaced on coordinate %s by list %s whose offsets have '
                          'provenance %s (expected offsets of axis %s, %s side, computed from `%s`)' % (
                              axis, side, tr['axis'], tr['by'], sorted(bt), axis, side, owner),
                          'offset list %s has the same (axis, side, source) provenance' % tr['by'])
                ng = e['negated']
                ok = ng is not None and ng['comp'] == VEL[axis] and ng['by'] in ('-1', '-1.0')
                self.rule(ok, inst + ':reverse-normal-velocity', (ng or tr)['node'],
                          'normal velocity component %s is not reversed (got %s)' % (VEL[axis], ng and (ng['comp'], ng['by'])),
                          '%s *= -1' % VEL[axis])
        return seen


def rule_builders(chk, cls):
    total = 0
    for fname, kind, prefix in (('_create_ghosts_periodic', 'periodic', 'periodic_in_'),
                                ('_create_ghosts_mirror', 'mirror', 'mirror_in_')):
        fn = M.find_func(cls, fname)
        b = Builder(chk, fn, kind, prefix)
        b.walk(fn.body, [])
        if b.layer is None:
            raise AnalysisError('%s: layer thickness variable not found' % fname)
        seen = b.judge()
        total += len(b.extractions)
        # completeness: faces for x,y,z both sides; corners (earlier images) for y and z both sides
        for axis in AXES:
            for side in ('low', 'high'):
                chk.decide(seen.get((axis, side, 'face'), 0) >= 1, 'ghost-passes-complete:' + kind, '%s-%s-face' % (axis, side),
                           node=fn, file=NB, func=fname,
                           detail_bad='no image pass for the %s %s face' % (axis, side), detail_ok='present')
                if axis != 'x':
                    chk.decide(seen.get((axis, side, 'corner'), 0) >= 1, 'ghost-passes-complete:' + kind,
                               '%s-%s-earlier-images' % (axis, side), node=fn, file=NB, func=fname,
                               detail_bad='images created by earlier axes are not re-imaged across the %s %s face (edges/corners missing)' % (axis, side),
                               detail_ok='present')
        # layer thickness
        chk.decide(same(b.layer_def, 'self.n_layers*self.cell_size'), 'layer-thickness',
                   fname, node=fn, file=NB, func=fname,
                   detail_bad='ghost layer is %s, expected n_layers*cell_size' % U(b.layer_def), detail_ok=U(b.layer_def))
        # per-array accumulators: every list appended to and consumed in the array loop is reset at the head of each pass
        loops = [l for l in fn.body if isinstance(l, ast.For) and 'narrays' in U(l.iter)]
        if len(loops) != 1:
            raise AnalysisError('%s: per-array loop not found' % fname)
        loop = loops[0]
        g = C.build_cfg(loop.body)
        for name in sorted(b.lists):
            apps = [n.id for n in g.nodes if n.ast is not None and isinstance(n.ast, ast.Expr) and
                    M.call_name(n.ast.value) == name + '.append']
            if not apps:
                continue
            created = [n.id for n in g.nodes if n.ast is not None and isinstance(n.ast, (ast.Assign, ast.AnnAssign)) and
                       U(n.ast.targets[0] if isinstance(n.ast, ast.Assign) else n.ast.target) == name]
            resets = [n.id for n in g.nodes if n.ast is not None and isinstance(n.ast, ast.Expr) and
                      M.call_name(n.ast.value) == name + '.reset']
            ok = all(any(g.dominates(r, a) for r in resets + created) for a in apps)
            chk.decide(ok, 'per-array-accumulator-reset', '%s:%s' % (fname, name), node=loop, file=NB, func=fname,
                       detail_bad='%s is appended to for every particle array but never emptied between arrays: the second '
                                  'array\'s images use the first array\'s entries' % name,
                       detail_ok='reset before the first append of each pass')
        # every particle array of the list gets its images: nothing inside the per-array loop ends the whole pass (an early-out for an array without candidates is `continue`)
        leaves = [x for x in ast.walk(loop) if isinstance(x, ast.Return) or (isinstance(x, ast.Break) and M.enclosing(x, (ast.For, ast.While)) is loop)]
        chk.decide(not leaves, 'ghost-passes-complete:' + kind, 'every-array-processed', node=leaves[0] if leaves else loop, file=NB, func=fname,
                   detail_bad='line %s leaves the loop over the particle arrays (%s): the arrays listed after this one get no images at all' % (
                       getattr(leaves[0], 'lineno', '?') if leaves else '?', type(leaves[0]).__name__.lower() if leaves else ''),
                   detail_ok='no return / break inside the loop over the arrays')
        # the faces are marked independently: a particle within the layer of two faces (both faces of a thin box, an edge, a corner) is on both lists - for every two index lists
        # of the marking loop there is a path through its body that appends to both
        from verif_static import paths as PT
        # (one loop over the particles marking all faces, or one loop per axis: lists filled by different loops are independent of each other anyway)
        marks = [l2 for l2 in ast.walk(loop) if isinstance(l2, ast.For) and l2 is not loop and not any(isinstance(l3, ast.For) and l3 is not l2 for l3 in ast.walk(l2)) and
                 any((M.call_name(c) or '').endswith('.append') and M.call_name(c)[:-7] in b.lists for c in M.calls(l2))]
        if not marks:
            raise AnalysisError('%s: marking loop not found' % fname)
        names_m = set()
        apart = []
        for mk in marks:
            together, names_l = set(), set()
            for p_ in PT.enumerate_paths(list(mk.body)):
                ap = sorted(set(cal[:-7] for i_, c_, cal, env_ in PT.calls_on(p_) if cal.endswith('.append') and cal[:-7] in b.lists))
                names_l |= set(ap)
                for a1 in ap:
                    for a2 in ap:
                        together.add((a1, a2))
            apart += sorted((a1, a2) for a1 in names_l for a2 in names_l if a1 < a2 and (a1, a2) not in together)
            names_m |= names_l
        if len(names_m) < 6:
            raise AnalysisError('%s: marking loops fill only %s' % (fname, sorted(names_m)))
        chk.decide(not apart, 'ghost-passes-complete:' + kind, 'faces-marked-independently', node=marks[0], file=NB, func=fname,
                   detail_bad='no path through the marking loop puts a particle on both %s and %s (one test is the `else` of the other): a particle within the layer of both faces - '
                              'a box thinner than two layers, an edge - gets only one of its images' % (apart[0] if apart else ('', '')), detail_ok='%d lists, every pair can be appended to for one particle' % len(names_m))
        # tagging and hand-over
        gl = C.build_cfg(loop.body)
        appends = [n for n in gl.nodes if n.ast is not None and isinstance(n.ast, ast.Expr) and
                   (M.call_name(n.ast.value) or '').endswith('pa.append_parray')]
        if not appends:
            chk.violated('ghost-tagging', fname, node=loop, file=NB, func=fname, detail='images are never appended to the real array')
        for a in appends:
            buf = U(a.ast.value.args[0])
            tagn = [n.id for n in gl.nodes if n.ast is not None and isinstance(n.ast, ast.Assign) and
                    compact(n.ast.targets[0]) == buf + '.tag[:]' and U(n.ast.value) == 'Ghost']
            ok = bool(tagn) and any(gl.dominates(tn, a.id) for tn in tagn)
            chk.decide(ok, 'ghost-tagging', '%s:%s' % (fname, buf), node=a.ast, file=NB, func=fname,
                       detail_bad='%s is appended to the real array without %s.tag[:] = Ghost first' % (buf, buf),
                       detail_ok='tagged Ghost before being appended')
    chk.floor('extract/translate sites in ghost creators', total, 20)
    # periodic buffer reuse
    fn = M.find_func(cls, '_create_ghosts_periodic')
    reuse = [i for i in ast.walk(fn) if isinstance(i, ast.If) and compact(i.test) == 'notself.ghosts']
    ok = bool(reuse) and any((M.call_name(c) or '').endswith('.resize') and c.args and U(c.args[0]) == '0'
                             for b_ in reuse[0].orelse for c in M.calls(b_))
    chk.decide(ok, 'ghost-buffer-reset', '_create_ghosts_periodic', node=fn, file=NB, func='_create_ghosts_periodic',
               detail_bad='reused ghost buffers are not emptied (resize(0)) before refilling: ghosts accumulate across updates',
               detail_ok='buffers resized to 0 when reused')


def rule_order(chk, cls, base):
    fn = M.find_func(cls, 'update')
    g = C.build_cfg(fn)

    def node(name):
        r = [n.id for n in g.nodes if n.ast is not None and isinstance(n.ast, ast.Expr) and M.call_name(n.ast.value) == 'self.' + name]
        return r[0] if r else None
    names = ['_compute_cell_size_for_binning', '_remove_ghosts', '_box_wrap_periodic', '_create_ghosts_periodic', '_create_ghosts_mirror']
    ids = dict((n, node(n)) for n in names)
    for n in names:
        if ids[n] is None:
            chk.violated('update-order', 'calls:' + n, node=fn, file=NB, func='CPUDomainManager.update', detail='%s is never called' % n)
            return
    pairs = [('_compute_cell_size_for_binning', '_remove_ghosts'), ('_remove_ghosts', '_box_wrap_periodic'),
             ('_box_wrap_periodic', '_create_ghosts_periodic'), ('_remove_ghosts', '_create_ghosts_mirror'),
             ('_compute_cell_size_for_binning', '_create_ghosts_periodic'), ('_compute_cell_size_for_binning', '_create_ghosts_mirror')]
    for a, b in pairs:
        chk.decide(g.dominates(ids[a], ids[b]), 'update-order', '%s<%s' % (a, b), node=g.nodes[ids[b]].ast, file=NB,
                   func='CPUDomainManager.update', detail_bad='%s is not always preceded by %s' % (b, a), detail_ok='dominated')
    # ghosts are managed exactly when the domain is periodic or mirrored and this is not a parallel run (there the parallel manager creates them): per path through update()
    from verif_static import paths as PT
    bad_g = None
    seen_on = seen_off = False
    import itertools
    ATOMS = ('self.is_periodic', 'self.is_mirror', 'self.in_parallel')

    def bval(e, env):
        """truth of a test over the three flags under an assignment; None when it involves anything else"""
        if isinstance(e, ast.BoolOp):
            vs = [bval(v, env) for v in e.values]
            if any(v is None for v in vs):
                return None
            return all(vs) if isinstance(e.op, ast.And) else any(vs)
        if isinstance(e, ast.UnaryOp) and isinstance(e.op, ast.Not):
            v = bval(e.operand, env)
            return None if v is None else not v
        return env.get(compact(e))
    for p_ in PT.enumerate_paths(M.docstring_stripped(fn.body)):
        cl = [cal for i, c, cal, env in PT.calls_on(p_)]
        works = 'self._remove_ghosts' in cl
        conds = [(PT.resolve(e.node, e.env), e.truth) for e in p_ if e.kind == 'cond']
        # every assignment of the three flags under which this path is taken
        models = []
        for vals in itertools.product((True, False), repeat=3):
            env_ = dict(zip(ATOMS, vals))
            if all(bval(t_, env_) in (None, tr_) for t_, tr_ in conds):
                models.append(env_)
        for env_ in models:
            should = (env_[ATOMS[0]] or env_[ATOMS[1]]) and not env_[ATOMS[2]]
            if should and works:
                # each kind of image is made exactly when the domain has that kind of boundary - both kinds on a domain that is periodic along one axis and mirrored along another
                for what_, flag_ in (('self._box_wrap_periodic', ATOMS[0]), ('self._create_ghosts_periodic', ATOMS[0]), ('self._create_ghosts_mirror', ATOMS[1])):
                    if (what_ in cl) != env_[flag_]:
                        bad_k = globals().setdefault('_C07_KIND', [])
                        bad_k.append('%s %s called with is_periodic=%s, is_mirror=%s' % (what_[5:], 'is' if what_ in cl else 'is not', env_[ATOMS[0]], env_[ATOMS[1]]))
            if should != works:
                bad_g = bad_g or ('ghosts %s handled with is_periodic=%s, is_mirror=%s, in_parallel=%s' % ('are' if works else 'are not', env_[ATOMS[0]], env_[ATOMS[1]], env_[ATOMS[2]]))
        if models:
            seen_on = seen_on or works
            seen_off = seen_off or not works
    bad_k = globals().pop('_C07_KIND', [])
    chk.decide(not bad_k, 'update-order', 'each-kind-of-image-exactly-when-its-flag-is-set', node=fn, file=NB, func='CPUDomainManager.update',
               detail_bad='%s: on a domain that is periodic along one axis and mirrored along another both creators must run (periodic first), on a purely periodic / mirrored one only '
                          'its own' % '; '.join(sorted(set(bad_k))[:2]), detail_ok='wrap + periodic images iff is_periodic, mirror images iff is_mirror, for all four flag combinations')
    chk.decide(bad_g is None and seen_on and seen_off, 'update-order', 'outer-guard', node=fn,
               file=NB, func='CPUDomainManager.update',
               detail_bad='ghost handling must run exactly when (is_periodic or is_mirror) and not in_parallel: %s' % bad_g, detail_ok='(is_periodic or is_mirror) and not in_parallel')
    # the old ghosts are removed once, by update() itself, before anything is created: a creator that removes ghosts on its own deletes what the other one just made
    # (periodic images lost on a domain that is periodic along one axis and mirrored along another)
    callers = sorted(set(name for k_ in (cls, base) for name, f_ in M.methods(k_).items() for c in M.calls(f_) if (M.call_name(c) or '') == 'self._remove_ghosts'))
    chk.decide(callers == ['update'], 'update-order', '_remove_ghosts:only-update-removes', node=fn, file=NB, func='CPUDomainManager',
               detail_bad='_remove_ghosts() is called from %s: the ghosts of one kind are deleted again while those of the other are created' % callers, detail_ok='called from update() only')
    # every option the constructor takes and the base class understands reaches the base class (n_layers, props, the periodic / mirror flags, the box)
    init_c, init_b = M.find_func(cls, '__init__'), M.find_func(base, '__init__')
    sup = [c for c in M.calls(init_c) if (M.call_name(c) or '').endswith('__init__') and ((M.call_name(c) or '').startswith(base.name + '.') or (M.call_name(c) or '').startswith('super('))]
    pc, pb = [a.arg for a in init_c.args.args if a.arg != 'self'], [a.arg for a in init_b.args.args if a.arg != 'self']
    lost = []
    if len(sup) == 1:
        posn = [compact(a) for a in sup[0].args if compact(a) != 'self']
        kw = dict((k.arg, compact(k.value)) for k in sup[0].keywords if k.arg)
        for i_, name in enumerate(pb):
            got = kw.get(name, posn[i_] if i_ < len(posn) else None)
            if name in pc and got != name:
                lost.append('%s (%s)' % (name, 'dropped: the base default is used' if got is None else 'receives ' + got))
    chk.decide(len(sup) == 1 and not lost, 'update-order', 'constructor-forwards-every-option', node=sup[0] if sup else init_c, file=NB, func='CPUDomainManager.__init__',
               detail_bad='options not handed to DomainManagerBase.__init__: %s' % ', '.join(lost), detail_ok='%d options forwarded under their own names' % len([n_ for n_ in pb if n_ in pc]))
    # _remove_ghosts covers all arrays
    rg = M.find_func(base, '_remove_ghosts')
    loops = [l for l in ast.walk(rg) if isinstance(l, ast.For)]
    ok = bool(loops) and compact(loops[0].iter) in ('range(narrays)', 'range(self.narrays)', 'self.pa_wrappers', 'pa_wrappers') and \
        any((M.call_name(c) or '').endswith('.remove_tagged_particles') and c.args and U(c.args[0]) == 'Ghost' for c in M.calls(rg))
    chk.decide(ok, 'update-order', '_remove_ghosts:all-arrays', node=rg, file=NB, func='_remove_ghosts',
               detail_bad='previous ghosts are not removed from every array', detail_ok='remove_tagged_particles(Ghost) for every array')
    # flags
    init = M.find_func(base, '__init__')
    src = dict((U(a.targets[0]), compact(a.value)) for a in ast.walk(init) if isinstance(a, ast.Assign))
    chk.decide(src.get('self.is_periodic') in ('periodic_in_xor(periodic_in_yorperiodic_in_z)', 'periodic_in_xorperiodic_in_yorperiodic_in_z'),
               'update-order', 'is_periodic-definition', node=init, file=NB, func='DomainManagerBase.__init__',
               detail_bad='is_periodic = %s' % src.get('self.is_periodic'), detail_ok='any periodic axis')
    chk.decide(src.get('self.is_mirror') in ('mirror_in_xor(mirror_in_yormirror_in_z)', 'mirror_in_xormirror_in_yormirror_in_z'),
               'update-order', 'is_mirror-definition', node=init, file=NB, func='DomainManagerBase.__init__',
               detail_bad='is_mirror = %s' % src.get('self.is_mirror'), detail_ok='any mirror axis')
    for ax in AXES:
        chk.decide(src.get('self.%stranslate' % ax) == '%smax-%smin' % (ax, ax), 'translate-definition', ax, node=init, file=NB,
                   func='DomainManagerBase.__init__', detail_bad='%stranslate = %s' % (ax, src.get('self.%stranslate' % ax)),
                   detail_ok='%smax - %smin' % (ax, ax))


def rule_indices_current(chk, cls):
    """an index list picked from the coordinates of an array is only good for that array as it was: between the loop that fills a list and the extract_particles call that
    consumes it nothing may re-order, grow or shrink the array it indexes (append_parray re-aligns: real particles first, so with mixed tags - periodic ghosts among the copied
    particles - positions change)"""
    MUT = ('append_parray', 'extend', 'remove_particles', 'remove_tagged_particles', 'align_particles', 'add_particles', 'resize')
    n = 0
    for fname in ('_create_ghosts_periodic', '_create_ghosts_mirror'):
        fn = M.find_func(cls, fname)
        g = C.build_cfg(fn)

        def stmts(pred):
            return [nd for nd in g.nodes if nd.ast is not None and isinstance(nd.ast, (ast.Expr, ast.Assign, ast.AugAssign, ast.AnnAssign)) and pred(nd.ast)]
        ext = []
        for nd in stmts(lambda a: True):
            for c in M.calls(nd.ast):
                if isinstance(c.func, ast.Attribute) and c.func.attr == 'extract_particles' and isinstance(c.func.value, ast.Name) and c.args and isinstance(c.args[0], ast.Name):
                    ext.append((nd, c.func.value.id, c.args[0].id))
        for nd, recv, lst in ext:
            fills = [x.id for x in g.nodes if x.ast is not None and isinstance(x.ast, (ast.For, ast.While)) and
                     any(isinstance(c.func, ast.Attribute) and c.func.attr == 'append' and compact(c.func.value) == lst for c in M.calls(x.ast))]
            resets = [x.id for x in stmts(lambda a: any(isinstance(c.func, ast.Attribute) and c.func.attr == 'reset' and compact(c.func.value) == lst for c in M.calls(a)))]
            muts = [x for x in stmts(lambda a: any(isinstance(c.func, ast.Attribute) and c.func.attr in MUT and compact(c.func.value) == recv for c in M.calls(a)))]
            rebinds = [x.id for x in stmts(lambda a: isinstance(a, ast.Assign) and any(isinstance(t_, ast.Name) and t_.id == recv for t_ in a.targets))]
            if not fills:
                continue
            bad = []
            for m_ in muts:
                if m_.id == nd.id:
                    continue
                after_fill = any(m_.id in g.reachable(f_, avoid=set(rebinds)) for f_ in fills)
                reaches = nd.id in g.reachable(m_.id, avoid=set(fills) | set(resets) | set(rebinds))
                if after_fill and reaches:
                    bad.append(m_.ast.lineno)
            n += 1
            chk.decide(not bad, 'indices-current-when-used', '%s:%s.extract_particles(%s)@%d' % (fname, recv, lst, sum(1 for e_ in ext if e_[1] == recv and e_[2] == lst and e_[0].id <= nd.id)),
                       node=nd.ast, file=NB, func=fname,
                       detail_bad='`%s` was filled from the coordinates of `%s`, but before it is used here `%s` is changed at line(s) %s (append_parray re-aligns the array: real particles '
                                  'first): when the copied particles carry mixed tags - periodic ghosts next to real particles, i.e. a periodic axis together with two mirrored ones - the '
                                  'indices point at other particles, so some images are missing and others are made of the wrong particle' % (lst, recv, recv, sorted(set(bad))),
                       detail_ok='nothing changes `%s` between the loop that fills `%s` and this extraction' % (recv, lst))
    chk.floor('extractions through an index list', n, 12)
    # the per-particle offsets are applied to an extracted copy *by position*; extract_particles aligns the copy it returns (real particles first), so the copy is in the order
    # of the index list only if the array extracted from is itself aligned - every append to an array that is later extracted from by index list leaves it aligned
    for fname in ('_create_ghosts_periodic', '_create_ghosts_mirror'):
        fn = M.find_func(cls, fname)
        recvs = set(c.func.value.id for c in M.calls(fn) if isinstance(c.func, ast.Attribute) and c.func.attr == 'extract_particles' and isinstance(c.func.value, ast.Name))
        unaligned = []
        for c in M.calls(fn):
            if isinstance(c.func, ast.Attribute) and c.func.attr in ('append_parray', 'extract_particles') and isinstance(c.func.value, ast.Name) and c.func.value.id in recvs:
                kw = dict((k.arg, k.value) for k in c.keywords)
                al = kw.get('align', c.args[1] if c.func.attr == 'append_parray' and len(c.args) > 1 else None)
                if c.func.attr == 'append_parray' and al is not None and isinstance(al, ast.Constant) and al.value is False:
                    # only when an extraction from the same array can still follow (before the name is bound to another array)
                    g_ = C.build_cfg(fn)
                    mnode = next((nd.id for nd in g_.nodes if nd.ast is not None and isinstance(nd.ast, (ast.Expr, ast.Assign)) and any(c is x for x in ast.walk(nd.ast))), None)
                    rb = [nd.id for nd in g_.nodes if nd.ast is not None and isinstance(nd.ast, ast.Assign) and any(isinstance(t_, ast.Name) and t_.id == c.func.value.id for t_ in nd.ast.targets)]
                    exts = [nd.id for nd in g_.nodes if nd.ast is not None and isinstance(nd.ast, (ast.Expr, ast.Assign)) and
                            any(isinstance(x, ast.Call) and isinstance(x.func, ast.Attribute) and x.func.attr == 'extract_particles' and isinstance(x.func.value, ast.Name) and
                                x.func.value.id == c.func.value.id for x in ast.walk(nd.ast))]
                    if mnode is not None and any(e_ in g_.reachable(mnode, avoid=set(rb)) and e_ != mnode for e_ in exts):
                        unaligned.append('%s at line %d' % (U(c)[:50], c.lineno))
        chk.decide(not unaligned, 'indices-current-when-used', '%s:arrays-extracted-from-stay-aligned' % fname, node=fn, file=NB, func=fname,
                   detail_bad='%s: the array is later extracted from by an index list whose offsets are applied to the copy by position, but extract_particles returns an *aligned* copy '
                              '(real particles first): with ghost-tagged images in front of real-tagged ones in the unaligned array the offsets land on other images' % '; '.join(unaligned[:2]),
                   detail_ok='every append aligns')


def rule_wrap(chk, cls):
    """_box_wrap_periodic: for every particle and every periodic axis the coordinate ends up as `c + T if c < min`, then `- T if that > max`, and untouched on a
    non-periodic axis.  Decided by value numbering: the body of the particle loop is evaluated symbolically (helper functions of the module inlined, branches
    if-converted into indicators) and compared with the same evaluation of the reference statements, so the rule does not depend on how the wrap is spelled."""
    from verif_static import symb as S
    fn = M.find_func(cls, '_box_wrap_periodic')
    t = M.cy(NB)
    helpers = dict((f.name, f) for f in t.body if isinstance(f, ast.FunctionDef))
    env = {}
    for a in ast.walk(fn):
        if isinstance(a, ast.Assign) and isinstance(a.targets[0], ast.Name) and isinstance(a.value, ast.Attribute) and a.value.attr in AXES:
            env[a.value.attr] = a.targets[0].id
    ploops = [l for l in ast.walk(fn) if isinstance(l, ast.For) and isinstance(l.iter, ast.Call) and M.call_name(l.iter) == 'range' and isinstance(l.target, ast.Name)]
    if len(ploops) != 1 or set(env) != set(AXES):
        raise AnalysisError('_box_wrap_periodic: particle loop / coordinate arrays not found')
    pl = ploops[0]
    iv = pl.target.id
    noargs = ast.arguments(posonlyargs=[], args=[], kwonlyargs=[], kw_defaults=[], defaults=[])

    def run(stmts):
        ctx = S.Ctx(seconds=20)
        ev = S.Evaluator(ctx, ast.FunctionDef(name='f', args=noargs, body=stmts, decorator_list=[]), helpers=helpers)
        ev.run()
        return ctx, ev
    n = 0
    try:
        ctx, ev = run(list(pl.body))
        for ax in AXES:
            arr = env[ax]
            c = '%s.data[%s]' % (arr, iv)
            ref = ast.parse('if periodic_in_%(ax)s:\n    if %(c)s < %(ax)smin: %(c)s = %(c)s + %(ax)stranslate\n    if %(c)s > %(ax)smax: %(c)s = %(c)s - %(ax)stranslate\n'
                            % dict(ax=ax, c=c)).body
            # evaluated in the same context, so that equal sub-terms are the same atoms
            ev2 = S.Evaluator(ctx, ast.FunctionDef(name='g', args=noargs, body=ref, decorator_list=[]), helpers=helpers)
            ev2.run()
            got, want = ev.env.get(c), ev2.env.get(c)
            n += 1
            if got is None:
                chk.violated('periodic-wrap', '%s-axis' % ax, node=pl, file=NB, func='_box_wrap_periodic', detail='the %s coordinate is never wrapped' % ax)
                continue
            ok = ctx.prove_zero(got - want)[0]
            w = None if ok else ctx.witness(got - want, want + S.Poly.const(1))
            chk.decide(ok, 'periodic-wrap', '%s-axis' % ax, node=pl, file=NB, func='_box_wrap_periodic',
                       detail_bad='after the loop body the %s coordinate is not `c + %stranslate if c < %smin`, then `- %stranslate if that > %smax` (only when periodic_in_%s)%s'
                                  % (ax, ax, ax, ax, ax, ax, '; e.g. at %s' % ', '.join('%s=%.3g' % kv for kv in sorted(w[0].items())) if w else ''),
                       detail_ok='value-numbered result equals the reference wrap')
        # nothing else is written by the loop body
        extra = sorted(k for k in ev.env if '.data[' in k and k not in ['%s.data[%s]' % (env[ax], iv) for ax in AXES])
        chk.decide(not extra, 'periodic-wrap', 'only-coordinates-move', node=pl, file=NB, func='_box_wrap_periodic', detail_bad='the wrap also writes %s' % extra, detail_ok='only x, y, z')
    except (S.Unsupported, S.Budget) as e:
        chk.undecided('periodic-wrap', 'evaluation', node=pl, file=NB, func='_box_wrap_periodic', detail=str(e))
    chk.floor('wrap obligations', n, 3)
    # every particle of every array: the loop bound is the live length of the coordinate array (a count remembered by the wrapper is stale after additions)
    bound = pl.iter.args[-1] if pl.iter.args else None
    defs = dict((a.targets[0].id, a.value) for a in ast.walk(fn) if isinstance(a, ast.Assign) and isinstance(a.targets[0], ast.Name))
    while isinstance(bound, ast.Name) and bound.id in defs:
        bound = defs[bound.id]
    bt = compact(bound) if bound is not None else ''
    live = bt in ['%s.length' % env[ax] for ax in AXES] or bt.endswith('.get_number_of_particles()')
    chk.decide(len(pl.iter.args) == 1 and live, 'periodic-wrap', 'all-particles', node=pl, file=NB, func='_box_wrap_periodic',
               detail_bad='the particle loop runs over `%s`, not over the current length of the coordinate arrays: particles added after the wrappers were made are never wrapped' % bt,
               detail_ok='range(%s)' % bt)
    loops = [l for l in fn.body if isinstance(l, ast.For)]
    chk.decide(bool(loops) and compact(loops[0].iter) in ('self.pa_wrappers', 'pa_wrappers'), 'periodic-wrap', 'all-arrays',
               node=fn, file=NB, func='_box_wrap_periodic', detail_bad='wrap does not visit every particle array', detail_ok='all arrays')


def rule_cell_size(chk, cls):
    """the thickness of the ghost layers is a multiple of the cell size: decided by the model run of _compute_cell_size_for_binning shared with C01 (largest h over all arrays,
    refreshed in this call, stored and handed on)"""
    import importlib.util
    spec1 = importlib.util.spec_from_file_location('c01mod', os.path.join(os.path.dirname(os.path.abspath(__file__)), 'c01.py'))
    c01 = importlib.util.module_from_spec(spec1)
    spec1.loader.exec_module(c01)
    chk.floor('model runs of _compute_cell_size_for_binning', c01.rule_cell_size_model(chk, rule='layer-thickness'), 15)


def main(chk):
    chk.explanation = ('Flow-sensitive provenance typing of the ghost builders: every index list gets (axis, side, source array) '
                       'from the layer test guarding its append; each extraction must be taken from the array whose coordinates '
                       'selected it and be shifted/reflected on the same axis with the right sign; per-array accumulators reset; '
                       'ghost tagging; remove->wrap->create order by dominance; wrap rule; layer thickness dataflow.')
    t = M.cy(NB)
    cls_raw = M.find_class(t, 'CPUDomainManager')
    base = M.find_class(t, 'DomainManagerBase')
    # private helpers a maintainer factors out of the builders are inlined again; the methods of the pinned tree keep their names
    PINNED = ('__init__', '_add_array_to_array', '_add_to_array', '_box_wrap_periodic', '_change_velocity', '_compute_cell_size_for_binning', '_create_ghosts_mirror',
              '_create_ghosts_periodic', '_mul_to_array', '_update_from_gpu', '_update_gpu', 'update', '_check_limits', '_remove_ghosts')
    cls = M.inlined_class(cls_raw, keep=set(PINNED) | set(n_ for n_ in M.methods(cls_raw) if not n_.startswith('_')))
    # `for indices, translate in ((x_low, xt_low), (x_high, xt_high)): <pass>` is the two passes written out
    cls = M.literal_loops_unrolled(cls)
    rule_order(chk, cls, base)
    rule_builders(chk, cls)
    rule_indices_current(chk, cls)
    rule_wrap(chk, cls)
    rule_cell_size(chk, cls)
    # the previous round's ghosts are removed with ParticleArray.remove_tagged_particles, which must look at every particle (the array
    # need not be aligned when _remove_ghosts runs): rule shared with C06
    import importlib.util
    spec = importlib.util.spec_from_file_location('c06mod', os.path.join(os.path.dirname(os.path.abspath(__file__)), 'c06.py'))
    c06 = importlib.util.module_from_spec(spec)
    spec.loader.exec_module(c06)
    c06.rule_tag_scans(chk, M.find_class(M.cy(c06.PA), 'ParticleArray'))
    # ghosts are made with extract_particles / append_parray: every sized operation is scaled by the stride of the same property (rule shared with C06)
    c06.rule_stride(chk, M.find_class(M.cy(c06.PA), 'ParticleArray'))
    # the scratch ghost arrays are brought up to date with ensure_properties (type, default and stride of every copied property: model run shared with C06), and every
    # append re-aligns the array (images keep their tags and the real particles stay in front only if the index array of align_particles is a permutation: rule shared with C16)
    c06.rule_ensure_model(chk)
    spec16 = importlib.util.spec_from_file_location('c16mod', os.path.join(os.path.dirname(os.path.abspath(__file__)), 'c16.py'))
    c16 = importlib.util.module_from_spec(spec16)
    spec16.loader.exec_module(c16)
    c16.rule_alignment(chk)
    chk.unit('functions', ['CPUDomainManager.update', '_create_ghosts_periodic', '_create_ghosts_mirror', '_box_wrap_periodic',
                           '_compute_cell_size_for_binning', 'DomainManagerBase._remove_ghosts', 'DomainManagerBase.__init__'])
    chk.assume('ParticleArray.extract_particles/append_parray copy whole particles (C06); carray.reset() empties a list')
    chk.assume('set-exactness of the images for points on faces and variable h is not decided')


if __name__ == '__main__':
    run_check('C07', main)
