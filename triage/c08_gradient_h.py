"""Triage only (not a check): gradient_h against a central finite difference of kernel() in h (pure Python kernels).
Before the C08 fix SuperGaussian.gradient_h had the opposite sign for every dimension."""
import os, sys
sys.path.insert(0, os.environ.get('TRIAGE_SRC', '/repo'))
from pysph.base import kernels as K
bad = 0
for name in ('CubicSpline', 'Gaussian', 'SuperGaussian', 'QuinticSpline', 'WendlandQuintic', 'WendlandQuinticC4', 'WendlandQuinticC6',
             'WendlandQuinticC2_1D', 'WendlandQuinticC4_1D', 'WendlandQuinticC6_1D'):
    for dim in (1, 2, 3):
        try:
            k = getattr(K, name)(dim=dim)
        except (ValueError, TypeError):
            continue
        r, h, e = 0.7, 0.9, 1e-6
        fd = (k.kernel(rij=r, h=h + e) - k.kernel(rij=r, h=h - e)) / (2 * e)
        gh = k.gradient_h(rij=r, h=h)
        ok = abs(gh - fd) <= 1e-6 * max(1.0, abs(fd))
        bad += not ok
        if not ok:
            print('%s dim=%d: gradient_h=%.9f but dW/dh=%.9f' % (name, dim, gh, fd))
print('C08 gradient_h:', 'DEFECT in %d cases' % bad if bad else 'all kernels agree with dW/dh')
