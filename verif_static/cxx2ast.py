"""C++ front end for the two headers the extensions compile (pysph/base/spatial_hash.h, z_order.h).

clang is used as a *parser only* (`clang++ -fsyntax-only -Xclang -ast-dump=json`): nothing is compiled or run.  The JSON tree of
each function / method body is lowered to the stdlib `ast` - like cy2ast does for Cython - so the same CFG / matching helpers apply:

  CompoundStmt -> statement list          DeclStmt/VarDecl -> AnnAssign           BinaryOperator '=' -> Assign
  WhileStmt / ForStmt -> While / (init; While)       IfStmt -> If       BreakStmt / ReturnStmt / ContinueStmt
  p->f, a.f -> Attribute          a[i] -> Subscript          this -> Name('this')          NULL / nullptr -> Constant(None)
  new T(args) -> Call(Name('new_T'), args)          delete p -> Expr(Call(Name('delete'), [p]))          casts erased
"""
import ast
import json
import os
import subprocess

from .core import AnalysisError

CLANG = None
for cand in ('/usr/bin/clang++-14', '/usr/bin/clang++'):
    if os.path.exists(cand):
        CLANG = cand
        break


class FrontEndError(AnalysisError):
    pass


def dump(path):
    if CLANG is None:
        raise FrontEndError('clang++ not found: the C++ headers cannot be parsed')
    r = subprocess.run([CLANG, '-x', 'c++', '-std=c++11', '-fsyntax-only', '-Xclang', '-ast-dump=json', path], stdout=subprocess.PIPE, stderr=subprocess.PIPE, text=True, timeout=120)
    if r.returncode != 0 or not r.stdout.strip():
        raise FrontEndError('clang could not parse %s: %s' % (path, r.stderr.strip()[-300:]))
    return json.loads(r.stdout)


BINOPS = {'+': ast.Add, '-': ast.Sub, '*': ast.Mult, '/': ast.Div, '%': ast.Mod, '<<': ast.LShift, '>>': ast.RShift, '|': ast.BitOr, '&': ast.BitAnd, '^': ast.BitXor}
CMPOPS = {'==': ast.Eq, '!=': ast.NotEq, '<': ast.Lt, '<=': ast.LtE, '>': ast.Gt, '>=': ast.GtE}


class Lower(object):
    def __init__(self, rel):
        self.rel = rel
        self.line = 0

    def pos(self, n, node):
        loc = n.get('range', {}).get('begin', {})
        if 'line' in loc:
            self.line = loc['line']
        elif 'line' in n.get('loc', {}):
            self.line = n['loc']['line']
        node.lineno = self.line
        node.col_offset = loc.get('col', 0)
        node.end_lineno = node.lineno
        node.end_col_offset = 0
        return node

    # -- expressions
    def e(self, n):
        k = n.get('kind')
        inner = n.get('inner', [])
        if k in ('ImplicitCastExpr', 'ParenExpr', 'CStyleCastExpr', 'CXXStaticCastExpr', 'CXXFunctionalCastExpr', 'MaterializeTemporaryExpr', 'ExprWithCleanups',
                 'CXXBindTemporaryExpr', 'ConstantExpr'):
            return self.e(inner[-1])
        if k == 'DeclRefExpr':
            return self.pos(n, ast.Name(id=n['referencedDecl'].get('name', '?'), ctx=ast.Load()))
        if k == 'CXXThisExpr':
            return self.pos(n, ast.Name(id='this', ctx=ast.Load()))
        if k in ('GNUNullExpr', 'CXXNullPtrLiteralExpr'):
            return self.pos(n, ast.Constant(value=None))
        if k == 'IntegerLiteral':
            return self.pos(n, ast.Constant(value=int(n['value'])))
        if k == 'FloatingLiteral':
            return self.pos(n, ast.Constant(value=float(n['value'])))
        if k == 'CXXBoolLiteralExpr':
            return self.pos(n, ast.Constant(value=bool(n['value'])))
        if k == 'MemberExpr':
            base = self.e(inner[0]) if inner else ast.Name(id='this', ctx=ast.Load())
            return self.pos(n, ast.Attribute(value=base, attr=n.get('name', '?'), ctx=ast.Load()))
        if k == 'ArraySubscriptExpr':
            return self.pos(n, ast.Subscript(value=self.e(inner[0]), slice=self.e(inner[1]), ctx=ast.Load()))
        if k == 'BinaryOperator':
            op = n['opcode']
            a, b = self.e(inner[0]), self.e(inner[1])
            if op in BINOPS:
                return self.pos(n, ast.BinOp(left=a, op=BINOPS[op](), right=b))
            if op in CMPOPS:
                return self.pos(n, ast.Compare(left=a, ops=[CMPOPS[op]()], comparators=[b]))
            if op in ('&&', '||'):
                return self.pos(n, ast.BoolOp(op=ast.And() if op == '&&' else ast.Or(), values=[a, b]))
            if op == '=':
                # assignment used as an expression
                return self.pos(n, ast.NamedExpr(target=a, value=b))
            raise FrontEndError('binary operator %s' % op)
        if k == 'UnaryOperator':
            op = n['opcode']
            a = self.e(inner[0])
            if op == '!':
                return self.pos(n, ast.UnaryOp(op=ast.Not(), operand=a))
            if op == '-':
                return self.pos(n, ast.UnaryOp(op=ast.USub(), operand=a))
            if op == '+':
                return a
            if op == '&':
                return self.pos(n, ast.Call(func=ast.Name(id='__addr__', ctx=ast.Load()), args=[a], keywords=[]))
            if op == '*':
                return self.pos(n, ast.Call(func=ast.Name(id='__deref__', ctx=ast.Load()), args=[a], keywords=[]))
            if op == '~':
                return self.pos(n, ast.UnaryOp(op=ast.Invert(), operand=a))
            if op in ('++', '--'):
                return self.pos(n, ast.Call(func=ast.Name(id='__inc__' if op == '++' else '__dec__', ctx=ast.Load()), args=[a], keywords=[]))
            raise FrontEndError('unary operator %s' % op)
        if k in ('CallExpr', 'CXXMemberCallExpr', 'CXXOperatorCallExpr'):
            f = self.e(inner[0])
            return self.pos(n, ast.Call(func=f, args=[self.e(x) for x in inner[1:]], keywords=[]))
        if k == 'CXXNewExpr':
            args = []
            tname = 'new'
            for x in inner:
                if x.get('kind') == 'CXXConstructExpr':
                    tname = 'new_' + x.get('type', {}).get('qualType', '').replace(' ', '')
                    args = [self.e(y) for y in x.get('inner', [])]
                else:
                    args.append(self.e(x))
            if n.get('isArray'):
                tname = 'new_array'
            return self.pos(n, ast.Call(func=ast.Name(id=tname, ctx=ast.Load()), args=args, keywords=[]))
        if k in ('CXXConstructExpr', 'CXXTemporaryObjectExpr'):
            return self.pos(n, ast.Call(func=ast.Name(id=n.get('type', {}).get('qualType', 'ctor').replace(' ', ''), ctx=ast.Load()), args=[self.e(x) for x in inner], keywords=[]))
        if k == 'CXXDeleteExpr':
            return self.pos(n, ast.Call(func=ast.Name(id='delete', ctx=ast.Load()), args=[self.e(inner[0])], keywords=[]))
        if k == 'ConditionalOperator':
            return self.pos(n, ast.IfExp(test=self.e(inner[0]), body=self.e(inner[1]), orelse=self.e(inner[2])))
        if k == 'CompoundAssignOperator':
            return self.pos(n, ast.NamedExpr(target=self.e(inner[0]), value=self.e(inner[1])))
        if k in ('UnresolvedLookupExpr', 'UnresolvedMemberExpr'):
            return self.pos(n, ast.Name(id=n.get('name', 'unresolved'), ctx=ast.Load()))
        if k == 'StringLiteral':
            return self.pos(n, ast.Constant(value=n.get('value', '')))
        raise FrontEndError('expression kind %s' % k)

    # -- statements
    def store(self, t):
        for x in ast.walk(t):
            if isinstance(x, (ast.Name, ast.Attribute, ast.Subscript)) and x is t:
                x.ctx = ast.Store()
        return t

    def s(self, n):
        k = n.get('kind')
        inner = n.get('inner', [])
        if k == 'CompoundStmt':
            out = []
            for x in inner:
                out.extend(self.s(x))
            return out
        if k == 'DeclStmt':
            out = []
            for v in inner:
                if v.get('kind') == 'VarDecl':
                    val = None
                    vi = [y for y in v.get('inner', []) if y.get('kind') not in ('FullComment',)]
                    if vi:
                        val = self.e(vi[-1])
                    tgt = self.pos(v, ast.Name(id=v['name'], ctx=ast.Store()))
                    out.append(self.pos(v, ast.AnnAssign(target=tgt, annotation=ast.Constant(value=v.get('type', {}).get('qualType', '')), value=val, simple=1)))
            return out
        if k == 'BinaryOperator' and n.get('opcode') == '=':
            return [self.pos(n, ast.Assign(targets=[self.store(self.e(inner[0]))], value=self.e(inner[1])))]
        if k == 'CompoundAssignOperator':
            op = n['opcode'][:-1]
            return [self.pos(n, ast.AugAssign(target=self.store(self.e(inner[0])), op=BINOPS[op](), value=self.e(inner[1])))]
        if k == 'UnaryOperator' and n.get('opcode') in ('++', '--'):
            return [self.pos(n, ast.AugAssign(target=self.store(self.e(inner[0])), op=ast.Add() if n['opcode'] == '++' else ast.Sub(), value=ast.Constant(value=1)))]
        if k == 'WhileStmt':
            return [self.pos(n, ast.While(test=self.e(inner[0]), body=self.s(inner[1]) or [ast.Pass()], orelse=[]))]
        if k == 'ForStmt':
            init, _, cond, inc, body = (inner + [{}] * 5)[:5]
            out = self.s(init) if init.get('kind') else []
            b = (self.s(body) if body.get('kind') else []) + (self.s(inc) if inc.get('kind') else [])
            w = self.pos(n, ast.While(test=self.e(cond) if cond.get('kind') else ast.Constant(value=True), body=b or [ast.Pass()], orelse=[]))
            w.cxx_for = True
            return out + [w]
        if k == 'IfStmt':
            cond = self.e(inner[0])
            body = self.s(inner[1]) if len(inner) > 1 else []
            orelse = self.s(inner[2]) if len(inner) > 2 else []
            return [self.pos(n, ast.If(test=cond, body=body or [ast.Pass()], orelse=orelse))]
        if k == 'ReturnStmt':
            return [self.pos(n, ast.Return(value=self.e(inner[0]) if inner else None))]
        if k == 'BreakStmt':
            return [self.pos(n, ast.Break())]
        if k == 'ContinueStmt':
            return [self.pos(n, ast.Continue())]
        if k == 'NullStmt':
            return []
        # expression statement
        return [self.pos(n, ast.Expr(value=self.e(n)))]

    def function(self, n, owner=None):
        params = [ast.arg(arg=p.get('name', '_'), annotation=ast.Constant(value=p.get('type', {}).get('qualType', ''))) for p in n.get('inner', []) if p.get('kind') == 'ParmVarDecl']
        body = [x for x in n.get('inner', []) if x.get('kind') == 'CompoundStmt']
        if not body:
            return None
        stmts = self.s(body[0])
        name = n.get('name', '?')
        fn = ast.FunctionDef(name=name, args=ast.arguments(posonlyargs=[], args=params, kwonlyargs=[], kw_defaults=[], defaults=[]), body=stmts or [ast.Pass()], decorator_list=[], returns=None)
        self.pos(n, fn)
        fn.cxx_rettype = n.get('type', {}).get('qualType', '').split('(')[0].strip()
        return fn


_cache = {}


def load(repo, rel):
    """ast.Module with one ClassDef per C++ class (methods lowered) and one FunctionDef per free function defined in the header"""
    path = os.path.join(repo, rel)
    key = (path, os.path.getmtime(path))
    if key in _cache:
        return _cache[key]
    tu = dump(path)
    lo = Lower(rel)
    body = []

    def in_file(n):
        loc = n.get('loc', {})
        f = loc.get('file') or loc.get('spellingLoc', {}).get('file') or loc.get('expansionLoc', {}).get('file')
        return f

    cur = [None]
    for n in tu.get('inner', []):
        f = in_file(n)
        if f is not None:
            cur[0] = f
        if cur[0] != path:
            continue
        if n.get('kind') == 'CXXRecordDecl' and n.get('completeDefinition'):
            body.append(lower_class(lo, n))
        elif n.get('kind') == 'FunctionDecl':
            fn = lo.function(n)
            if fn is not None:
                body.append(fn)
    mod = ast.Module(body=body, type_ignores=[])
    _cache[key] = mod
    return mod


def lower_class(lo, n):
    members = []
    for m in n.get('inner', []):
        if m.get('kind') in ('CXXMethodDecl', 'CXXConstructorDecl', 'CXXDestructorDecl') and not m.get('isImplicit'):
            fn = lo.function(m)
            if fn is not None:
                if m['kind'] == 'CXXConstructorDecl':
                    fn.name = '__init__'
                elif m['kind'] == 'CXXDestructorDecl':
                    fn.name = '__del__'
                members.append(fn)
        elif m.get('kind') == 'CXXRecordDecl' and m.get('completeDefinition') and not m.get('isImplicit'):
            members.append(lower_class(lo, m))
        elif m.get('kind') == 'FieldDecl':
            members.append(lo.pos(m, ast.AnnAssign(target=ast.Name(id=m['name'], ctx=ast.Store()), annotation=ast.Constant(value=m.get('type', {}).get('qualType', '')), value=None, simple=1)))
    c = ast.ClassDef(name=n.get('name', '?'), bases=[], keywords=[], body=members or [ast.Pass()], decorator_list=[])
    lo.pos(n, c)
    return c
