"""E4 - small-lattice provenance dataflow (may-dependence with tag sets).

Abstract value = ``frozenset`` of tags, or ``TupleVal`` of abstract values
(for tuple returns / unpacking).  Evaluation of a function body is
flow-insensitive (iterated to a fixpoint over the statement list) and
interprocedural by inlining resolvable callees up to a depth bound.  The
result over-approximates "which tagged origins may flow into this value".

Hooks:
  intrinsic(node, ev) -> abstract value or None   (tag sources)
  resolve(call, ev)   -> (FunctionDef, bound self abstract value or None) or None
"""
import ast

from .model import dotted

EMPTY = frozenset()


class TupleVal(tuple):
    pass


def join(a, b):
    if isinstance(a, TupleVal) and isinstance(b, TupleVal) and len(a) == len(b):
        return TupleVal(join(x, y) for x, y in zip(a, b))
    return flat(a) | flat(b)


def flat(v):
    if isinstance(v, TupleVal):
        out = EMPTY
        for x in v:
            out = out | flat(x)
        return out
    return v if v is not None else EMPTY


class Evaluator(object):
    def __init__(self, intrinsic=None, resolve=None, max_depth=4):
        self.intrinsic = intrinsic
        self.resolve = resolve
        self.max_depth = max_depth
        self.trace = []

    # ------------------------------------------------------------------
    def run_function(self, fn, args=None, depth=0, selfval=None):
        """Evaluate ``fn``; returns (return value, env)."""
        env = {}
        names = [a.arg for a in fn.args.args]
        args = list(args or [])
        if selfval is not None and names and names[0] == 'self':
            env['self'] = selfval
            names = names[1:]
        for i, n in enumerate(names):
            env[n] = args[i] if i < len(args) else EMPTY
        ret = [EMPTY]
        for _ in range(6):
            before = dict(env)
            rbefore = ret[0]
            self._block(fn.body, env, ret, depth)
            if env == before and ret[0] == rbefore:
                break
        return ret[0], env

    def _assign(self, target, val, env, depth):
        if isinstance(target, (ast.Tuple, ast.List)):
            if isinstance(val, TupleVal) and len(val) == len(target.elts):
                for t, v in zip(target.elts, val):
                    self._assign(t, v, env, depth)
            else:
                for t in target.elts:
                    self._assign(t, flat(val), env, depth)
            return
        if isinstance(target, ast.Starred):
            return self._assign(target.value, val, env, depth)
        key = dotted(target)
        if key is not None:
            env[key] = join(env.get(key, EMPTY), val) if key in env else val
            return
        if isinstance(target, ast.Subscript):
            k = dotted(target.value)
            if k is not None:
                env[k] = join(env.get(k, EMPTY), flat(val))

    def _block(self, stmts, env, ret, depth):
        for s in stmts:
            self._stmt(s, env, ret, depth)

    def _stmt(self, s, env, ret, depth):
        if isinstance(s, ast.Assign):
            v = self.ev(s.value, env, depth)
            for t in s.targets:
                self._assign(t, v, env, depth)
        elif isinstance(s, ast.AnnAssign):
            if s.value is not None:
                self._assign(s.target, self.ev(s.value, env, depth), env, depth)
        elif isinstance(s, ast.AugAssign):
            self._assign(s.target, join(self.ev(s.target, env, depth), self.ev(s.value, env, depth)), env, depth)
        elif isinstance(s, ast.Expr):
            self.ev(s.value, env, depth)
        elif isinstance(s, ast.Return):
            if s.value is not None:
                v = self.ev(s.value, env, depth)
                ret[0] = join(ret[0], v) if ret[0] != EMPTY else v
        elif isinstance(s, (ast.For, ast.AsyncFor)):
            it = self.ev(s.iter, env, depth)
            self._assign(s.target, self._elem(it, s.iter), env, depth)
            self._block(s.body, env, ret, depth)
            self._block(s.orelse, env, ret, depth)
        elif isinstance(s, ast.While):
            self.ev(s.test, env, depth)
            self._block(s.body, env, ret, depth)
            self._block(s.orelse, env, ret, depth)
        elif isinstance(s, ast.If):
            self.ev(s.test, env, depth)
            self._block(s.body, env, ret, depth)
            self._block(s.orelse, env, ret, depth)
        elif isinstance(s, (ast.With, ast.AsyncWith)):
            for it in s.items:
                v = self.ev(it.context_expr, env, depth)
                if it.optional_vars is not None:
                    self._assign(it.optional_vars, v, env, depth)
            self._block(s.body, env, ret, depth)
        elif isinstance(s, ast.Try):
            self._block(s.body, env, ret, depth)
            for h in s.handlers:
                self._block(h.body, env, ret, depth)
            self._block(s.orelse, env, ret, depth)
            self._block(s.finalbody, env, ret, depth)
        elif isinstance(s, (ast.FunctionDef, ast.AsyncFunctionDef)):
            env.setdefault('<def>' + s.name, s)

    def _elem(self, it, node):
        """element value when iterating"""
        if isinstance(node, ast.Call) and isinstance(node.func, ast.Name) and node.func.id == 'enumerate':
            return TupleVal((EMPTY, flat(it)))
        if isinstance(node, ast.Call) and isinstance(node.func, ast.Attribute) and node.func.attr == 'items':
            return TupleVal((flat(it), flat(it)))
        if isinstance(node, ast.Call) and isinstance(node.func, ast.Name) and node.func.id == 'zip':
            return TupleVal(tuple(flat(self._last_args[i]) for i in range(len(node.args)))) \
                if getattr(self, '_last_args', None) and len(self._last_args) == len(node.args) else flat(it)
        return flat(it)

    # ------------------------------------------------------------------
    def ev(self, e, env, depth=0):
        if e is None:
            return EMPTY
        if self.intrinsic is not None:
            r = self.intrinsic(e, lambda x: self.ev(x, env, depth))
            if r is not None:
                return r
        if isinstance(e, ast.Constant):
            return EMPTY
        if isinstance(e, ast.Name):
            return env.get(e.id, EMPTY)
        if isinstance(e, ast.Attribute):
            k = dotted(e)
            if k is not None and k in env:
                return env[k]
            return flat(self.ev(e.value, env, depth))
        if isinstance(e, ast.Tuple):
            return TupleVal(self.ev(x, env, depth) for x in e.elts)
        if isinstance(e, (ast.List, ast.Set)):
            out = EMPTY
            for x in e.elts:
                out = out | flat(self.ev(x, env, depth))
            return out
        if isinstance(e, ast.Dict):
            out = EMPTY
            for x in list(e.keys) + list(e.values):
                if x is not None:
                    out = out | flat(self.ev(x, env, depth))
            return out
        if isinstance(e, ast.Subscript):
            b = self.ev(e.value, env, depth)
            if isinstance(b, TupleVal) and isinstance(e.slice, ast.Constant) and isinstance(e.slice.value, int) \
                    and -len(b) <= e.slice.value < len(b):
                return b[e.slice.value]
            return flat(b)
        if isinstance(e, ast.Starred):
            return self.ev(e.value, env, depth)
        if isinstance(e, (ast.ListComp, ast.SetComp, ast.GeneratorExp, ast.DictComp)):
            sub = dict(env)
            for g in e.generators:
                it = self.ev(g.iter, sub, depth)
                self._assign(g.target, self._elem(it, g.iter), sub, depth)
            out = EMPTY
            for g in e.generators:
                for c in g.ifs:
                    out = out | flat(self.filter_tags(c, sub, depth))
            if isinstance(e, ast.DictComp):
                out = out | flat(self.ev(e.key, sub, depth)) | flat(self.ev(e.value, sub, depth))
            else:
                out = out | flat(self.ev(e.elt, sub, depth))
            return out
        if isinstance(e, ast.BinOp):
            return flat(self.ev(e.left, env, depth)) | flat(self.ev(e.right, env, depth))
        if isinstance(e, ast.BoolOp):
            out = EMPTY
            for x in e.values:
                out = out | flat(self.ev(x, env, depth))
            return out
        if isinstance(e, ast.UnaryOp):
            return self.ev(e.operand, env, depth)
        if isinstance(e, ast.Compare):
            out = flat(self.ev(e.left, env, depth))
            for x in e.comparators:
                out = out | flat(self.ev(x, env, depth))
            return out
        if isinstance(e, ast.IfExp):
            return join(self.ev(e.body, env, depth), self.ev(e.orelse, env, depth))
        if isinstance(e, ast.JoinedStr):
            out = EMPTY
            for x in e.values:
                if isinstance(x, ast.FormattedValue):
                    out = out | flat(self.ev(x.value, env, depth))
            return out
        if isinstance(e, ast.Call):
            return self._call(e, env, depth)
        if isinstance(e, ast.Lambda):
            return EMPTY
        return EMPTY

    def filter_tags(self, cond, env, depth):
        """tags contributed by a comprehension filter (intrinsic may tag startswith tests)."""
        return self.ev(cond, env, depth)

    def _writeback(self, call, fn, cenv, env, skip):
        """by-reference effects: a callee mutating a parameter mutates the caller's object"""
        names = [a.arg for a in fn.args.args][skip:]
        for a, n in zip(call.args, names):
            k = dotted(a)
            if k is not None and n in cenv and k in env:
                env[k] = join(env[k], flat(cenv[n]))

    def _call(self, e, env, depth):
        argv = [self.ev(a, env, depth) for a in e.args]
        kwv = dict((k.arg, self.ev(k.value, env, depth)) for k in e.keywords)
        self._last_args = argv
        recv = EMPTY
        if isinstance(e.func, ast.Attribute):
            recv = self.ev(e.func.value, env, depth)
            m = e.func.attr
            # in-place mutators: receiver accumulates the arguments
            if m in ('update', 'add', 'append', 'extend', 'insert', 'setdefault'):
                base = e.func.value
                while isinstance(base, ast.Subscript):
                    base = base.value
                k = dotted(base)
                allv = EMPTY
                for a in argv:
                    allv = allv | flat(a)
                if k is not None:
                    env[k] = join(env.get(k, EMPTY), allv)
                return flat(recv) | allv
        # local nested function?
        if isinstance(e.func, ast.Name) and ('<def>' + e.func.id) in env and depth < self.max_depth:
            fn = env['<def>' + e.func.id]
            r, cenv = self.run_function(fn, argv, depth + 1)
            self._writeback(e, fn, cenv, env, 0)
            return r
        if self.resolve is not None and depth < self.max_depth:
            got = self.resolve(e, self)
            if got is not None:
                fn, bind_self = got
                names = [a.arg for a in fn.args.args]
                if names and names[0] == 'self':
                    sv = recv if bind_self is None else bind_self
                    # keyword args
                    pos = list(argv)
                    for i, n in enumerate(names[1:]):
                        if i >= len(pos) and n in kwv:
                            pos.append(kwv[n])
                    r, cenv = self.run_function(fn, pos, depth + 1, selfval=sv if sv is not None else EMPTY)
                    self._writeback(e, fn, cenv, env, 1)
                else:
                    pos = list(argv)
                    for i, n in enumerate(names):
                        if i >= len(pos) and n in kwv:
                            pos.append(kwv[n])
                    r, cenv = self.run_function(fn, pos, depth + 1)
                    self._writeback(e, fn, cenv, env, 0)
                return r
        out = flat(recv)
        for a in argv:
            out = out | flat(a)
        for v in kwv.values():
            out = out | flat(v)
        return out
