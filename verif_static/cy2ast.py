"""Cython front end -> stdlib ``ast``.

The .pyx/.pxd sources are parsed with Cython's own parser (a library call,
nothing is compiled or imported from the repository) and the parse tree is
lowered to a stdlib ``ast`` tree so that every rule engine works on one
representation.  C-level constructs are kept, not dropped:

* ``cdef T x = e``           -> ``AnnAssign(x, annotation=Constant('T'), value=e)``
* ``<T>e``                   -> ``e`` with attribute ``cy_cast = 'T'``
* ``&e``                     -> ``Call(Name('__addr__'), [e])``
* ``sizeof(T)``              -> ``Call(Name('sizeof'), [Constant('T')])``
* ``new T(...)``             -> ``Call(Name('__new__T'), ...)`` (call of NewExprNode)
* ``with nogil:``            -> ``With(items=[Name('nogil')])``
* ``cdef``/``cpdef`` functions -> ``FunctionDef`` with ``cy_kind`` and
  ``cy_argtypes`` / ``cy_rettype`` attributes
* ``cdef class`` attributes   -> ``AnnAssign`` in the class body

Unknown node kinds raise ``FrontEndError`` (fail closed).
"""
import ast
import os
import sys

_ctx_cache = {}


class FrontEndError(Exception):
    pass


def _context(repo):
    if repo in _ctx_cache:
        return _ctx_cache[repo]
    from Cython.Compiler.Main import Context, CompilationOptions, default_options
    opts = CompilationOptions(default_options, include_path=[repo], cplus=True,
                              language_level=3)
    ctx = Context.from_options(opts)
    _ctx_cache[repo] = ctx
    return ctx


def cy_parse(repo, rel):
    """Raw Cython parse tree of repo/rel."""
    from Cython.Compiler.Scanning import FileSourceDescriptor
    from Cython.Compiler import Errors
    ctx = _context(repo)
    path = os.path.join(repo, rel)
    mod = os.path.splitext(rel)[0].replace('/', '.')
    sd = FileSourceDescriptor(path, rel)
    scope = ctx.find_submodule(mod)
    old = sys.stderr
    try:
        tree = ctx.parse(sd, scope, pxd=rel.endswith('.pxd'), full_module_name=mod)
    except Exception as e:  # CompileError etc
        raise FrontEndError('cython parse failed for %s: %r' % (rel, e))
    finally:
        sys.stderr = old
    return tree


_BINOPS = {'+': ast.Add, '-': ast.Sub, '*': ast.Mult, '/': ast.Div, '//': ast.FloorDiv,
           '%': ast.Mod, '**': ast.Pow, '&': ast.BitAnd, '|': ast.BitOr, '^': ast.BitXor,
           '<<': ast.LShift, '>>': ast.RShift, '@': ast.MatMult}
_CMPOPS = {'<': ast.Lt, '<=': ast.LtE, '>': ast.Gt, '>=': ast.GtE, '==': ast.Eq,
           '!=': ast.NotEq, 'is': ast.Is, 'is_not': ast.IsNot, 'is not': ast.IsNot,
           'in': ast.In, 'not_in': ast.NotIn, 'not in': ast.NotIn}


def type_str(bt, decl=None):
    """Readable type string of a base-type node + declarator."""
    n = type(bt).__name__
    if n == 'CSimpleBaseTypeNode':
        s = '.'.join(list(bt.module_path) + [bt.name]) if bt.name else ''
        if getattr(bt, 'signed', 1) == 0 and bt.is_basic_c_type:
            s = 'unsigned ' + s
        if getattr(bt, 'longness', 0) and bt.is_basic_c_type:
            s = ('long ' * bt.longness) + s if bt.longness > 0 else 'short ' + s
    elif n == 'TemplatedTypeNode':
        s = type_str(bt.base_type_node) + '[' + ','.join(
            _tstr_arg(a) for a in bt.positional_args) + ']'
    elif n == 'MemoryViewSliceTypeNode':
        s = type_str(bt.base_type_node) + '[:]'
    elif n == 'CComplexBaseTypeNode':
        s = type_str(bt.base_type, bt.declarator)
    elif n in ('CNestedBaseTypeNode',):
        s = type_str(bt.base_type) + '.' + bt.name
    elif n in ('CQualifierTypeNode', 'CConstTypeNode', 'CConstOrVolatileTypeNode'):
        s = 'const ' + type_str(bt.base_type)
    elif n == 'CTupleBaseTypeNode':
        s = '(' + ','.join(type_str(c) for c in bt.components) + ')'
    else:
        raise FrontEndError('unknown base type node %s' % n)
    d = decl
    suffix = ''
    while d is not None:
        dn = type(d).__name__
        if dn == 'CPtrDeclaratorNode':
            suffix += '*'
            d = d.base
        elif dn == 'CReferenceDeclaratorNode':
            suffix += '&'
            d = d.base
        elif dn == 'CArrayDeclaratorNode':
            suffix += '[]'
            d = d.base
        elif dn == 'CFuncDeclaratorNode':
            suffix += '()'
            d = d.base
        else:
            break
    return s + suffix


def _tstr_arg(a):
    n = type(a).__name__
    if n in ('CSimpleBaseTypeNode', 'TemplatedTypeNode', 'CComplexBaseTypeNode'):
        return type_str(a)
    if n == 'NameNode':
        return a.name
    if n == 'AttributeNode':
        return _tstr_arg(a.obj) + '.' + a.attribute
    if n == 'IndexNode':
        return _tstr_arg(a.base) + '[' + _tstr_arg(a.index) + ']'
    if n == 'TupleNode':
        return ','.join(_tstr_arg(x) for x in a.args)
    if n == 'CPtrDeclaratorNode':
        return '*'
    return n


def decl_name(d):
    while d is not None and type(d).__name__ != 'CNameDeclaratorNode':
        d = d.base
    return d


class Lower(object):
    def __init__(self, rel):
        self.rel = rel

    # -- helpers --------------------------------------------------------
    def loc(self, new, node):
        pos = getattr(node, 'pos', None)
        ln, col = (pos[1], pos[2]) if pos else (0, 0)
        new.lineno = ln
        new.col_offset = col
        new.end_lineno = ln
        new.end_col_offset = col
        return new

    def body(self, node):
        if node is None:
            return []
        n = type(node).__name__
        if n == 'StatListNode':
            out = []
            for s in node.stats:
                out.extend(self.body(s))
            return out
        r = self.stmt(node)
        if r is None:
            return []
        if isinstance(r, list):
            return r
        return [r]

    def nonempty(self, stmts, node):
        if not stmts:
            return [self.loc(ast.Pass(), node)]
        return stmts

    # -- statements -----------------------------------------------------
    def module(self, tree):
        m = ast.Module(body=self.body(tree.body), type_ignores=[])
        m.cy_rel = self.rel
        return m

    def stmt(self, node):
        n = type(node).__name__
        f = getattr(self, 's_' + n, None)
        if f is None:
            raise FrontEndError('%s:%s unknown statement node %s' % (
                self.rel, getattr(node, 'pos', (0, 0, 0))[1], n))
        return f(node)

    def s_StatListNode(self, node):
        return self.body(node)

    def s_PassStatNode(self, node):
        return self.loc(ast.Pass(), node)

    def s_BreakStatNode(self, node):
        return self.loc(ast.Break(), node)

    def s_ContinueStatNode(self, node):
        return self.loc(ast.Continue(), node)

    def s_ExprStatNode(self, node):
        return self.loc(ast.Expr(value=self.expr(node.expr)), node)

    def s_ReturnStatNode(self, node):
        return self.loc(ast.Return(value=self.expr(node.value) if node.value is not None else None), node)

    def s_SingleAssignmentNode(self, node):
        return self.loc(ast.Assign(targets=[self.store(self.expr(node.lhs))],
                                   value=self.expr(node.rhs), type_comment=None), node)

    def s_CascadedAssignmentNode(self, node):
        return self.loc(ast.Assign(targets=[self.store(self.expr(x)) for x in node.lhs_list],
                                   value=self.expr(node.rhs), type_comment=None), node)

    def s_ParallelAssignmentNode(self, node):
        return self.body(node.stats[0]) if False else sum((self.body(s) for s in node.stats), [])

    def s_InPlaceAssignmentNode(self, node):
        return self.loc(ast.AugAssign(target=self.store(self.expr(node.lhs)),
                                      op=_BINOPS[node.operator](),
                                      value=self.expr(node.rhs)), node)

    def s_DelStatNode(self, node):
        tg = []
        for a in node.args:
            e = self.expr(a)
            self.setctx(e, ast.Del())
            tg.append(e)
        return self.loc(ast.Delete(targets=tg), node)

    def s_RaiseStatNode(self, node):
        return self.loc(ast.Raise(exc=self.expr(node.exc_type) if node.exc_type is not None else None,
                                  cause=None), node)

    def s_AssertStatNode(self, node):
        cond = getattr(node, 'condition', None) or getattr(node, 'cond', None)
        return self.loc(ast.Assert(test=self.expr(cond), msg=None), node)

    def s_IfStatNode(self, node):
        clauses = node.if_clauses
        orelse = self.body(node.else_clause)
        for cl in reversed(clauses):
            cur = self.loc(ast.If(test=self.expr(cl.condition),
                                  body=self.nonempty(self.body(cl.body), cl), orelse=orelse), cl)
            orelse = [cur]
        return orelse[0]

    def s_WhileStatNode(self, node):
        return self.loc(ast.While(test=self.expr(node.condition),
                                  body=self.nonempty(self.body(node.body), node),
                                  orelse=self.body(node.else_clause)), node)

    def s_ForInStatNode(self, node):
        it = node.iterator
        seq = it.sequence if type(it).__name__ == 'IteratorNode' else it
        return self.loc(ast.For(target=self.store(self.expr(node.target)), iter=self.expr(seq),
                                body=self.nonempty(self.body(node.body), node),
                                orelse=self.body(node.else_clause), type_comment=None), node)

    def s_ForFromStatNode(self, node):
        # for i from a <= i < b
        call = ast.Call(func=ast.Name(id='range', ctx=ast.Load()),
                        args=[self.expr(node.bound1), self.expr(node.bound2)], keywords=[])
        return self.loc(ast.For(target=self.store(self.expr(node.target)), iter=self.loc(call, node),
                                body=self.nonempty(self.body(node.body), node),
                                orelse=self.body(node.else_clause), type_comment=None), node)

    def s_GILStatNode(self, node):
        nm = self.loc(ast.Name(id=node.state, ctx=ast.Load()), node)
        return self.loc(ast.With(items=[ast.withitem(context_expr=nm, optional_vars=None)],
                                 body=self.nonempty(self.body(node.body), node), type_comment=None), node)

    def s_WithStatNode(self, node):
        tgt = self.store(self.expr(node.target)) if node.target is not None else None
        return self.loc(ast.With(items=[ast.withitem(context_expr=self.expr(node.manager), optional_vars=tgt)],
                                 body=self.nonempty(self.body(node.body), node), type_comment=None), node)

    def s_TryExceptStatNode(self, node):
        hs = []
        for c in node.except_clauses:
            pat = c.pattern
            if isinstance(pat, list):
                if len(pat) == 1:
                    t = self.expr(pat[0])
                elif not pat:
                    t = None
                else:
                    t = ast.Tuple(elts=[self.expr(p) for p in pat], ctx=ast.Load())
            else:
                t = self.expr(pat) if pat is not None else None
            name = None
            if c.target is not None and type(c.target).__name__ == 'NameNode':
                name = c.target.name
            hs.append(self.loc(ast.ExceptHandler(type=t, name=name,
                                                 body=self.nonempty(self.body(c.body), c)), c))
        return self.loc(ast.Try(body=self.nonempty(self.body(node.body), node), handlers=hs,
                                orelse=self.body(node.else_clause), finalbody=[]), node)

    def s_TryFinallyStatNode(self, node):
        inner = self.body(node.body)
        if len(inner) == 1 and isinstance(inner[0], ast.Try) and not inner[0].finalbody:
            inner[0].finalbody = self.body(node.finally_clause)
            return inner[0]
        return self.loc(ast.Try(body=self.nonempty(inner, node), handlers=[], orelse=[],
                                finalbody=self.body(node.finally_clause)), node)

    def s_GlobalNode(self, node):
        return self.loc(ast.Global(names=list(node.names)), node)

    def s_PrintStatNode(self, node):
        return self.loc(ast.Expr(value=ast.Call(func=ast.Name(id='print', ctx=ast.Load()),
                                                args=[self.expr(node.arg_tuple)], keywords=[])), node)

    # imports
    def s_FromCImportStatNode(self, node):
        names = []
        for t in node.imported_names:
            # (pos, name, as_name) or with kind
            nm, asn = t[1], t[2]
            names.append(ast.alias(name=nm, asname=asn))
        r = self.loc(ast.ImportFrom(module=node.module_name, names=names,
                                    level=max(node.relative_level or 0, 0)), node)
        r.cy_cimport = True
        return r

    def s_CImportStatNode(self, node):
        r = self.loc(ast.Import(names=[ast.alias(name=node.module_name, asname=node.as_name)]), node)
        r.cy_cimport = True
        return r

    def s_FromImportStatNode(self, node):
        mod = node.module
        modname = mod.module_name.value if hasattr(mod.module_name, 'value') else str(mod.module_name)
        names = []
        for name, target in node.items:
            tn = target.name if type(target).__name__ == 'NameNode' else None
            names.append(ast.alias(name=name, asname=tn if tn != name else None))
        if getattr(node, 'import_star', False):
            names.append(ast.alias(name='*', asname=None))
        return self.loc(ast.ImportFrom(module=modname, names=names, level=max(getattr(mod, 'level', 0) or 0, 0)), node)

    def s_CDefExternNode(self, node):
        r = self.loc(ast.Pass(), node)
        r.cy_extern = self.body(node.body)
        return r

    def s_CTypeDefNode(self, node):
        nd = decl_name(node.declarator)
        r = self.loc(ast.AnnAssign(target=ast.Name(id=nd.name, ctx=ast.Store()),
                                   annotation=ast.Constant(value='typedef ' + type_str(node.base_type, node.declarator)),
                                   value=None, simple=1), node)
        return r

    def s_CEnumDefNode(self, node):
        out = []
        for it in node.items:
            v = self.expr(it.value) if it.value is not None else None
            out.append(self.loc(ast.AnnAssign(target=ast.Name(id=it.name, ctx=ast.Store()),
                                              annotation=ast.Constant(value='enum'), value=v, simple=1), it))
        return out

    def s_CStructOrUnionDefNode(self, node):
        body = []
        for a in (node.attributes or []):
            body.extend(self.body(a))
        r = self.loc(ast.ClassDef(name=node.name, bases=[], keywords=[], body=self.nonempty(body, node),
                                  decorator_list=[]), node)
        r.cy_kind = 'struct'
        return r

    def s_CppClassNode(self, node):
        body = []
        for a in (node.attributes or []):
            body.extend(self.body(a))
        r = self.loc(ast.ClassDef(name=node.name, bases=[], keywords=[], body=self.nonempty(body, node),
                                  decorator_list=[]), node)
        r.cy_kind = 'cppclass'
        return r

    def s_CVarDefNode(self, node):
        out = []
        for d in node.declarators:
            nd = decl_name(d)
            if nd is None:
                continue
            ts = type_str(node.base_type, d)
            if type(d).__name__ == 'CFuncDeclaratorNode' or (
                    hasattr(d, 'base') and type(getattr(d, 'base', None)).__name__ == 'CFuncDeclaratorNode'):
                # function declaration (pxd)
                fd = d if type(d).__name__ == 'CFuncDeclaratorNode' else d.base
                fn = self._funcdecl(node, node.base_type, d, fd, body=None)
                fn.cy_decl_only = True
                out.append(fn)
                continue
            val = self.expr(nd.default) if getattr(nd, 'default', None) is not None else None
            a = self.loc(ast.AnnAssign(target=self.loc(ast.Name(id=nd.name, ctx=ast.Store()), nd),
                                       annotation=ast.Constant(value=ts), value=val, simple=1), node)
            a.cy_cdef = True
            a.cy_visibility = getattr(node, 'visibility', None)
            out.append(a)
        return out

    def _args(self, cargs):
        args = []
        types = {}
        defaults = []
        for a in cargs:
            nd = decl_name(a.declarator)
            name = nd.name if nd is not None else ''
            ts = type_str(a.base_type, a.declarator)
            if not name:
                # "f(self, x)" : untyped args parse as base_type name with empty declarator
                name = ts
                ts = None
            arg = self.loc(ast.arg(arg=name, annotation=None, type_comment=None), a)
            args.append(arg)
            if ts:
                types[name] = ts
            if a.default is not None:
                defaults.append(self.expr(a.default))
        return args, types, defaults

    def _funcdecl(self, node, base_type, declarator, fd, body):
        nd = decl_name(fd.base)
        args, types, defaults = self._args(fd.args)
        fn = ast.FunctionDef(
            name=nd.name,
            args=ast.arguments(posonlyargs=[], args=args, vararg=None, kwonlyargs=[], kw_defaults=[],
                               kwarg=None, defaults=defaults),
            body=body if body is not None else [ast.Pass()], decorator_list=[], returns=None,
            type_comment=None)
        try:
            fn.type_params = []
        except Exception:
            pass
        fn.cy_kind = 'cpdef' if getattr(fd, 'overridable', False) else 'cdef'
        fn.cy_argtypes = types
        fn.cy_rettype = type_str(base_type, declarator)
        fn.cy_nogil = getattr(fd, 'nogil', False)
        # exception propagation of a cdef function: `noexcept` (errors are printed and swallowed) / an `except` clause / nothing written
        ev_ = getattr(fd, 'exception_value', None)
        ec_ = getattr(fd, 'exception_check', None)
        fn.cy_except = {'value': (ev_.value if hasattr(ev_, 'value') else (str(ev_) if ev_ is not None else None)), 'check': ec_}
        return self.loc(fn, node)

    def s_CFuncDefNode(self, node):
        d = node.declarator
        fd = d
        while type(fd).__name__ != 'CFuncDeclaratorNode':
            fd = fd.base
        body = self.nonempty(self.body(node.body), node)
        fn = self._funcdecl(node, node.base_type, d, fd, body)
        fn.decorator_list = [self.expr(x.decorator) for x in (node.decorators or [])]
        return fn

    def s_DefNode(self, node):
        args, types, defaults = self._args(node.args)
        fn = ast.FunctionDef(
            name=node.name,
            args=ast.arguments(posonlyargs=[], args=args,
                               vararg=ast.arg(arg=node.star_arg.name) if node.star_arg else None,
                               kwonlyargs=[], kw_defaults=[],
                               kwarg=ast.arg(arg=node.starstar_arg.name) if node.starstar_arg else None,
                               defaults=defaults),
            body=self.nonempty(self.body(node.body), node),
            decorator_list=[self.expr(x.decorator) for x in (node.decorators or [])],
            returns=None, type_comment=None)
        try:
            fn.type_params = []
        except Exception:
            pass
        fn.cy_kind = 'def'
        fn.cy_argtypes = types
        fn.cy_rettype = None
        return self.loc(fn, node)

    def s_CClassDefNode(self, node):
        bases = []
        b = getattr(node, 'bases', None)
        if b is not None:
            for x in b.args:
                bases.append(self.expr(x))
        elif getattr(node, 'base_class_name', None):
            bases.append(ast.Name(id=node.base_class_name, ctx=ast.Load()))
        c = ast.ClassDef(name=node.class_name, bases=bases, keywords=[],
                         body=self.nonempty(self.body(node.body), node), decorator_list=[])
        try:
            c.type_params = []
        except Exception:
            pass
        c.cy_kind = 'cdef class'
        return self.loc(c, node)

    def s_PyClassDefNode(self, node):
        bases = [self.expr(x) for x in (node.bases.args if node.bases is not None else [])]
        c = ast.ClassDef(name=node.name, bases=bases, keywords=[],
                         body=self.nonempty(self.body(node.body), node), decorator_list=[])
        try:
            c.type_params = []
        except Exception:
            pass
        c.cy_kind = 'class'
        return self.loc(c, node)

    # -- expressions ----------------------------------------------------
    def setctx(self, e, ctx):
        if isinstance(e, (ast.Name, ast.Attribute, ast.Subscript, ast.Starred)):
            e.ctx = ctx
        if isinstance(e, (ast.Tuple, ast.List)):
            e.ctx = ctx
            for x in e.elts:
                self.setctx(x, ctx)
        return e

    def store(self, e):
        return self.setctx(e, ast.Store())

    def expr(self, node):
        if node is None:
            return None
        n = type(node).__name__
        f = getattr(self, 'e_' + n, None)
        if f is None:
            if n.endswith('Node') and hasattr(node, 'operand1') and hasattr(node, 'operator') \
                    and node.operator in _BINOPS:
                return self.e_binop(node)
            raise FrontEndError('%s:%s unknown expression node %s' % (
                self.rel, getattr(node, 'pos', (0, 0, 0))[1], n))
        return self.loc(f(node), node)

    def e_NameNode(self, node):
        return ast.Name(id=node.name, ctx=ast.Load())

    def e_AttributeNode(self, node):
        return ast.Attribute(value=self.expr(node.obj), attr=node.attribute, ctx=ast.Load())

    def e_IndexNode(self, node):
        return ast.Subscript(value=self.expr(node.base), slice=self.expr(node.index), ctx=ast.Load())

    def e_SliceIndexNode(self, node):
        sl = ast.Slice(lower=self.expr(node.start), upper=self.expr(node.stop), step=None)
        return ast.Subscript(value=self.expr(node.base), slice=sl, ctx=ast.Load())

    def e_SliceNode(self, node):
        def nn(x):
            return None if x is None or type(x).__name__ == 'NoneNode' else self.expr(x)
        return ast.Slice(lower=nn(node.start), upper=nn(node.stop), step=nn(node.step))

    def e_SimpleCallNode(self, node):
        return ast.Call(func=self.expr(node.function), args=[self.expr(a) for a in node.args], keywords=[])

    def e_GeneralCallNode(self, node):
        pa = node.positional_args
        args = []
        if type(pa).__name__ == 'TupleNode':
            args = [self.expr(a) for a in pa.args]
        elif type(pa).__name__ == 'AsTupleNode':
            args = [ast.Starred(value=self.expr(pa.arg), ctx=ast.Load())]
        else:
            args = [ast.Starred(value=self.expr(pa), ctx=ast.Load())]
        kws = []
        ka = node.keyword_args
        if ka is not None:
            kws = self._kwargs(ka)
        return ast.Call(func=self.expr(node.function), args=args, keywords=kws)

    def _kwargs(self, ka):
        kws = []
        n = type(ka).__name__
        if n == 'DictNode':
            for it in ka.key_value_pairs:
                k = it.key
                kn = getattr(k, 'value', None)
                kws.append(ast.keyword(arg=str(kn), value=self.expr(it.value)))
        elif n == 'MergedDictNode':
            for sub in ka.keyword_args:
                kws.extend(self._kwargs(sub))
        else:
            kws.append(ast.keyword(arg=None, value=self.expr(ka)))
        return kws

    def e_IntNode(self, node):
        v = node.value
        try:
            val = int(v, 0)
        except Exception:
            try:
                val = int(v.rstrip('uUlL'), 0)
            except Exception:
                val = v
        return ast.Constant(value=val)

    def e_FloatNode(self, node):
        try:
            return ast.Constant(value=float(node.value))
        except Exception:
            return ast.Constant(value=node.value)

    def e_BoolNode(self, node):
        return ast.Constant(value=bool(node.value))

    def e_NoneNode(self, node):
        return ast.Constant(value=None)

    def e_EllipsisNode(self, node):
        return ast.Constant(value=Ellipsis)

    def e_NullNode(self, node):
        return ast.Name(id='NULL', ctx=ast.Load())

    def e_UnicodeNode(self, node):
        return ast.Constant(value=str(node.value))

    e_StringNode = e_UnicodeNode
    e_IdentifierStringNode = e_UnicodeNode

    def e_BytesNode(self, node):
        v = node.value
        return ast.Constant(value=bytes(v, 'latin1') if isinstance(v, str) else bytes(v))

    def e_CharNode(self, node):
        return ast.Constant(value=str(node.value))

    def e_JoinedStrNode(self, node):
        return ast.JoinedStr(values=[self.expr(v) for v in node.values])

    def e_FormattedValueNode(self, node):
        return ast.FormattedValue(value=self.expr(node.value), conversion=-1, format_spec=None)

    def e_binop(self, node):
        return self.loc(ast.BinOp(left=self.expr(node.operand1), op=_BINOPS[node.operator](),
                                  right=self.expr(node.operand2)), node)

    def e_BoolBinopNode(self, node):
        op = ast.And() if node.operator == 'and' else ast.Or()
        l = self.expr(node.operand1)
        r = self.expr(node.operand2)
        vals = []
        # flatten same-operator chains the way CPython's parser does
        if isinstance(l, ast.BoolOp) and type(l.op) is type(op) and not getattr(node.operand1, 'cy_paren', False):
            vals.extend(l.values)
        else:
            vals.append(l)
        vals.append(r)
        return ast.BoolOp(op=op, values=vals)

    def e_NotNode(self, node):
        return ast.UnaryOp(op=ast.Not(), operand=self.expr(node.operand))

    def e_UnaryMinusNode(self, node):
        return ast.UnaryOp(op=ast.USub(), operand=self.expr(node.operand))

    def e_UnaryPlusNode(self, node):
        return ast.UnaryOp(op=ast.UAdd(), operand=self.expr(node.operand))

    def e_TildeNode(self, node):
        return ast.UnaryOp(op=ast.Invert(), operand=self.expr(node.operand))

    def e_PrimaryCmpNode(self, node):
        ops = [_CMPOPS[node.operator]()]
        comps = [self.expr(node.operand2)]
        c = node.cascade
        while c is not None:
            ops.append(_CMPOPS[c.operator]())
            comps.append(self.expr(c.operand2))
            c = c.cascade
        return ast.Compare(left=self.expr(node.operand1), ops=ops, comparators=comps)

    def e_CondExprNode(self, node):
        return ast.IfExp(test=self.expr(node.condition), body=self.expr(node.true_val),
                         orelse=self.expr(node.false_val))

    def e_TupleNode(self, node):
        return ast.Tuple(elts=[self.expr(a) for a in node.args], ctx=ast.Load())

    def e_ListNode(self, node):
        return ast.List(elts=[self.expr(a) for a in node.args], ctx=ast.Load())

    def e_SetNode(self, node):
        return ast.Set(elts=[self.expr(a) for a in node.args])

    def e_DictNode(self, node):
        return ast.Dict(keys=[self.expr(i.key) for i in node.key_value_pairs],
                        values=[self.expr(i.value) for i in node.key_value_pairs])

    def e_MergedDictNode(self, node):
        keys, vals = [], []
        for sub in node.keyword_args:
            if type(sub).__name__ == 'DictNode':
                for i in sub.key_value_pairs:
                    keys.append(self.expr(i.key))
                    vals.append(self.expr(i.value))
            else:
                keys.append(None)
                vals.append(self.expr(sub))
        return ast.Dict(keys=keys, values=vals)

    def e_AsTupleNode(self, node):
        return ast.Call(func=ast.Name(id='tuple', ctx=ast.Load()), args=[self.expr(node.arg)], keywords=[])

    def e_StarredUnpackingNode(self, node):
        return ast.Starred(value=self.expr(node.target), ctx=ast.Load())

    def e_TypecastNode(self, node):
        e = self.expr(node.operand)
        e.cy_cast = type_str(node.base_type, node.declarator)
        return e

    def e_AmpersandNode(self, node):
        return ast.Call(func=ast.Name(id='__addr__', ctx=ast.Load()), args=[self.expr(node.operand)], keywords=[])

    def e_DereferenceNode(self, node):
        return ast.Call(func=ast.Name(id='__deref__', ctx=ast.Load()), args=[self.expr(node.operand)], keywords=[])

    def e_SizeofTypeNode(self, node):
        return ast.Call(func=ast.Name(id='sizeof', ctx=ast.Load()),
                        args=[ast.Constant(value=type_str(node.base_type, node.declarator))], keywords=[])

    def e_SizeofVarNode(self, node):
        return ast.Call(func=ast.Name(id='sizeof', ctx=ast.Load()), args=[self.expr(node.operand)], keywords=[])

    def e_NewExprNode(self, node):
        return ast.Name(id='__new__' + type_str(node.cppclass), ctx=ast.Load())

    def e_LambdaNode(self, node):
        args, types, defaults = self._args(node.args)
        return ast.Lambda(args=ast.arguments(posonlyargs=[], args=args, vararg=None, kwonlyargs=[],
                                             kw_defaults=[], kwarg=None, defaults=defaults),
                          body=self.expr(node.result_expr))

    def e_ImportNode(self, node):
        return ast.Call(func=ast.Name(id='__import__', ctx=ast.Load()),
                        args=[self.expr(node.module_name)], keywords=[])

    def _comp_parts(self, loop):
        """ComprehensionNode.loop is a ForInStatNode nest ending in ComprehensionAppendNode."""
        gens = []
        cur = loop
        while True:
            n = type(cur).__name__
            if n == 'ForInStatNode':
                it = cur.iterator
                seq = it.sequence if type(it).__name__ == 'IteratorNode' else it
                gens.append(ast.comprehension(target=self.store(self.expr(cur.target)),
                                              iter=self.expr(seq), ifs=[], is_async=0))
                cur = cur.body
            elif n == 'IfStatNode':
                cl = cur.if_clauses[0]
                gens[-1].ifs.append(self.expr(cl.condition))
                cur = cl.body
            elif n == 'StatListNode' and len(cur.stats) == 1:
                cur = cur.stats[0]
            elif n == 'ExprStatNode':
                cur = cur.expr
            elif n in ('ComprehensionAppendNode',):
                return gens, self.expr(cur.expr), None
            elif n == 'DictComprehensionAppendNode':
                if hasattr(cur, 'key_expr'):
                    return gens, self.expr(cur.key_expr), self.expr(cur.value_expr)
                item = cur.dict_item                  # newer Cython: one DictItemNode child
                return gens, self.expr(item.key), self.expr(item.value)
            else:
                raise FrontEndError('%s: comprehension shape %s' % (self.rel, n))

    def e_ComprehensionNode(self, node):
        gens, elt, val = self._comp_parts(node.loop)
        if val is not None:
            return ast.DictComp(key=elt, value=val, generators=gens)
        tn = getattr(getattr(node, 'type', None), 'name', 'list')
        if tn == 'set':
            return ast.SetComp(elt=elt, generators=gens)
        return ast.ListComp(elt=elt, generators=gens)

    def e_GeneratorExpressionNode(self, node):
        return ast.Call(func=ast.Name(id='__genexpr__', ctx=ast.Load()), args=[], keywords=[])

    def e_InlinedGeneratorExpressionNode(self, node):
        return ast.Call(func=ast.Name(id='__genexpr__', ctx=ast.Load()), args=[], keywords=[])


def _install_binops():
    for nm in ('AddNode', 'SubNode', 'MulNode', 'DivNode', 'ModNode', 'PowNode', 'IntBinopNode',
               'MatMultNode', 'NumBinopNode', 'BitwiseOrNode'):
        setattr(Lower, 'e_' + nm, lambda self, node: self.e_binop(node))


_install_binops()


def cy_to_ast(repo, rel):
    tree = cy_parse(repo, rel)
    low = Lower(rel)
    m = low.module(tree)
    for n in ast.walk(m):
        for ch in ast.iter_child_nodes(n):
            if not isinstance(ch, (ast.expr_context, ast.operator, ast.cmpop, ast.boolop, ast.unaryop)):
                ch.parent = n
    return m


def cy_string_to_ast(repo, code, name='<skeleton>'):
    """Parse Cython source held in a string (e.g. the skeleton of a template) and lower it."""
    from Cython.Compiler.Scanning import StringSourceDescriptor, PyrexScanner
    from Cython.Compiler import Parsing, Errors
    from io import StringIO
    ctx = _context(repo)
    sd = StringSourceDescriptor(name, code)
    scope = ctx.find_submodule('verif_skeleton_' + str(abs(hash(name)) % 100000))
    scope.cpp = True
    n0 = Errors.get_errors_count()
    try:
        s = PyrexScanner(StringIO(code), sd, source_encoding='utf-8', scope=scope, context=ctx)
        tree = Parsing.p_module(s, 0, 'verif_skeleton')
    except Exception as e:
        raise FrontEndError('cython parse of %s failed: %r' % (name, e))
    if Errors.get_errors_count() > n0:
        raise FrontEndError('cython parse of %s reported errors' % name)
    low = Lower(name)
    m = low.module(tree)
    for n in ast.walk(m):
        for ch in ast.iter_child_nodes(n):
            if not isinstance(ch, (ast.expr_context, ast.operator, ast.cmpop, ast.boolop, ast.unaryop)):
                ch.parent = n
    return m
