"""C08 - SPH kernels: compiled twin, dimensional typing, cut-off, r = 0, algebraic sibling agreement (DESIGN.md C08)."""
import ast
import copy
import os
import sys
from fractions import Fraction

sys.path.insert(0, os.path.dirname(os.path.dirname(os.path.abspath(__file__))))
from verif_static.core import run_check, AnalysisError, REPO  # noqa
from verif_static import model as M, cfg as C, makotree as MT  # noqa
from verif_static.poly import Poly, from_ast  # noqa

KER = 'pysph/base/kernels.py'
CK = 'pysph/base/c_kernels.pyx'
CKT = 'pysph/base/c_kernels.pyx.mako'
METHODS = ('get_deltap', 'kernel', 'dwdq', 'gradient', 'gradient_h')


def U(n):
    return M.unparse(n)


def compact(n):
    return U(n).replace(' ', '')


def kernel_classes(tree):
    return [c for c in M.classes(tree) if 'kernel' in M.methods(c) and 'gradient' in M.methods(c)]


# ---------------------------------------------------------------------------
# (a) compiled twin
# ---------------------------------------------------------------------------

def norm_body(body):
    out = []
    for s in body:
        if isinstance(s, ast.AnnAssign) and s.value is None:
            continue            # cdef declaration
        if isinstance(s, ast.Expr) and isinstance(s.value, ast.Constant) and isinstance(s.value.value, str):
            continue            # docstring (compyle emits it after the declarations)
        out.append(s)
    return out


def dump(stmts):
    def ser(n):
        if isinstance(n, ast.AST):
            if isinstance(n, ast.Constant):
                v = n.value
                if isinstance(v, (int, float)) and not isinstance(v, bool):
                    v = float(v)
                return 'C(%r)' % (v,)
            parts = []
            for f in n._fields:
                if f in ('ctx', 'type_comment', 'kind'):
                    continue
                parts.append(ser(getattr(n, f, None)))
            return '%s(%s)' % (type(n).__name__, ','.join(parts))
        if isinstance(n, list):
            return '[' + ','.join(ser(x) for x in n) + ']'
        return repr(n)
    return [ser(s) for s in stmts]


def rule_twin(chk):
    py = M.py(KER)
    cy = M.cy(CK)
    pyk = dict((c.name, c) for c in kernel_classes(py))
    cyk = dict((c.name, c) for c in M.classes(cy))
    chk.floor('python kernel classes', len(pyk), 10)
    nm = 0
    for name, pc in sorted(pyk.items()):
        cc = cyk.get(name)
        if cc is None:
            chk.violated('compiled-twin', name + ':class', node=pc, file=CK, func=name,
                         detail='kernel class %s has no compiled twin in c_kernels.pyx (get_compiled_kernel would fail)' % name)
            continue
        if name + 'Wrapper' not in cyk:
            chk.violated('compiled-twin', name + ':wrapper', node=cc, file=CK, func=name, detail='%sWrapper is missing' % name)
        pm, cm = M.methods(pc), M.methods(cc)
        for m in METHODS:
            if m not in pm:
                continue
            nm += 1
            if m not in cm:
                chk.violated('compiled-twin', '%s.%s' % (name, m), node=cc, file=CK, func='%s.%s' % (name, m), detail='method missing in the compiled class')
                continue
            a, b = dump(norm_body(M.docstring_stripped(pm[m].body))), dump(norm_body(cm[m].body))
            args_ok = M.arg_names(pm[m]) == M.arg_names(cm[m])
            if a == b and args_ok:
                chk.holds('compiled-twin', '%s.%s' % (name, m), node=cm[m], file=CK, func='%s.%s' % (name, m), detail='%d statements identical' % len(a))
            else:
                k = next((i for i, (x, y) in enumerate(zip(a, b)) if x != y), min(len(a), len(b)))
                ps = norm_body(M.docstring_stripped(pm[m].body))
                cs = norm_body(cm[m].body)
                chk.violated('compiled-twin', '%s.%s' % (name, m), node=cs[k] if k < len(cs) else cm[m], file=CK, func='%s.%s' % (name, m),
                             detail='the committed compiled kernel differs from kernels.py at statement %d: python `%s` vs compiled `%s`%s' % (
                                 k, U(ps[k])[:80] if k < len(ps) else '<end>', U(cs[k])[:80] if k < len(cs) else '<end>',
                                 '' if args_ok else '; parameters %s vs %s' % (M.arg_names(pm[m]), M.arg_names(cm[m]))))
        # attributes: everything __init__ stores must be a declared public attribute of the compiled class
        init = pm.get('__init__')
        stored = set(a.targets[0].attr for a in ast.walk(init) if isinstance(a, ast.Assign) and isinstance(a.targets[0], ast.Attribute)
                     and U(a.targets[0].value) == 'self') if init else set()
        stored |= set(a.target.attr for a in ast.walk(init) if isinstance(a, ast.AugAssign) and isinstance(a.target, ast.Attribute)) if init else set()
        declared = set(U(s.target) for s in cc.body if isinstance(s, ast.AnnAssign))
        chk.decide(stored <= declared, 'compiled-twin', name + ':attributes', node=cc, file=CK, func=name,
                   detail_bad='attributes %s set by the Python kernel are not declared in the compiled class (Cls(**kernel.__dict__) fails)' % sorted(stored - declared),
                   detail_ok=str(sorted(stored)))
        # wrapper
        wc = cyk.get(name + 'Wrapper')
        if wc is not None:
            for m in ('kernel', 'gradient'):
                f = M.methods(wc).get(m)
                if f is None:
                    chk.violated('compiled-twin', '%sWrapper.%s' % (name, m), node=wc, file=CK, func=name + 'Wrapper', detail='missing')
                    continue
                # value numbering of the straight-line body: what reaches the kernel call
                from verif_static import symb as S
                ok = False
                try:
                    ctx = S.Ctx(seconds=10)
                    body = [x for x in f.body if not isinstance(x, ast.Return) and not (isinstance(x, ast.Expr) and isinstance(x.value, ast.Call))]
                    ev = S.Evaluator(ctx, ast.FunctionDef(name=m, args=f.args, body=M.docstring_stripped(body), decorator_list=[]))
                    ev.run()
                    kc = [c for c in M.calls(f) if M.call_name(c) == 'self.kern.' + m]
                    if len(kc) == 1:
                        a = kc[0].args
                        vec = compact(a[0])
                        alias = ev.env.get(vec)           # xij = self.xij: a local name for the persistent buffer
                        base = vec
                        comps = [ev.env.get('%s[%d]' % (base, k)) for k in range(3)]
                        want = [ctx.var(p) - ctx.var(q) for p, q in (('xi', 'xj'), ('yi', 'yj'), ('zi', 'zj'))]
                        ok = all(c is not None and ctx.prove_zero(c - w)[0] for c, w in zip(comps, want))
                        r = ev.ev(a[1])
                        r2 = ctx.fn('sqrt', [ctx.mul(want[0], want[0]) + ctx.mul(want[1], want[1]) + ctx.mul(want[2], want[2])])
                        ok = ok and ctx.prove_zero(r - r2)[0] and compact(a[2]) == 'h'
                        rets = [x for x in f.body if isinstance(x, ast.Return)]
                        if m == 'kernel':
                            ok = ok and len(rets) == 1 and rets[0].value is kc[0]
                        else:
                            g = compact(a[3]) if len(a) > 3 else None
                            ok = ok and len(rets) == 1 and compact(rets[0].value).replace('(', '').replace(')', '') == '%s[0],%s[1],%s[2]' % (g, g, g) and kc[0].lineno < rets[0].lineno
                except (S.Unsupported, S.Budget):
                    ok = False
                ok = ok and not any(isinstance(x, (ast.If, ast.For, ast.While, ast.IfExp)) for x in ast.walk(f))
                chk.decide(ok, 'compiled-twin', '%sWrapper.%s' % (name, m), node=f, file=CK, func='%sWrapper.%s' % (name, m),
                           detail_bad='wrapper does not unconditionally pass xij = x_i - x_j, rij = |xij| and h to the kernel and return what it computed '
                                      '(a skipped call returns whatever the persistent buffer held)', detail_ok='straight-line: xij = xi - xj, rij = |xij|, kernel call')
    chk.floor('twin methods compared', nm, 50)
    # the class list of the generating template equals the classes defined
    tsrc = M.read(CKT)
    import re
    m = re.search(r'CLASSES\s*=\s*\(([^)]*)\)', tsrc)
    listed = set(x.strip() for x in m.group(1).replace('\n', ' ').split(',') if x.strip()) if m else set()
    chk.decide(listed == set(pyk), 'compiled-twin', 'template-class-list', file=CKT, func='CLASSES', line=0,
               detail_bad='generator template lists %s, kernels.py defines %s' % (sorted(listed), sorted(pyk)), detail_ok='%d classes' % len(listed))
    gk = M.find_func(py, 'get_compiled_kernel')
    src = compact(gk)
    ok = "getattr(c_kernels,kernel.__class__.__name__)" in src and "kernel.__class__.__name__+'Wrapper'" in src and 'cls(**kernel.__dict__)' in src
    chk.decide(ok, 'compiled-twin', 'get_compiled_kernel', node=gk, file=KER, func='get_compiled_kernel',
               detail_bad='compiled kernel is not <Name>(**kernel.__dict__) wrapped by <Name>Wrapper', detail_ok='Name(**__dict__) in NameWrapper')
    return pyk


# ---------------------------------------------------------------------------
# (b) dimensional typing: every quantity has type L^k
# ---------------------------------------------------------------------------

class DimError(Exception):
    def __init__(self, node, msg):
        self.node = node
        self.msg = msg


ANY = 'any'   # literal zero / numeric literal: polymorphic


def supported_dims(cls):
    """dimensions for which __init__ does not raise (tests on `dim` against literals are evaluated by a tiny interpreter)"""
    init = M.methods(cls).get('__init__')

    def val(e, k):
        if isinstance(e, ast.Name) and e.id == 'dim':
            return k
        if isinstance(e, ast.Attribute) and e.attr == 'dim':
            return k
        if isinstance(e, ast.Constant):
            return e.value
        if isinstance(e, (ast.Tuple, ast.List, ast.Set)):
            return [val(x, k) for x in e.elts]
        raise ValueError

    def test(t, k):
        if isinstance(t, ast.Compare) and len(t.ops) == 1:
            a, b = val(t.left, k), val(t.comparators[0], k)
            op = t.ops[0]
            return {ast.Eq: lambda: a == b, ast.NotEq: lambda: a != b, ast.Lt: lambda: a < b, ast.Gt: lambda: a > b, ast.LtE: lambda: a <= b,
                    ast.GtE: lambda: a >= b, ast.In: lambda: a in b, ast.NotIn: lambda: a not in b}[type(op)]()
        if isinstance(t, ast.BoolOp):
            vs = [test(x, k) for x in t.values]
            return all(vs) if isinstance(t.op, ast.And) else any(vs)
        if isinstance(t, ast.UnaryOp) and isinstance(t.op, ast.Not):
            return not test(t.operand, k)
        raise ValueError
    dims = []
    for k in (1, 2, 3):
        ok = True
        for i in ast.walk(init) if init else []:
            if isinstance(i, ast.If) and any(isinstance(b, ast.Raise) for b in i.body):
                try:
                    if test(i.test, k):
                        ok = False
                except (ValueError, KeyError):
                    pass
        if ok:
            dims.append(k)
    return dims


class DimEval(object):
    def __init__(self, cls, dim, ret):
        self.cls = cls
        self.dim = dim
        self.ret = ret          # method name -> expected result power

    def run(self, fn):
        env = {'h': Fraction(1), 'rij': Fraction(1), 'xij': Fraction(1), 'grad': None}
        self.returns = []
        self.grad_stores = []
        self.dim_alias = set(U(a.targets[0]) for a in ast.walk(fn) if isinstance(a, ast.Assign) and compact(a.value) == 'self.dim')
        self.block(fn.body, env)
        return env

    def block(self, stmts, env):
        for s in stmts:
            self.stmt(s, env)

    def const_test(self, t):
        """value of `self.dim == k` style tests for the assumed dimension"""
        if isinstance(t, ast.Compare) and len(t.ops) == 1 and (compact(t.left) == 'self.dim' or compact(t.left) in self.dim_alias) \
                and isinstance(t.comparators[0], ast.Constant):
            k = t.comparators[0].value
            op = t.ops[0]
            return {ast.Eq: self.dim == k, ast.NotEq: self.dim != k, ast.Gt: self.dim > k, ast.Lt: self.dim < k,
                    ast.GtE: self.dim >= k, ast.LtE: self.dim <= k}.get(type(op))
        return None

    def stmt(self, s, env):
        if isinstance(s, ast.Expr) and isinstance(s.value, ast.Constant):
            return
        if isinstance(s, ast.Assign):
            v = self.ev(s.value, env)
            t = s.targets[0]
            if isinstance(t, ast.Name):
                env[t.id] = v
            elif isinstance(t, ast.Subscript) and isinstance(t.value, ast.Name) and t.value.id == 'grad':
                self.grad_stores.append((s, v))
            elif isinstance(t, ast.Tuple):
                for x in t.elts:
                    if isinstance(x, ast.Name):
                        env[x.id] = v
            return
        if isinstance(s, ast.AugAssign) and isinstance(s.target, ast.Name):
            a, b = env.get(s.target.id, ANY), self.ev(s.value, env)
            if isinstance(s.op, (ast.Add, ast.Sub)):
                env[s.target.id] = self.same(s, a, b, 'augmented assignment')
            elif isinstance(s.op, ast.Mult):
                env[s.target.id] = self.mul(a, b, 1)
            elif isinstance(s.op, ast.Div):
                env[s.target.id] = self.mul(a, b, -1)
            return
        if isinstance(s, ast.If):
            ct = self.const_test(s.test)
            if ct is True:
                return self.block(s.body, env)
            if ct is False:
                return self.block(s.orelse, env)
            self.ev(s.test, env)
            e1, e2 = dict(env), dict(env)
            self.block(s.body, e1)
            self.block(s.orelse, e2)
            for k in set(e1) | set(e2):
                a, b = e1.get(k, ANY), e2.get(k, ANY)
                if a is None or b is None:
                    env[k] = a if b is None else b
                    continue
                if a != ANY and b != ANY and a != b:
                    raise DimError(s, 'variable %s has dimension L^%s on one branch and L^%s on the other' % (k, a, b))
                env[k] = a if a != ANY else b
            return
        if isinstance(s, ast.Return):
            if s.value is not None:
                self.returns.append((s, self.ev(s.value, env)))
            return
        if isinstance(s, (ast.Pass,)):
            return
        if isinstance(s, ast.AnnAssign):
            if s.value is not None and isinstance(s.target, ast.Name):
                env[s.target.id] = self.ev(s.value, env)
            return
        if isinstance(s, ast.For):
            return self.block(s.body, env)
        raise DimError(s, 'statement kind %s not typed' % type(s).__name__)

    def mul(self, a, b, sign):
        if a == ANY and b == ANY:
            return ANY
        a = Fraction(0) if a == ANY else a
        b = Fraction(0) if b == ANY else b
        return a + sign * b

    def same(self, node, a, b, what):
        if a == ANY:
            return b
        if b == ANY:
            return a
        if a != b:
            raise DimError(node, '%s of quantities with dimensions L^%s and L^%s' % (what, a, b))
        return a

    def ev(self, e, env):
        if isinstance(e, ast.Constant):
            return ANY
        if isinstance(e, ast.Name):
            if e.id in env and env[e.id] is not None:
                return env[e.id]
            if e.id in ('M_1_PI', 'M_2_SQRTPI', 'pi'):
                return Fraction(0)
            raise DimError(e, 'unknown name %s' % e.id)
        if isinstance(e, ast.Attribute) and isinstance(e.value, ast.Name) and e.value.id == 'self':
            return Fraction(0)     # fac, dim, radius_scale: pure numbers
        if isinstance(e, ast.Subscript) and isinstance(e.value, ast.Name):
            return env.get(e.value.id, Fraction(0))
        if isinstance(e, ast.UnaryOp):
            return self.ev(e.operand, env)
        if isinstance(e, ast.BinOp):
            a, b = self.ev(e.left, env), self.ev(e.right, env)
            if isinstance(e.op, (ast.Add, ast.Sub)):
                # numeric literals are only dimensionless
                if a == ANY and b != ANY and not (isinstance(e.left, ast.Constant) and e.left.value == 0):
                    a = Fraction(0)
                if b == ANY and a != ANY and not (isinstance(e.right, ast.Constant) and e.right.value == 0):
                    b = Fraction(0)
                return self.same(e, a, b, 'sum')
            if isinstance(e.op, ast.Mult):
                return self.mul(a, b, 1)
            if isinstance(e.op, ast.Div):
                return self.mul(a, b, -1)
            if isinstance(e.op, ast.Pow):
                if isinstance(e.right, ast.Constant):
                    return ANY if a == ANY else a * Fraction(e.right.value)
                raise DimError(e, 'non-constant exponent')
            raise DimError(e, 'operator')
        if isinstance(e, ast.Compare):
            a = self.ev(e.left, env)
            for c in e.comparators:
                b = self.ev(c, env)
                if not isinstance(c, ast.Constant) and not isinstance(e.left, ast.Constant):
                    self.same(e, a, b, 'comparison')
            return Fraction(0)
        if isinstance(e, ast.BoolOp):
            for v in e.values:
                self.ev(v, env)
            return Fraction(0)
        if isinstance(e, ast.Call):
            nm = M.call_name(e) or ''
            if nm in ('exp', 'sin', 'cos', 'log', 'tanh'):
                a = self.ev(e.args[0], env)
                if a not in (ANY, Fraction(0)):
                    raise DimError(e, 'argument of %s() has dimension L^%s (must be a pure number, e.g. q = r/h)' % (nm, a))
                return Fraction(0)
            if nm == 'sqrt':
                a = self.ev(e.args[0], env)
                return ANY if a == ANY else a / 2
            if nm in ('abs', 'fabs', 'float'):
                return self.ev(e.args[0], env)
            if nm in ('pow',):
                a = self.ev(e.args[0], env)
                if isinstance(e.args[1], ast.Constant):
                    return ANY if a == ANY else a * Fraction(e.args[1].value)
                raise DimError(e, 'non-constant exponent')
            if nm in ('max', 'min'):
                a = self.ev(e.args[0], env)
                for x in e.args[1:]:
                    a = self.same(e, a, self.ev(x, env), nm)
                return a
            if nm.startswith('self.') and nm[5:] in self.ret:
                for x in e.args:
                    self.ev(x, env)
                r = self.ret[nm[5:]]
                return r
            raise DimError(e, 'call of %s not typed' % nm)
        if isinstance(e, ast.IfExp):
            return self.same(e, self.ev(e.body, env), self.ev(e.orelse, env), 'conditional')
        raise DimError(e, 'expression kind %s not typed' % type(e).__name__)


def rule_dimensions(chk, pyk):
    n = 0
    for name, cls in sorted(pyk.items()):
        for dim in supported_dims(cls):
            ret = {'kernel': Fraction(-dim), 'dwdq': Fraction(-dim), 'gradient_h': Fraction(-dim - 1), 'get_deltap': Fraction(0)}
            for m in ('kernel', 'dwdq', 'gradient', 'gradient_h'):
                fn = M.methods(cls).get(m)
                if fn is None:
                    continue
                n += 1
                inst = '%s.%s[dim=%d]' % (name, m, dim)
                de = DimEval(cls, dim, ret)
                try:
                    de.run(ast.FunctionDef(name=fn.name, args=fn.args, body=M.docstring_stripped(fn.body), decorator_list=[]))
                except DimError as e:
                    chk.violated('dimensional-typing', inst, node=e.node if hasattr(e.node, 'lineno') else fn, file=KER, func='%s.%s' % (name, m),
                                 detail='for dim=%d: %s' % (dim, e.msg))
                    continue
                if m == 'gradient':
                    want = Fraction(-dim - 1)
                    bad = [(s, v) for s, v in de.grad_stores if v != want and v != ANY]
                    chk.decide(len(de.grad_stores) == 3 and not bad, 'dimensional-typing', inst, node=bad[0][0] if bad else fn, file=KER,
                               func='%s.%s' % (name, m),
                               detail_bad='gradient components have dimension %s, expected L^%s (grad W ~ h^-(dim+1))' % (
                                   ['L^%s' % v for s, v in de.grad_stores], want), detail_ok='3 components of dimension L^%s' % want)
                else:
                    want = ret[m]
                    bad = [(s, v) for s, v in de.returns if v != want and v != ANY]
                    chk.decide(bool(de.returns) and not bad, 'dimensional-typing', inst, node=bad[0][0] if bad else fn, file=KER, func='%s.%s' % (name, m),
                               detail_bad='returns a quantity of dimension L^%s, expected L^%s: a wrong power of h in the dim=%d branch' % (
                                   bad[0][1] if bad else '?', want, dim), detail_ok='L^%s' % want)
    chk.floor('dimension-typed method instances', n, 80)


# ---------------------------------------------------------------------------
# (c) cut-off and (d) r = 0
# ---------------------------------------------------------------------------

def radius_scale_of(cls):
    init = M.methods(cls).get('__init__')
    for a in ast.walk(init):
        if isinstance(a, ast.Assign) and compact(a.targets[0]) == 'self.radius_scale' and isinstance(a.value, ast.Constant):
            return float(a.value.value)
    return None


def rule_cutoff(chk, pyk):
    for name, cls in sorted(pyk.items()):
        rs = radius_scale_of(cls)
        if rs is None:
            chk.undecided('cutoff-agreement', name, node=cls, file=KER, func=name, detail='radius_scale is not a literal')
            continue
        for m in ('kernel', 'dwdq', 'gradient_h'):
            fn = M.methods(cls).get(m)
            consts = []
            for c in ast.walk(fn):
                if isinstance(c, ast.Compare) and len(c.ops) == 1 and compact(c.left) == 'q' and isinstance(c.comparators[0], ast.Constant):
                    consts.append((float(c.comparators[0].value), c))
            if not consts:
                chk.violated('cutoff-agreement', '%s.%s' % (name, m), node=fn, file=KER, func='%s.%s' % (name, m),
                             detail='no comparison of q with the support radius: the kernel is not compactly supported')
                continue
            top = max(consts, key=lambda x: x[0])
            chk.decide(top[0] == rs, 'cutoff-agreement', '%s.%s' % (name, m), node=top[1], file=KER, func='%s.%s' % (name, m),
                       detail_bad='outermost cut-off on q is %g but radius_scale is %g: neighbours are searched up to radius_scale*h' % (top[0], rs),
                       detail_ok='q cut-off %g == radius_scale' % rs)
            # beyond the cut-off the value is zero
            cmpn = top[1]
            iff = M.enclosing(cmpn, (ast.If,))
            zero_ok = False
            if iff is not None and isinstance(cmpn.ops[0], (ast.Gt, ast.GtE)):
                # `if q > R: val = 0.0`
                zero_ok = all(isinstance(b, ast.Assign) and isinstance(b.value, ast.Constant) and float(b.value.value) == 0.0 for b in iff.body)
            elif iff is not None and isinstance(cmpn.ops[0], (ast.Lt, ast.LtE)):
                # `val = 0.0; if q < R: val = ...`
                tg = set(U(b.targets[0]) for b in iff.body if isinstance(b, ast.Assign)) | \
                    set(U(b.targets[0]) for x in iff.body if isinstance(x, ast.If) for b in x.body if isinstance(b, ast.Assign))
                later = set(x.id for st in fn.body if st.lineno > iff.lineno for x in ast.walk(st) if isinstance(x, ast.Name))
                tg &= later
                pre = [a for a in fn.body if isinstance(a, ast.Assign) and a.lineno < iff.lineno and U(a.targets[0]) in tg
                       and isinstance(a.value, ast.Constant) and float(a.value.value) == 0.0]
                zero_ok = len(set(U(a.targets[0]) for a in pre)) == len(tg) and not iff.orelse
            chk.decide(zero_ok, 'cutoff-agreement', '%s.%s:zero-outside' % (name, m), node=iff or fn, file=KER, func='%s.%s' % (name, m),
                       detail_bad='the value beyond the cut-off is not identically zero', detail_ok='0 beyond the cut-off')
            # kernels whose formula does not vanish at the edge by itself (exponential family) must exclude q == radius_scale from the non-zero branch:
            # the property asks for W = 0 (and zero gradient) for r >= radius_scale*h
            body_src = ' '.join(U(x) for x in fn.body)
            if 'exp(' in body_src:
                op = cmpn.ops[0]
                zero_at_edge = isinstance(op, (ast.GtE, ast.Lt))      # `if q >= R: 0`  or  `if q < R: value` (zero otherwise)
                chk.decide(zero_at_edge, 'cutoff-agreement', '%s.%s:zero-at-the-edge' % (name, m), node=cmpn, file=KER, func='%s.%s' % (name, m),
                           detail_bad='`%s` leaves q == %g in the non-zero branch: this kernel does not vanish there by itself (exp(-%g^2) != 0), so W / dW are non-zero exactly at r = radius_scale*h'
                                      % (U(cmpn), rs, rs), detail_ok='q == %g is in the zero branch' % rs)


def rule_gradient_form(chk, pyk):
    """gradient = (dW/dr) * unit separation vector, decided algebraically: with I = [rij > eps] the three stored components satisfy
    grad[k] * h * rij == I * dwdq(rij, h) * xij[k]  (value numbering with reciprocal atoms; any equivalent spelling is accepted)"""
    from verif_static import symb as S
    for name, cls in sorted(pyk.items()):
        g = M.methods(cls).get('gradient')
        ctx = S.Ctx(seconds=20)
        try:
            ev = S.Evaluator(ctx, ast.FunctionDef(name='gradient', args=g.args, body=M.docstring_stripped(g.body), decorator_list=[]))
            ev.run()
            guards = [x for x in ast.walk(g) if isinstance(x, ast.If)]
            gd = ev.cond(guards[0].test) if len(guards) == 1 else None
            want_fn = ctx.fn('self.dwdq', [ctx.var('rij'), ctx.var('h')])
            bad = []
            for k in range(3):
                got = ev.env.get('grad[%d]' % k)
                if got is None:
                    bad.append('grad[%d] never stored' % k)
                    continue
                lhs = ctx.mul(ctx.mul(got, ctx.var('h')), ctx.var('rij'))
                rhs = ctx.mul(ctx.mul(gd if gd is not None else S.Poly.const(1), want_fn), ctx.var('xij[%d]' % k))
                if not ctx.simplify(lhs - rhs).is_zero():
                    bad.append('grad[%d] = %s' % (k, compact_poly(got)))
            ok = not bad and gd is not None and guards[0].test and isinstance(guards[0].test, ast.Compare) and \
                compact(guards[0].test.left) == 'rij' and isinstance(guards[0].test.ops[0], ast.Gt)
            chk.decide(ok, 'gradient-is-radial', name, node=g, file=KER, func=name + '.gradient',
                       detail_bad='grad W = (dW/dr) x_ij/r requires grad[k]*h*rij == [rij > eps]*dwdq(rij, h)*xij[k] for k = 0, 1, 2; not so for: %s' % '; '.join(bad),
                       detail_ok='grad[k]*h*rij == [rij>eps]*dwdq(rij,h)*xij[k], k = 0, 1, 2')
        except (S.Unsupported, S.Budget) as e:
            chk.undecided('gradient-is-radial', name, node=g, file=KER, func=name + '.gradient', detail='prover gave up: %s' % e)


def compact_poly(p):
    s = str(p)
    return s if len(s) < 160 else s[:157] + '...'


def rule_r0(chk, pyk):
    for name, cls in sorted(pyk.items()):
        for m in ('gradient', 'dwdq', 'gradient_h', 'kernel'):
            fn = M.methods(cls).get(m)
            divs = [d for d in ast.walk(fn) if isinstance(d, ast.BinOp) and isinstance(d.op, ast.Div) and 'rij' in
                    set(x.id for x in ast.walk(d.right) if isinstance(x, ast.Name))]
            for d in divs:
                gi = M.enclosing(d, (ast.If,))
                ok = False
                while gi is not None:
                    t = compact(gi.test)
                    if t.startswith('rij>') and any(d is x for b in gi.body for x in ast.walk(b)):
                        # other branch yields 0
                        tg = [U(b.targets[0]) for b in gi.body if isinstance(b, ast.Assign)]
                        ok = all(isinstance(b, ast.Assign) and isinstance(b.value, ast.Constant) and float(b.value.value) == 0.0 for b in gi.orelse) and bool(gi.orelse)
                        break
                    gi = M.enclosing(gi, (ast.If,))
                chk.decide(ok, 'guarded-division-by-r', '%s.%s' % (name, m), node=d, file=KER, func='%s.%s' % (name, m),
                           detail_bad='division by rij is not guarded by `rij > eps` with a zero alternative: the gradient at r = 0 is nan/inf instead of 0',
                           detail_ok='guarded, 0 at r = 0')


# ---------------------------------------------------------------------------
# (f) algebraic agreement between sibling methods (piecewise forms in q)
# ---------------------------------------------------------------------------

KEEP = ('q', 'h1', 'h', 'rij')      # stay symbolic: q = r/h, h1 = 1/h


def pieces(fn):
    """[(conditions, env)] for the leaves of the if-tree on q / rij with straight-line substitution of temporaries.
    `fac` (the dimension-dependent normalisation) is kept as the symbol FAC; `self.dim` (or an alias) as DIM."""
    out = []

    def subst(e, env):
        class R(ast.NodeTransformer):
            def visit_Name(self, n):
                if n.id in env:
                    return copy.deepcopy(env[n.id])
                return n
        return R().visit(copy.deepcopy(e))

    def strip(e):
        for x in ast.walk(e):
            if hasattr(x, 'parent'):
                try:
                    del x.parent
                except AttributeError:
                    pass
        return e

    def walk(stmts, env, conds):
        for i, s in enumerate(stmts):
            if isinstance(s, ast.Assign) and isinstance(s.targets[0], ast.Name):
                nm = s.targets[0].id
                if nm in KEEP:
                    continue
                env = dict(env)
                env[nm] = subst(strip(copy.copy(s.value)) if False else s.value, env)
            elif isinstance(s, ast.AugAssign) and isinstance(s.target, ast.Name) and s.target.id in env:
                env = dict(env)
                env[s.target.id] = ast.BinOp(left=env[s.target.id], op=s.op, right=subst(s.value, env))
            elif isinstance(s, ast.If):
                t = compact(subst(s.test, env))
                if t.startswith('self.dim=='):
                    env = dict(env)
                    env['fac'] = ast.Name(id='FAC', ctx=ast.Load())
                    continue
                rest = stmts[i + 1:]
                walk(list(s.body) + rest, env, conds + ((t, True),))
                walk(list(s.orelse) + rest, env, conds + ((t, False),))
                return
            elif isinstance(s, ast.Return):
                env = dict(env)
                env['<return>'] = subst(s.value, env) if s.value is not None else None
                out.append((conds, env))
                return
            elif isinstance(s, ast.Expr):
                continue
            else:
                raise ValueError('statement %s' % type(s).__name__)
        out.append((conds, env))
    body = []
    for st in M.docstring_stripped(fn.body):
        body.append(st)
    walk(body, {}, ())
    return out


def to_poly(e):
    """expression -> Poly over q, h1, FAC, DIM and atoms EXP{<normal form of the exponent>}"""
    def conv(x):
        if isinstance(x, ast.Call) and M.call_name(x) == 'exp' and len(x.args) == 1:
            inner = conv(x.args[0])
            return None if inner is None else Poly.var('EXP{%s}' % inner)
        if isinstance(x, ast.Call) and M.call_name(x) == 'pow' and isinstance(x.args[1], ast.Constant) and float(x.args[1].value).is_integer():
            b = conv(x.args[0])
            return b ** int(x.args[1].value) if b is not None else None
        if isinstance(x, ast.Attribute) and compact(x) == 'self.dim':
            return Poly.var('DIM')
        if isinstance(x, ast.Attribute) and compact(x) == 'self.fac':
            return Poly.var('SELF_FAC')
        if isinstance(x, ast.BinOp) and isinstance(x.op, ast.Div):
            a, b = conv(x.left), conv(x.right)
            if a is None or b is None:
                return None
            if b.is_const() and b.const_value() != 0:
                return a * Poly.const(1 / b.const_value())
            return None
        if isinstance(x, ast.BinOp):
            a, b = conv(x.left), conv(x.right)
            if a is None or b is None:
                return None
            if isinstance(x.op, ast.Add):
                return a + b
            if isinstance(x.op, ast.Sub):
                return a - b
            if isinstance(x.op, ast.Mult):
                return a * b
            if isinstance(x.op, ast.Pow) and b.is_const() and b.const_value().denominator == 1 and b.const_value() >= 0:
                return a ** int(b.const_value())
            return None
        if isinstance(x, ast.UnaryOp) and isinstance(x.op, ast.USub):
            a = conv(x.operand)
            return None if a is None else -a
        if isinstance(x, ast.Constant) and isinstance(x.value, (int, float)) and not isinstance(x.value, bool):
            return Poly.const(Fraction(x.value).limit_denominator(10 ** 15))
        if isinstance(x, ast.Name):
            return Poly.var(x.id)
        return None
    return conv(e)


def exp_derivs(polys):
    """{EXP atom: d(exponent)/dq} for every exponential atom occurring in the given polynomials"""
    ed = {}
    for p in polys:
        for a in p.atoms():
            if a.startswith('EXP{') and a not in ed:
                inner = to_poly(ast.parse(a[4:-1].replace('^', '**'), mode='eval').body)
                if inner is None:
                    return None
                g1 = ddq(inner, {})
                if g1 is None:
                    return None
                ed[a] = g1
    return ed


def ddq(p, ed):
    """d/dq of a polynomial in q whose EXP atoms have the given exponent derivatives"""
    out = Poly()
    for mono, c in p.t.items():
        d = dict(mono)
        for a, e in mono:
            if a == 'q':
                nd = dict(d)
                nd['q'] = e - 1
                out = out + Poly({tuple(sorted((k, v) for k, v in nd.items() if v)): c * e})
            elif a.startswith('EXP{'):
                if a not in ed:
                    return None
                nd = dict(d)
                nd[a] = e - 1
                base = Poly({tuple(sorted((k, v) for k, v in nd.items() if v)): c * e})
                out = out + base * Poly.var(a) * ed[a]
    return out


def qkey(conds):
    return tuple((t, v) for t, v in conds if t.startswith('q'))


def rule_algebra(chk, pyk):
    """On every piece of the partition of q: dwdq == d(kernel)/dq and gradient_h == -h1*(DIM*kernel + q*dwdq) (= dW/dh);
    polynomial kernels are continuous at their knots and vanish at the support edge."""
    n = 0
    # a parent-free parse: the piece extraction deep-copies sub-expressions
    fresh = ast.parse(M.read(KER))
    pyk = dict((c.name, c) for c in kernel_classes(fresh))
    for name, cls in sorted(pyk.items()):
        ms = M.methods(cls)
        try:
            tab = {}
            for m in ('kernel', 'dwdq', 'gradient_h'):
                d = {}
                for conds, env in pieces(ms[m]):
                    if any((t.startswith('rij') and not v) for t, v in conds):
                        continue            # the r == 0 alternative
                    d[qkey(conds)] = env.get('<return>')
                tab[m] = d
        except (ValueError, KeyError) as e:
            chk.undecided('sibling-algebra', name + ':pieces', node=cls, file=KER, func=name, detail='piece extraction failed: %s' % e)
            continue
        kq, dq, gq = tab['kernel'], tab['dwdq'], tab['gradient_h']
        if not (set(kq) == set(dq) == set(gq)):
            chk.violated('sibling-algebra', name + ':same-partition', node=ms['dwdq'], file=KER, func=name,
                         detail='kernel, dwdq and gradient_h split q differently: %s / %s / %s' % (sorted(kq), sorted(dq), sorted(gq)))
            continue
        for qc in sorted(kq):
            lab = ','.join('%s%s' % ('' if v else 'not ', t) for t, v in qc) or 'all q'
            pk, pd, pg = [to_poly(x) if x is not None else None for x in (kq[qc], dq[qc], gq[qc])]
            if None in (pk, pd, pg):
                chk.undecided('sibling-algebra', '%s@%s' % (name, lab), node=ms['kernel'], file=KER, func=name, detail='piece not polynomial/exponential in q')
                continue
            ed = exp_derivs([pk, pd, pg])
            want = ddq(pk, ed) if ed is not None else None
            if want is None:
                chk.undecided('sibling-algebra', '%s@%s' % (name, lab), node=ms['kernel'], file=KER, func=name, detail='cannot differentiate piece')
                continue
            n += 2
            diff = want - pd
            chk.decide(diff.is_zero(), 'sibling-algebra', '%s:dwdq=dW/dq@%s' % (name, lab), node=ms['dwdq'], file=KER, func=name + '.dwdq',
                       detail_bad='on this piece dwdq = %s but d(kernel)/dq = %s' % (pd, want), detail_ok='dwdq == d(kernel)/dq')
            wanth = -(Poly.var('h1') * (Poly.var('DIM') * pk + Poly.var('q') * pd))
            diffh = wanth - pg
            chk.decide(diffh.is_zero(), 'sibling-algebra', '%s:gradient_h=dW/dh@%s' % (name, lab), node=ms['gradient_h'], file=KER,
                       func=name + '.gradient_h',
                       detail_bad='on this piece gradient_h = %s but dW/dh = -(1/h)*(dim*W + q*dW/dq) = %s (difference %s)' % (pg, wanth, diffh),
                       detail_ok='gradient_h == dW/dh')
        # knots: continuity and zero at the support edge (polynomial pieces)
        rs = radius_scale_of(cls)
        knots = set()
        for qc in kq:
            for t, v in qc:
                try:
                    knots.add(float(t[2:].lstrip('=')))
                except ValueError:
                    pass

        def piece_at(x):
            for qc, e in kq.items():
                good = True
                for t, v in qc:
                    c = float(t[2:].lstrip('='))
                    holds = x > c if t[1] == '>' else x < c
                    if holds != v:
                        good = False
                if good:
                    return e
            return None
        for kx in sorted(knots):
            l, r = piece_at(kx - 1e-9), piece_at(kx + 1e-9)
            if l is None or r is None:
                continue
            pl, pr = to_poly(l), to_poly(r)
            if pl is None or pr is None:
                continue
            if any(a.startswith('EXP{') for a in pl.atoms() | pr.atoms()):
                chk.note('%s: the value at q=%g is the truncation of an exponential tail; continuity there is not claimed by the property' % (name, kx))
                continue
            n += 1
            qv = {'q': Poly.const(Fraction(kx).limit_denominator(1000))}
            vl, vr = pl.subs(qv), pr.subs(qv)
            what = 'vanishes-at-support-edge' if kx == rs else 'continuous-at-q=%g' % kx
            chk.decide((vl - vr).is_zero(), 'sibling-algebra', '%s:%s' % (name, what), node=ms['kernel'], file=KER, func=name + '.kernel',
                       detail_bad='kernel pieces disagree at q=%g: %s from below, %s from above' % (kx, vl, vr), detail_ok='%s on both sides' % vl)
    chk.floor('algebraic sibling obligations', n, 40)


SQ = 'SQRTPI'


def pi_pow(k):
    """pi ** (k/2) as a Laurent monomial in sqrt(pi)"""
    return Poly.const(1) if k == 0 else Poly({((SQ, k),): Fraction(1)})


def gamma_half(m):
    """Gamma(m/2) for a positive integer m, as a Laurent polynomial in sqrt(pi)"""
    if m == 1:
        return pi_pow(1)
    if m == 2:
        return Poly.const(1)
    return gamma_half(m - 2) * Poly.const(Fraction(m - 2, 2))


def fac_of(cls, dim):
    """self.fac as set by __init__ for this dim: a Laurent polynomial in sqrt(pi) (None when not of that form)"""
    init = M.methods(cls).get('__init__')
    consts = {'M_1_PI': pi_pow(-2), 'M_2_SQRTPI': pi_pow(-1) * Poly.const(2), 'pi': pi_pow(2)}
    val = [None]

    def ev(e):
        if isinstance(e, ast.Constant) and isinstance(e.value, (int, float)):
            return Poly.const(Fraction(e.value).limit_denominator(10 ** 12))
        if isinstance(e, ast.Name) and e.id in consts:
            return consts[e.id]
        if isinstance(e, ast.Attribute) and compact(e) == 'self.fac' and val[0] is not None:
            return val[0]
        if isinstance(e, ast.BinOp) and isinstance(e.op, (ast.Mult, ast.Div, ast.Add, ast.Sub)):
            a, b = ev(e.left), ev(e.right)
            if isinstance(e.op, ast.Mult):
                return a * b
            if isinstance(e.op, ast.Add):
                return a + b
            if isinstance(e.op, ast.Sub):
                return a - b
            if b.is_const() and not b.is_zero():
                return a * Poly.const(1 / b.const_value())
        raise ValueError(compact(e))

    def truth(t):
        if isinstance(t, ast.Compare) and len(t.ops) == 1 and compact(t.left) in ('dim', 'self.dim') and isinstance(t.comparators[0], ast.Constant):
            c = t.comparators[0].value
            return {ast.Eq: dim == c, ast.NotEq: dim != c, ast.Gt: dim > c, ast.GtE: dim >= c, ast.Lt: dim < c, ast.LtE: dim <= c}[type(t.ops[0])]
        raise ValueError(compact(t))

    def run(stmts):
        for s_ in stmts:
            if isinstance(s_, ast.If):
                run(s_.body if truth(s_.test) else s_.orelse)
            elif isinstance(s_, ast.Assign) and compact(s_.targets[0]) == 'self.fac':
                val[0] = ev(s_.value)
            elif isinstance(s_, ast.AugAssign) and compact(s_.target) == 'self.fac' and isinstance(s_.op, ast.Mult):
                val[0] = val[0] * ev(s_.value)
    run(init.body)
    return val[0]


def interval_of(qc, rs):
    lo, hi = 0.0, None
    for t, v in qc:
        c = float(t[2:].lstrip('='))
        gt = t[1] == '>'
        if gt == v:
            lo = max(lo, c)
        else:
            hi = c if hi is None else min(hi, c)
    return lo, hi


def rule_normalisation(chk, pyk):
    """integral of W over space = 1 for every class and supported dimension: exact integration of the polynomial pieces (times q^(d-1), surface of the unit sphere),
    Gaussian moments in closed form for the exponential family (over all space: the tail beyond the cut-off is the truncation the property allows)"""
    fresh = ast.parse(M.read(KER))
    classes = dict((c.name, c) for c in kernel_classes(fresh))
    n = 0
    for name, cls in sorted(classes.items()):
        ms = M.methods(cls)
        rs = radius_scale_of(cls)
        try:
            kq = {}
            for conds, env in pieces(ms['kernel']):
                kq[qkey(conds)] = env.get('<return>')
        except (ValueError, KeyError) as e:
            chk.undecided('integrates-to-one', name, node=cls, file=KER, func=name, detail='piece extraction failed: %s' % e)
            continue
        for dim in supported_dims(M.find_class(M.py(KER), name)):
            inst = '%s[dim=%d]' % (name, dim)
            try:
                fac = fac_of(cls, dim)
            except ValueError as e:
                fac = None
            if fac is None:
                chk.undecided('integrates-to-one', inst, node=cls, file=KER, func=name + '.__init__', detail='normalising factor is not a closed form in pi')
                continue
            total = Poly()
            okform = True
            for qc, e in kq.items():
                pk = to_poly(e) if e is not None else None
                if pk is None:
                    okform = False
                    break
                if pk.is_zero():
                    continue
                g = pk.subs({'FAC': Poly.const(1)})
                exps = [a for a in g.atoms() if a.startswith('EXP{')]
                lo, hi = interval_of(qc, rs)
                if not exps:
                    if hi is None or set(g.atoms()) - set(['q']):
                        okform = False
                        break
                    # sum_k c_k q^(k+d-1) integrated exactly between the rational knots
                    a_, b_ = Fraction(lo).limit_denominator(1000), Fraction(hi).limit_denominator(1000)
                    for mono, c in g.t.items():
                        k = dict(mono).get('q', 0) + dim
                        total = total + Poly.const(c * (b_ ** k - a_ ** k) / k)
                else:
                    if exps != ['EXP{-q^2}'] and exps != ['EXP{-1*q^2}']:
                        inner = to_poly(ast.parse(exps[0][4:-1].replace('^', '**'), mode='eval').body)
                        if len(exps) != 1 or inner is None or not (inner + Poly.var('q') * Poly.var('q')).is_zero():
                            okform = False
                            break
                    rest = g.subs({exps[0]: Poly.const(1)})
                    if set(rest.atoms()) - set(['q', 'DIM']):
                        okform = False
                        break
                    rest = rest.subs({'DIM': Poly.const(dim)})
                    # int_0^inf q^m exp(-q^2) dq = Gamma((m+1)/2)/2
                    for mono, c in rest.t.items():
                        m_ = dict(mono).get('q', 0) + dim - 1
                        total = total + gamma_half(m_ + 1) * Poly.const(Fraction(c) / 2)
            if not okform:
                chk.undecided('integrates-to-one', inst, node=ms['kernel'], file=KER, func=name + '.kernel', detail='kernel piece is neither polynomial in q nor (polynomial) * exp(-q^2)')
                continue
            surface = gamma_half(dim)           # S_d = 2 pi^(d/2) / Gamma(d/2)
            lhs = fac * total * pi_pow(dim) * Poly.const(2)
            n += 1
            ok = (lhs - surface).is_zero()
            chk.decide(ok, 'integrates-to-one', inst, node=ms['kernel'], file=KER, func=name,
                       detail_bad='fac * S_%d * int W(q) q^%d dq = %s / Gamma(%d/2)=%s, not 1: the kernel does not integrate to one in %dD (normalising constant or a piece coefficient is off)'
                                  % (dim, dim - 1, lhs, dim, surface, dim), detail_ok='exact: fac_%d * S_%d * integral = 1' % (dim, dim))
    chk.floor('kernel x dimension normalisations', n, 18)


# -- exact sign of a univariate polynomial on an interval (Sturm sequences over the rationals) --------------------------------
def upoly(p):
    """coefficient list [c0, c1, ...] of a Poly in q only (None otherwise)"""
    out = {}
    for mono, c in p.t.items():
        d = dict(mono)
        if set(d) - set(['q']):
            return None
        out[d.get('q', 0)] = Fraction(c)
    n = max(out) if out else 0
    return [out.get(k, Fraction(0)) for k in range(n + 1)]


def utrim(a):
    a = list(a)
    while a and a[-1] == 0:
        a.pop()
    return a


def urem(a, b):
    a, b = utrim(a), utrim(b)
    while len(a) >= len(b) and a:
        f = a[-1] / b[-1]
        sh = len(a) - len(b)
        for i, c in enumerate(b):
            a[i + sh] -= f * c
        a = utrim(a)
    return a


def ueval(a, x):
    r = Fraction(0)
    for c in reversed(a):
        r = r * x + c
    return r


def roots_in(a, lo, hi):
    """number of distinct real roots of a in the open interval (lo, hi); endpoints that are roots are divided out first"""
    a = utrim(a)
    if not a:
        return None
    for x in (lo, hi):
        while len(a) > 1 and ueval(a, x) == 0:
            # divide by (q - x)
            b = [Fraction(0)] * (len(a) - 1)
            carry = Fraction(0)
            for i in range(len(a) - 1, 0, -1):
                carry = a[i] + carry * x
                b[i - 1] = carry
            a = utrim(b)
    d = [a[i] * i for i in range(1, len(a))]
    seq = [a, utrim(d)]
    while seq[-1]:
        r = urem(seq[-2], seq[-1])
        seq.append([-c for c in r])
    seq = [s_ for s_ in seq if s_]

    def changes(x):
        vals = [ueval(s_, x) for s_ in seq]
        vals = [v for v in vals if v != 0]
        return sum(1 for u, w in zip(vals, vals[1:]) if (u > 0) != (w > 0))
    return changes(lo) - changes(hi)


def rule_monotone(chk, pyk):
    """W is non-increasing in q on every piece (exact: dW/dq has no sign change inside the piece and is <= 0 at its midpoint); with W = 0 at the support edge
    this also gives W >= 0.  The super-Gaussian is excluded by the property."""
    fresh = ast.parse(M.read(KER))
    classes = dict((c.name, c) for c in kernel_classes(fresh))
    n = 0
    for name, cls in sorted(classes.items()):
        if name == 'SuperGaussian':
            chk.note('SuperGaussian: negative tail by construction, monotonicity / sign not required by the property')
            continue
        ms = M.methods(cls)
        rs = radius_scale_of(cls)
        try:
            dq = dict((qkey(c), e.get('<return>')) for c, e in pieces(ms['dwdq']) if not any(t.startswith('rij') and not v for t, v in c))
        except (ValueError, KeyError) as e:
            chk.undecided('non-increasing', name, node=cls, file=KER, func=name, detail='piece extraction failed: %s' % e)
            continue
        for qc, e in sorted(dq.items()):
            pd = to_poly(e) if e is not None else None
            lo, hi = interval_of(qc, rs)
            lab = ','.join('%s%s' % ('' if v else 'not ', t) for t, v in qc) or 'all q'
            inst = '%s@%s' % (name, lab)
            if pd is None:
                chk.undecided('non-increasing', inst, node=ms['dwdq'], file=KER, func=name + '.dwdq', detail='piece not polynomial')
                continue
            if pd.is_zero():
                continue
            g = pd.subs({'FAC': Poly.const(1), 'h1': Poly.const(1)})
            exps = [a for a in g.atoms() if a.startswith('EXP{')]
            if exps:
                g = g.subs(dict((a, Poly.const(1)) for a in exps))      # exp(.) > 0 does not change the sign
            u = upoly(g)
            if u is None or hi is None:
                chk.undecided('non-increasing', inst, node=ms['dwdq'], file=KER, func=name + '.dwdq', detail='derivative piece is not a polynomial in q on a bounded interval')
                continue
            a_, b_ = Fraction(lo).limit_denominator(1000), Fraction(hi).limit_denominator(1000)
            k = roots_in(u, a_, b_)
            mid = ueval(u, (a_ + b_) / 2)
            n += 1
            chk.decide(k == 0 and mid <= 0, 'non-increasing', inst, node=ms['dwdq'], file=KER, func=name + '.dwdq',
                       detail_bad='on %g < q < %g dW/dq (up to the positive factor fac/h) is %s: %s sign change(s) inside, value %s at the midpoint - the kernel is not non-increasing there'
                                  % (lo, hi, g, k, mid), detail_ok='no root of dW/dq in (%g, %g), negative at the midpoint (Sturm sequence, exact)' % (lo, hi))
    chk.floor('pieces with exact monotonicity', n, 12)


def main(chk):
    chk.explanation = ('(a) translation validation of the committed compiled kernels against kernels.py (statement-level AST equality of every '
                       'method, attribute coverage, wrappers, template class list); (b) dimensional type inference (powers of length) of '
                       'kernel/dwdq/gradient/gradient_h for every class and supported dim; (c) outermost q cut-off equals radius_scale and the '
                       'value beyond is zero; (d) divisions by r guarded with a zero alternative; (f) algebraic agreement of sibling methods on '
                       'each piece of the q-partition: dwdq == d(kernel)/dq (polynomial/exponential normal form), continuity at knots and zero '
                       'at the support edge for polynomial kernels, gradient_h = -fac*h1*(dw*q + w*dim) with the same pieces.')
    pyk = rule_twin(chk)
    rule_dimensions(chk, pyk)
    rule_cutoff(chk, pyk)
    rule_r0(chk, pyk)
    rule_gradient_form(chk, pyk)
    rule_algebra(chk, pyk)
    rule_normalisation(chk, pyk)
    rule_monotone(chk, pyk)
    chk.extra['programs'] = len(pyk) * len(METHODS)
    chk.extra['disagreements_checked'] = len([o for o in chk.obs if o.rule == 'compiled-twin'])
    chk.assume('W >= 0 follows from non-increasing + zero at the support edge (both decided) for the polynomial kernels; for the Gaussian family the integral is taken over all space (the tail beyond the cut-off is neglected, as the property allows)')
    chk.assume('compyle generated c_kernels.pyx; only its agreement with kernels.py is checked, not compyle itself')


if __name__ == '__main__':
    run_check('C08', main, level='translation_validation')
