"""Triage helper (not used by any check): build selected pysph extension modules
from a source tree into a scratch directory, so that a fix to a .pyx can be
demonstrated without touching /repo.

  /venv/bin/python build_ext.py <src-root> <out-dir> pysph.base.particle_array [more modules]

Then run a demo with TRIAGE_EXT=<out-dir>/lib (see _overlay.py)."""
import os, shutil, sys
src, out = sys.argv[1], sys.argv[2]
mods = sys.argv[3:]
work = os.path.join(out, 'src')
shutil.rmtree(work, ignore_errors=True)
os.makedirs(work)
for d in ('pysph/base', 'pysph/parallel', 'pysph/tools'):
    os.makedirs(os.path.join(work, d), exist_ok=True)
    for f in os.listdir(os.path.join(src, d)):
        if f.endswith(('.pyx', '.pxd', '.h', '.hpp')) or f == '__init__.py':
            shutil.copy(os.path.join(src, d, f), os.path.join(work, d, f))
shutil.copy(os.path.join(src, 'pysph/__init__.py'), os.path.join(work, 'pysph/__init__.py'))
os.chdir(work)
import numpy, cyarray
from setuptools import Extension, setup
from Cython.Build import cythonize
exts = [Extension(m, [m.replace('.', '/') + '.pyx'],
                  include_dirs=[numpy.get_include(), os.path.dirname(cyarray.__file__), 'pysph/base'],
                  language='c++', extra_compile_args=['-O1', '-w']) for m in mods]
setup(ext_modules=cythonize(exts, include_path=[work, os.path.dirname(os.path.dirname(cyarray.__file__))],
                            compiler_directives={'language_level': 3}, quiet=True),
      script_args=['-q', 'build_ext', '--build-lib', os.path.join(out, 'lib'), '--build-temp', os.path.join(out, 'tmp'), '-j', '8'])
