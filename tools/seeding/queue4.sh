#!/bin/bash
for id in "$@"; do /tmp/agent_tools/eval4.sh $id > /tmp/se4_$id.txt 2>&1; done
