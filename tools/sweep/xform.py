"""behaviour-preserving whole-file transforms of the anchored .py files of a property; usage: xform.py <ID> <kind> <dest root>"""
import ast, json, os, sys, shutil
pid, kind, dest = sys.argv[1:4]
props = dict((json.loads(l)['id'], json.loads(l)) for l in open('/verif/properties.jsonl'))
files = [f for f in props[pid]['anchors']['files'] if f.endswith('.py')]

class Flip(ast.NodeTransformer):
    def visit_Compare(self, n):
        self.generic_visit(n)
        if len(n.ops) == 1 and isinstance(n.ops[0], (ast.Lt, ast.Gt, ast.LtE, ast.GtE)):
            m = {ast.Lt: ast.Gt, ast.Gt: ast.Lt, ast.LtE: ast.GtE, ast.GtE: ast.LtE}[type(n.ops[0])]
            return ast.Compare(left=n.comparators[0], ops=[m()], comparators=[n.left])
        return n

class RenameLocals(ast.NodeTransformer):
    """rename the plain local variables of every function (not parameters, not names declared global/nonlocal, not names also used in nested functions)"""
    def visit_FunctionDef(self, f):
        self.generic_visit(f)
        params = set(a.arg for a in f.args.args + f.args.kwonlyargs) | set(x.arg for x in (f.args.vararg, f.args.kwarg) if x)
        nested = set()
        for x in ast.walk(f):
            if isinstance(x, (ast.FunctionDef, ast.Lambda, ast.ListComp, ast.SetComp, ast.DictComp, ast.GeneratorExp, ast.ClassDef)) and x is not f:
                nested |= set(y.id for y in ast.walk(x) if isinstance(y, ast.Name))
                if isinstance(x, (ast.FunctionDef, ast.ClassDef)):
                    nested.add(x.name)
        glob = set()
        for x in ast.walk(f):
            if isinstance(x, (ast.Global, ast.Nonlocal)):
                glob |= set(x.names)
        stored = set(y.id for y in ast.walk(f) if isinstance(y, ast.Name) and isinstance(y.ctx, ast.Store))
        imported = set((a.asname or a.name).split('.')[0] for x in ast.walk(f) if isinstance(x, (ast.Import, ast.ImportFrom)) for a in x.names)
        exc = set(h.name for h in ast.walk(f) if isinstance(h, ast.ExceptHandler) and h.name)
        ren = dict((n, n + '_v') for n in stored - params - nested - glob - imported - exc if not n.startswith('__'))
        # compyle's declare() etc. do not care about names; keyword names are not ast.Name so they stay
        for y in ast.walk(f):
            if isinstance(y, ast.Name) and y.id in ren:
                y.id = ren[y.id]
        return f

for f in files:
    src = open(os.path.join(dest, f)).read()
    t = ast.parse(src)
    if kind == 'flip':
        t = Flip().visit(t)
    elif kind == 'rename':
        t = RenameLocals().visit(t)
    ast.fix_missing_locations(t)
    head = ''
    if src.startswith('#!') or src.startswith('# -*-'):
        head = src.split('\n', 1)[0] + '\n'
    open(os.path.join(dest, f), 'w').write(head + ast.unparse(t) + '\n')
print(len(files), 'files')
