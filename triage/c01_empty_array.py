"""Triage only (not a check): every CPU NNPS class with an empty particle array in the list (before and after a non-empty one).
Run: cd /verif/triage && for c in ZOrderNNPS StratifiedSFCNNPS ...; do timeout 60 /venv/bin/python c01_empty_array.py $c; echo rc=$?; done
(a class that cannot cope ends in a segmentation fault: rc=139)"""
import _overlay
import sys
import numpy as np
from pysph.base.utils import get_particle_array
from pysph.base import nnps as N
from cyarray.api import UIntArray
rng = np.random.default_rng(1)
name = sys.argv[1]
m = 200
for order in ('non-empty first', 'empty first'):
    a = get_particle_array(name='a', x=rng.random(m), y=rng.random(m), z=rng.random(m), h=0.05 * (1 + rng.random(m)))
    e = get_particle_array(name='e', x=np.array([]), y=np.array([]), z=np.array([]), h=np.array([]))
    pas = [a, e] if order == 'non-empty first' else [e, a]
    ia, ie = pas.index(a), pas.index(e)
    nn = getattr(N, name)(dim=3, particles=pas, radius_scale=2.0)
    tot = 0
    for i in range(m):
        nb = UIntArray(); nn.get_nearest_particles(ie, ia, i, nb); tot += nb.length
    print(name, order, ': neighbours taken from the empty array:', tot)
    if tot:
        sys.exit(1)
