"""Regenerates MANIFEST.json from the table below (keeps it valid at all times)."""
import json, os
HERE = os.path.dirname(os.path.dirname(os.path.abspath(__file__)))
props = [json.loads(l) for l in open(os.path.join(HERE, 'properties.jsonl'))]
from manifest_table import CHECKS, NOT_APPLICABLE  # noqa
checks = []
for pid, c in sorted(CHECKS.items()):
    checks.append({
        "property_id": pid,
        "quick_cmd": "./check %s --tier quick" % pid,
        "thorough_cmd": "./check %s --tier thorough" % pid,
        "evidence_file": "/verif/evidence/%s.json" % pid,
        "replay_cmd_template": "./check %s --replay {path}" % pid,
        "engine": c.get("engine", "verif_static"),
        "level_claimed": {"category": c.get("category", "other"), "text": c["text"], "design_ref": "DESIGN.md section 3, " + pid},
        "level_note": c["note"],
        "technique": c["technique"],
    })
na = []
for p in props:
    if p['id'] not in CHECKS:
        na.append({"property_id": p['id'], "reason": NOT_APPLICABLE.get(p['id'], "check not built yet (build in progress; see DESIGN.md section 6)")})
m = {"version": 1,
     "setup_cmd": "/venv/bin/python -m compileall -q /verif/verif_static /verif/checks >/dev/null 2>&1; /venv/bin/python -c 'import Cython, mako'",
     "hooks": {"guard": "PYPR_PYSPH_VERIF", "enable": "none needed: static checks read /repo sources only; no hook commits exist",
               "baseline_off_cmd": "cd /repo && /venv/bin/python -m pytest -ra -q -p no:cacheprovider --timeout=900 --continue-on-collection-errors",
               "source_commits": [], "add_only": True},
     "engines": [{"name": "verif_static", "path": "/verif/verif_static", "serves_properties": sorted(CHECKS),
                  "kind_free_text": "repository-specific static analysis: Python ast + Cython parser + Mako lexer front ends, statement CFG with dominators, tag dataflow, table agreement, lock analysis, value numbering"}],
     "checks": checks,
     "notes": "Static analysis only (DESIGN.md). Each check decides the structural clauses named in its level text, not the runtime behaviour; exit 2 + ANALYSIS-ERROR means the check cannot decide (never a VIOLATION).",
     "not_applicable": na}
json.dump(m, open(os.path.join(HERE, 'MANIFEST.json'), 'w'), indent=1)
print('checks:', len(checks), 'not_applicable:', len(na))
