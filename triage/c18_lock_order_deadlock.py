import _overlay
import threading, time
from pysph.solver.controller import CommandManager
class S:
    count=0; particles=[]
cm2=CommandManager(S())
orig=cm2.plock
solver_ident=[None]
class SlowForSolver:
    def __init__(s,c): s.c=c
    def __enter__(s):
        if threading.get_ident()==solver_ident[0]: time.sleep(0.3)   # only widens the window, adds no new lock
        return s.c.__enter__()
    def __exit__(s,*a): return s.c.__exit__(*a)
    def __getattr__(s,n): return getattr(s.c,n)
cm2.plock=SlowForSolver(orig)
done=[]
def iface2():
    cm2.pause_on_next(); time.sleep(0.2); cm2.cont(); done.append('iface')
def solver2():
    solver_ident[0]=threading.get_ident(); time.sleep(0.1)
    cm2.execute_commands(S()); done.append('solver')
a=threading.Thread(target=iface2, daemon=True); b=threading.Thread(target=solver2, daemon=True)
a.start(); b.start(); a.join(4); b.join(1)
print('ABBA: finished =', done, '; iface blocked', a.is_alive(), '; solver blocked', b.is_alive())
