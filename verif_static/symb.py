"""E3 - value numbering with algebraic normal forms and signed renamings.

A function body is abstractly evaluated (if-conversion, small constant loops unrolled) into polynomials over hash-consed
atoms.  Atoms are structured, so a renaming of the inputs can be pushed through them:

  ('var', name)                 an input (array element, precomputed symbol, attribute)
  ('inv', P)                    1 / P          with P sign-normalised:  inv(-P) = -inv(P)
  ('fn', f, (P1, ...))          uninterpreted / special function: abs is even, sqrt(x)^2 = x, max/min arguments sorted,
                                min(a, b) = -max(-a, -b)
  ('ind', P)                    indicator [P > 0], P sign-normalised: [-P > 0] = 1 - [P > 0] (ties ignored); ind^2 = ind

No path is enumerated and no solver is called; a budget on the number of monomials turns blow-ups into ``Budget``
(reported as UNDECIDED by the callers, never as a violation).
"""
import ast
from fractions import Fraction

from .poly import Poly


class Budget(Exception):
    pass


class Unsupported(Exception):
    pass


MAX_TERMS = 60000


class Ctx(object):
    def __init__(self, max_terms=MAX_TERMS, seconds=None):
        self.atoms = {}      # key string -> structure
        self.max_terms = max_terms
        import time
        self.deadline = (time.time() + seconds) if seconds else None

    # -- atoms ---------------------------------------------------------------
    def name_of(self, struct):
        k = self.key(struct)
        self.atoms.setdefault(k, struct)
        return k

    def key(self, s):
        if s[0] == 'var':
            return s[1]
        if s[0] == 'inv':
            return 'INV{%s}' % s[1]
        if s[0] == 'fn':
            return '%s{%s}' % (s[1].upper(), ';'.join(str(a) for a in s[2]))
        if s[0] == 'ind':
            return 'IND{%s}' % s[1]
        raise ValueError(s)

    def var(self, name):
        return Poly.var(self.name_of(('var', name)))

    def check(self, p):
        if len(p.t) > self.max_terms:
            raise Budget('polynomial with %d terms' % len(p.t))
        if self.deadline is not None:
            import time
            if time.time() > self.deadline:
                raise Budget('time budget exhausted')
        return p

    # -- normalisation -------------------------------------------------------
    def orient(self, p):
        """(sign, p+) with p = sign * p+ and p+ canonically oriented"""
        if p.is_zero():
            return 1, p
        lead = sorted(p.t.items(), key=lambda kv: (kv[0]))[0][1]
        if lead < 0:
            return -1, -p
        return 1, p

    def simplify(self, p):
        """ind^k -> ind; x^i * INV{x}^j cancellation for single-atom inverses; SQRT{x}^2 -> x"""
        out = {}
        extra = Poly()
        changed = False
        for mono, c in p.t.items():
            d = dict(mono)
            for a in list(d):
                if a.startswith('IND{') and d[a] > 1:
                    d[a] = 1
                    changed = True
            for a in list(d):
                if a.startswith('INV{') and a in d:
                    inner = a[4:-1]
                    if inner in d:
                        k = min(d[a], d[inner])
                        d[a] -= k
                        d[inner] -= k
                        changed = True
            mult = None
            for a in list(d):
                if a.startswith('SQRT{') and d[a] >= 2:
                    st = self.atoms.get(a)
                    if st is not None:
                        k = d[a] // 2
                        d[a] -= 2 * k
                        mult = (st[2][0] ** k) if mult is None else mult * (st[2][0] ** k)
                        changed = True
            key = tuple(sorted((a, e) for a, e in d.items() if e))
            if mult is not None:
                extra = extra + Poly({key: c}) * mult
            else:
                out[key] = out.get(key, 0) + c
        r = Poly(out) + extra
        if changed and not extra.is_zero():
            return self.simplify(r)
        return self.check(r)

    def mul(self, a, b):
        if len(a.t) * len(b.t) > self.max_terms * 4:
            raise Budget('product of %d x %d terms' % (len(a.t), len(b.t)))
        return self.simplify(a * b)

    def inv(self, p):
        if p.is_zero():
            raise Unsupported('division by zero polynomial')
        if p.is_const():
            return Poly.const(1 / p.const_value())
        if len(p.t) == 1:
            (mono, c), = p.t.items()
            r = Poly.const(1 / c)
            for a, e in mono:
                if a.startswith('INV{'):
                    r = r * (Poly.var(a[4:-1]) if a[4:-1] in self.atoms else self._inv_atom(Poly.var(a))) ** e
                else:
                    r = r * self._inv_atom(Poly.var(a)) ** e
            return self.simplify(r)
        s, pp = self.orient(p)
        # pull out a constant factor so that k*p and p share one atom
        lead = sorted(pp.t.items(), key=lambda kv: kv[0])[0][1]
        pn = pp * Poly.const(1 / lead)
        return self._inv_atom(pn) * Poly.const(Fraction(s) / lead)

    def _inv_atom(self, p):
        return Poly.var(self.name_of(('inv', p)))

    def fn(self, f, args):
        if f == 'abs' or f == 'fabs':
            p = args[0]
            if p.is_const():
                return Poly.const(abs(p.const_value()))
            s, pp = self.orient(p)
            lead = sorted(pp.t.items(), key=lambda kv: kv[0])[0][1]
            pn = pp * Poly.const(1 / lead)
            return Poly.var(self.name_of(('fn', 'abs', (pn,)))) * Poly.const(lead)
        if f == 'sqrt':
            p = args[0]
            if p.is_const() and p.const_value() >= 0:
                v = p.const_value()
                import math
                r = Fraction(math.isqrt(v.numerator), 1) / Fraction(math.isqrt(v.denominator), 1) if v.denominator else None
                if r is not None and r * r == v:
                    return Poly.const(r)
            return Poly.var(self.name_of(('fn', 'sqrt', (p,))))
        if f in ('max', 'fmax'):
            if len(args) == 2 and args[0] == args[1]:
                return args[0]
            return Poly.var(self.name_of(('fn', 'max', tuple(sorted(args, key=str)))))
        if f in ('min', 'fmin'):
            neg = [-a for a in args]
            return -self.fn('max', neg)
        if f == 'pow' and len(args) == 2 and args[1].is_const() and args[1].const_value().denominator == 1 and 0 <= args[1].const_value() <= 6:
            r = Poly.const(1)
            for _ in range(int(args[1].const_value())):
                r = self.mul(r, args[0])
            return r
        return Poly.var(self.name_of(('fn', f, tuple(args))))

    def ind(self, p):
        """[p > 0]"""
        if p.is_const():
            return Poly.const(1 if p.const_value() > 0 else 0)
        s, pp = self.orient(p)
        lead = sorted(pp.t.items(), key=lambda kv: kv[0])[0][1]
        pn = pp * Poly.const(1 / lead)
        a = Poly.var(self.name_of(('ind', pn)))
        return a if s > 0 else Poly.const(1) - a

    def ite(self, c, a, b):
        return self.simplify(b + self.mul(c, a - b))

    # -- renaming ------------------------------------------------------------
    def rename(self, p, sigma, memo=None):
        """apply a signed renaming of the input variables: sigma(name) -> Poly or None (identity)"""
        memo = {} if memo is None else memo
        out = Poly()
        for mono, c in p.t.items():
            term = Poly.const(c)
            for a, e in mono:
                term = self.mul(term, self._rename_atom(a, sigma, memo) ** e if e > 1 else self._rename_atom(a, sigma, memo))
            out = out + term
        return self.simplify(out)

    def _rename_atom(self, a, sigma, memo):
        if a in memo:
            return memo[a]
        st = self.atoms.get(a, ('var', a))
        if st[0] == 'var':
            r = sigma(st[1])
            r = Poly.var(a) if r is None else r
        elif st[0] == 'inv':
            r = self.inv(self.rename(st[1], sigma, memo))
        elif st[0] == 'fn':
            r = self.fn(st[1], [self.rename(x, sigma, memo) for x in st[2]])
        elif st[0] == 'ind':
            r = self.ind(self.rename(st[1], sigma, memo))
        else:
            raise Unsupported(str(st))
        memo[a] = r
        return r


class Evaluator(object):
    """Abstract evaluation of a function body into Poly values."""

    def __init__(self, ctx, fn, inputs=None, helpers=None, unroll=8):
        self.ctx = ctx
        self.fn = fn
        self.helpers = helpers or {}
        self.unroll = unroll
        self.env = {}
        self.returns = []      # (condition poly, value poly or tuple)
        self.live = Poly.const(1)
        self.inputs = inputs

    def input_var(self, text):
        return self.ctx.var(text)

    # -- expressions ---------------------------------------------------------
    def ev(self, e):
        c = self.ctx
        if isinstance(e, ast.Constant):
            if isinstance(e.value, bool):
                return Poly.const(1 if e.value else 0)
            if isinstance(e.value, (int, float)):
                return Poly.const(Fraction(e.value).limit_denominator(10 ** 15))
            raise Unsupported('constant %r' % (e.value,))
        if isinstance(e, ast.Name):
            if e.id in self.env:
                return self.env[e.id]
            return self.input_var(e.id)
        if isinstance(e, ast.Attribute):
            return self.input_var(ast.unparse(e).replace(' ', ''))
        if isinstance(e, ast.Subscript):
            key = self.subkey(e)
            if key in self.env:
                return self.env[key]
            return self.input_var(key)
        if isinstance(e, ast.UnaryOp):
            if isinstance(e.op, ast.USub):
                return -self.ev(e.operand)
            if isinstance(e.op, ast.UAdd):
                return self.ev(e.operand)
            if isinstance(e.op, ast.Not):
                return Poly.const(1) - self.cond(e.operand)
        if isinstance(e, ast.BinOp):
            a, b = self.ev(e.left), self.ev(e.right)
            if isinstance(e.op, ast.Add):
                return c.check(a + b)
            if isinstance(e.op, ast.Sub):
                return c.check(a - b)
            if isinstance(e.op, ast.Mult):
                return c.mul(a, b)
            if isinstance(e.op, ast.Div):
                return c.mul(a, c.inv(b))
            if isinstance(e.op, ast.Pow):
                if b.is_const() and b.const_value().denominator == 1 and 0 <= b.const_value() <= 6:
                    r = Poly.const(1)
                    for _ in range(int(b.const_value())):
                        r = c.mul(r, a)
                    return r
                if b.is_const() and b.const_value() == Fraction(1, 2):
                    return c.fn('sqrt', [a])
                return c.fn('pow', [a, b])
            raise Unsupported('operator %s' % type(e.op).__name__)
        if isinstance(e, ast.Call):
            nm = ast.unparse(e.func).replace(' ', '')
            args = [self.ev(a) for a in e.args]
            short = nm.split('.')[-1]
            if short in ('abs', 'fabs', 'sqrt', 'max', 'min', 'fmax', 'fmin', 'pow'):
                return c.fn(short, args)
            if short == 'float' and len(args) == 1:
                return args[0]
            if nm in self.helpers and isinstance(self.helpers[nm], ast.FunctionDef):
                return self.inline(self.helpers[nm], args)
            return c.fn(nm, args)
        if isinstance(e, ast.IfExp):
            return c.ite(self.cond(e.test), self.ev(e.body), self.ev(e.orelse))
        if isinstance(e, (ast.Compare, ast.BoolOp)):
            return self.cond(e)
        raise Unsupported('expression %s' % type(e).__name__)

    def subkey(self, e):
        idx = e.slice
        try:
            iv = self.ev(idx)
            if iv.is_const():
                its = str(iv.const_value())
            else:
                its = ast.unparse(idx).replace(' ', '') if not any(isinstance(x, ast.Name) and x.id in self.env for x in ast.walk(idx)) else str(iv)
        except Unsupported:
            its = ast.unparse(idx).replace(' ', '')
        return '%s[%s]' % (ast.unparse(e.value).replace(' ', ''), its)

    def cond(self, t):
        c = self.ctx
        if isinstance(t, ast.BoolOp):
            vals = [self.cond(v) for v in t.values]
            r = vals[0]
            for v in vals[1:]:
                if isinstance(t.op, ast.And):
                    r = c.mul(r, v)
                else:
                    r = c.simplify(r + v - c.mul(r, v))
            return r
        if isinstance(t, ast.UnaryOp) and isinstance(t.op, ast.Not):
            return Poly.const(1) - self.cond(t.operand)
        if isinstance(t, ast.Compare) and len(t.ops) == 1:
            a, b = self.ev(t.left), self.ev(t.comparators[0])
            op = t.ops[0]
            if isinstance(op, (ast.Gt, ast.GtE)):
                return c.ind(a - b)
            if isinstance(op, (ast.Lt, ast.LtE)):
                return c.ind(b - a)
            if isinstance(op, (ast.Eq, ast.NotEq)):
                eq = c.fn('eq', [a - b]) if not (a - b).is_const() else Poly.const(1 if (a - b).is_zero() else 0)
                return eq if isinstance(op, ast.Eq) else Poly.const(1) - eq
        if isinstance(t, ast.Constant):
            return Poly.const(1 if t.value else 0)
        # truthiness of a flag / number: [v > 0] (flags are booleans or non-negative switches)
        v = self.ev(t)
        return c.ind(v)

    # -- statements ----------------------------------------------------------
    def run(self):
        self.block(self.fn.body)
        return self

    def block(self, stmts):
        """returns True when every path through the block ends in a return"""
        for s in stmts:
            if self.stmt(s):
                return True
        return False

    def result_of_returns(self, pick):
        """sum over return sites of [path condition] * pick(value, env)"""
        tot = Poly()
        for live, val, env in self.returns:
            v = pick(val, env)
            if v is None:
                raise Unsupported('a return site lacks the requested value')
            tot = tot + self.ctx.mul(live, v)
        return self.ctx.simplify(tot)

    def assign(self, target, val):
        if isinstance(target, ast.Name):
            self.env[target.id] = val
        elif isinstance(target, ast.Subscript):
            self.env[self.subkey(target)] = val
        elif isinstance(target, ast.Attribute):
            self.env[ast.unparse(target).replace(' ', '')] = val
        else:
            raise Unsupported('assignment target %s' % type(target).__name__)

    def stmt(self, s):
        c = self.ctx
        if isinstance(s, ast.Expr):
            if isinstance(s.value, ast.Constant):
                return
            if isinstance(s.value, ast.Call):
                nm = ast.unparse(s.value.func).replace(' ', '')
                if nm in ('printf', 'print'):
                    return
                if nm in self.helpers and not isinstance(self.helpers[nm], ast.FunctionDef):
                    return self.helpers[nm](self, s.value)
                raise Unsupported('call statement %s' % nm)
            return
        if isinstance(s, ast.Assign):
            if isinstance(s.value, ast.Call) and ast.unparse(s.value.func) == 'declare':
                return
            if isinstance(s.targets[0], ast.Tuple) and isinstance(s.value, ast.Tuple) and len(s.targets[0].elts) == len(s.value.elts):
                vals = [self.ev(v) for v in s.value.elts]
                for t, v in zip(s.targets[0].elts, vals):
                    self.assign(t, v)
                return
            v = self.ev(s.value)
            for t in s.targets:
                self.assign(t, v)
            return
        if isinstance(s, ast.AugAssign):
            cur = self.ev(s.target)
            v = self.ev(s.value)
            if isinstance(s.op, ast.Add):
                r = c.check(cur + v)
            elif isinstance(s.op, ast.Sub):
                r = c.check(cur - v)
            elif isinstance(s.op, ast.Mult):
                r = c.mul(cur, v)
            elif isinstance(s.op, ast.Div):
                r = c.mul(cur, c.inv(v))
            else:
                raise Unsupported('augmented operator')
            return self.assign(s.target, r)
        if isinstance(s, ast.If):
            cnd = self.cond(s.test)
            if cnd.is_const():
                return self.block(s.body if cnd.const_value() != 0 else s.orelse)
            base = dict(self.env)
            live0 = self.live
            self.live = c.mul(live0, cnd)
            r1 = self.block(s.body)
            e1 = self.env
            self.env = dict(base)
            self.live = c.mul(live0, Poly.const(1) - cnd)
            r2 = self.block(s.orelse)
            e2 = self.env
            self.live = live0
            if r1 and r2:
                return True
            if r1:
                self.env = e2
                self.live = c.mul(live0, Poly.const(1) - cnd)
                return False
            if r2:
                self.env = e1
                self.live = c.mul(live0, cnd)
                return False
            merged = {}
            for k in set(e1) | set(e2):
                a = e1.get(k)
                b = e2.get(k)
                if a is None:
                    a = self.default(k)
                if b is None:
                    b = self.default(k)
                merged[k] = a if a == b else c.ite(cnd, a, b)
            self.env = merged
            return
        if isinstance(s, ast.For):
            it = s.iter
            if isinstance(it, ast.Call) and ast.unparse(it.func) == 'range' and isinstance(s.target, ast.Name):
                bounds = [self.ev(a) for a in it.args]
                if all(b.is_const() and b.const_value().denominator == 1 for b in bounds):
                    vals = list(range(*[int(b.const_value()) for b in bounds]))
                    if len(vals) <= self.unroll:
                        for v in vals:
                            self.env[s.target.id] = Poly.const(v)
                            self.block(s.body)
                        return
            raise Unsupported('loop that cannot be unrolled')
        if isinstance(s, ast.Return):
            if s.value is None:
                val = None
            elif isinstance(s.value, ast.Tuple):
                val = tuple(self.ev(v) for v in s.value.elts)
            else:
                val = self.ev(s.value)
            self.returns.append((self.live, val, dict(self.env)))
            return True
        if isinstance(s, ast.Pass):
            return
        if isinstance(s, ast.While):
            raise Unsupported('while loop')
        raise Unsupported('statement %s' % type(s).__name__)

    def inline(self, fdef, args):
        """value of a call of a small pure helper: its body is evaluated with the actual arguments"""
        sub = Evaluator(self.ctx, fdef, helpers=self.helpers, unroll=self.unroll)
        names = [a.arg for a in fdef.args.args]
        for n, v in zip(names, args):
            sub.env[n] = v
        body = fdef.body
        if body and isinstance(body[0], ast.Expr) and isinstance(body[0].value, ast.Constant):
            body = body[1:]
        sub.block(body)
        return sub.result_of_returns(lambda val, env: val if not isinstance(val, tuple) else None)

    def default(self, key):
        """value of a name/element that one branch did not assign: its value on entry"""
        return self.input_var(key)
