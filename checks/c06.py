"""C06 - a particle array stays coherent (static rules on ParticleArray, DESIGN.md C06)."""
import ast
import os
import sys

sys.path.insert(0, os.path.dirname(os.path.dirname(os.path.abspath(__file__))))
from verif_static.core import run_check, AnalysisError  # noqa
from verif_static import model as M, cfg as C  # noqa

PA = 'pysph/base/particle_array.pyx'
PXD = 'pysph/base/particle_array.pxd'
MAPS = ('default_values', 'stride', 'output_property_arrays')
# operations on a property's carray that change or depend on its length/order:
#   method -> indices of the arguments that must carry the property's stride
SIZED = {'resize': (0,), 'remove': (2,), 'c_align_array': (1,), 'align_array': (1,),
         'copy_values': (2, 3), 'copy_subset': (3,)}
COUNT_CHANGING = ('resize', 'remove', 'extend', 'c_align_array', 'align_array')


def U(n):
    return M.unparse(n)


def stmt_of(n):
    while not isinstance(n, ast.stmt):
        n = n.parent
    return n


def names_in(e):
    return set(x.id for x in ast.walk(e) if isinstance(x, ast.Name))


def preceding_assign(fn, var, before):
    """nearest assignment `var = ...` that textually precedes node `before` in fn"""
    best = None
    for n in ast.walk(fn):
        if isinstance(n, (ast.Assign, ast.AnnAssign)):
            tg = n.targets if isinstance(n, ast.Assign) else [n.target]
            if n.value is None:
                continue
            for t in tg:
                if isinstance(t, ast.Name) and t.id == var and (n.lineno, n.col_offset) < (before.lineno, before.col_offset):
                    if best is None or (n.lineno, n.col_offset) > (best.lineno, best.col_offset):
                        best = n
    return best


def expand_locals(fn, e, before, depth=4):
    """e with plain temporaries replaced by their reaching definitions (`first_new = old*stride` used as a slice bound), stride look-ups kept as names"""
    import copy

    class Sub(ast.NodeTransformer):
        def visit_Name(self, n):
            if not isinstance(n.ctx, ast.Load) or depth <= 0 or stride_key(fn, n.id, before) is not None:
                return n
            a = preceding_assign(fn, n.id, before)
            if a is None or not isinstance(a.value, (ast.BinOp, ast.Name)) or any(isinstance(x, ast.Name) and x.id == n.id for x in ast.walk(a.value)):
                return n
            # only a single definition in the function: otherwise which one reaches is a path question
            defs = [x for x in ast.walk(fn) if isinstance(x, (ast.Assign, ast.AnnAssign, ast.AugAssign)) and getattr(x, 'value', None) is not None and
                    any(isinstance(t, ast.Name) and t.id == n.id for t in (x.targets if isinstance(x, ast.Assign) else [x.target]))]
            if len(defs) != 1:
                return n
            return expand_locals(fn, a.value, a, depth - 1)
    return Sub().visit(copy.deepcopy(e))


def stride_key(fn, var, before):
    """key K and owner O if var's reaching definition is `O.stride.get(K, 1)`"""
    a = preceding_assign(fn, var, before)
    if a is None:
        return None
    v = a.value
    if isinstance(v, ast.Call) and isinstance(v.func, ast.Attribute) and v.func.attr == 'get' \
            and isinstance(v.func.value, ast.Attribute) and v.func.value.attr == 'stride' and v.args:
        dflt = v.args[1] if len(v.args) > 1 else None
        return (U(v.args[0]), U(v.func.value.value), dflt)
    return None


def stride_refs(fn, e, before):
    """the stride look-ups an expression is scaled by: [(key, owner, default)] - through a local (`stride = O.stride.get(K, 1)`) or written in place"""
    out = []
    for v in names_in(e):
        sk = stride_key(fn, v, before)
        if sk is not None:
            out.append(sk)
    for v in ast.walk(e):
        if isinstance(v, ast.Call) and isinstance(v.func, ast.Attribute) and v.func.attr == 'get' and isinstance(v.func.value, ast.Attribute) and v.func.value.attr == 'stride' and v.args:
            out.append((U(v.args[0]), U(v.func.value.value), v.args[1] if len(v.args) > 1 else None))
    return out


def array_key(fn, recv, before):
    """key of the property array denoted by expression `recv` at node `before`:
    `O.properties[K]`, `O.get_carray(K)`, `PyDict_GetItem(O.properties, K)`, loop var of
    `for K, A in O.properties.items()`, or a local bound to one of those."""
    if isinstance(recv, ast.Subscript) and isinstance(recv.value, ast.Attribute) and recv.value.attr == 'properties':
        return U(recv.slice)
    if isinstance(recv, ast.Call):
        nm = M.call_name(recv) or ''
        if not nm and isinstance(recv.func, ast.Attribute) and recv.func.attr in ('get_npy_array', 'get_data_ptr'):
            return array_key(fn, recv.func.value, before)
        if nm.endswith('.get_carray') and recv.args:
            return U(recv.args[0])
        if nm == 'PyDict_GetItem' and len(recv.args) == 2 and U(recv.args[0]).endswith('.properties'):
            return U(recv.args[1])
        if nm.endswith('.get_npy_array') or nm.endswith('.get_data_ptr'):
            return array_key(fn, recv.func.value, before)
        if nm.endswith('.properties.get') and recv.args:
            return U(recv.args[0])
    if isinstance(recv, ast.Name):
        # loop variable of items()
        p = before
        while p is not None and p is not fn:
            if isinstance(p, ast.For) and isinstance(p.target, ast.Tuple) and len(p.target.elts) == 2 \
                    and isinstance(p.target.elts[1], ast.Name) and p.target.elts[1].id == recv.id \
                    and U(p.iter).endswith('.properties.items()'):
                return U(p.target.elts[0])
            p = getattr(p, 'parent', None)
        cur = before
        for _ in range(6):
            a = preceding_assign(fn, recv.id, cur)
            if a is None:
                break
            if not (isinstance(a.value, ast.Constant) and a.value.value is None):
                k = array_key(fn, a.value, a)
                if k is not None:
                    return k
            cur = a
    return None


def rule_maps(chk, cls):
    """R1: per-property maps are kept in step with `properties`."""
    # private helpers a maintainer factors out of a method are inlined into their callers again (a helper that stores the array while its caller records the default is
    # one step of the same method); the private methods that are entry points of their own keep being analysed as such
    ENTRY_PRIVATE = ('_initialize', '_create_carray', '_check_property', '_get_real_particle_prop')
    keep = set(n_ for n_ in M.methods(cls) if not n_.startswith('_') or n_.startswith('__') or n_ in ENTRY_PRIVATE)
    helpers = [n_ for n_ in M.methods(cls) if n_ not in keep]
    if helpers:
        cls = M.inlined_class(cls, keep=keep)
        M.set_parents(cls)
    meths = dict((n_, f_) for n_, f_ in M.methods(cls).items() if n_ in keep)
    n = 0
    for name, fn in sorted(meths.items()):
        # deletions
        dels = []
        for c in M.calls(fn):
            if isinstance(c.func, ast.Attribute) and c.func.attr in ('pop', '__delitem__') \
                    and U(c.func.value) == 'self.properties':
                dels.append((c, U(c.args[0]) if c.args else '?'))
        for d in ast.walk(fn):
            if isinstance(d, ast.Delete):
                for t in d.targets:
                    if isinstance(t, ast.Subscript) and U(t.value) == 'self.properties':
                        dels.append((d, U(t.slice)))
        gdel = C.build_cfg(fn) if dels else None
        for site, key in dels:
            for m in MAPS:
                n += 1
                drops = []
                for c in M.calls(fn):
                    if isinstance(c.func, ast.Attribute) and c.func.attr in ('pop', 'remove', 'discard') \
                            and U(c.func.value) == 'self.' + m and c.args and U(c.args[0]) == key:
                        drops.append(c)
                for d in ast.walk(fn):
                    if isinstance(d, ast.Delete):
                        for t in d.targets:
                            if isinstance(t, ast.Subscript) and U(t.value) == 'self.' + m and U(t.slice) == key:
                                drops.append(d)
                # on every path on which the property is deleted: the entry is dropped before (dominates) or afterwards (must-pass to the exit)
                def anchor(d):
                    # a drop guarded only by "is the key in this very map" is as good as unconditional: the guard is the anchor
                    st = stmt_of(d)
                    g_ = M.enclosing(st, (ast.If,))
                    if g_ is not None and st in g_.body and U(g_.test).replace(' ', '') in ('%sinself.%s' % (key, m), 'self.%s.has_key(%s)' % (m, key)):
                        return g_
                    return st
                sn = gdel.node_of(stmt_of(site))
                dn = [x for x in (gdel.node_of(anchor(d)) for d in drops) if x is not None]
                ok = bool(dn) and sn is not None and (any(gdel.dominates(d, sn) for d in dn) or gdel.must_pass(sn, gdel.exit, dn))
                chk.decide(ok, 'maps-in-step:delete', '%s:%s' % (name, m), node=site, file=PA, func=name,
                           detail_bad='key %s is removed from self.properties but its entry in self.%s is kept '
                                      '(a property re-added later inherits it)' % (key, m),
                           detail_ok='entry for %s also removed from self.%s' % (key, m))
        # wholesale rebinding
        rebinds = [a for a in ast.walk(fn) if isinstance(a, ast.Assign)
                   and any(U(t) == 'self.properties' for t in a.targets)]
        for rb in rebinds:
            for m in MAPS:
                n += 1
                ok = any(isinstance(a, ast.Assign) and any(U(t) == 'self.' + m for t in a.targets) for a in ast.walk(fn)) \
                    or any(isinstance(c.func, ast.Attribute) and c.func.attr == 'clear' and U(c.func.value) == 'self.' + m
                           for c in M.calls(fn))
                why = ''
                if not ok and name == '__setstate__':
                    # legitimate special case: runs on an instance freshly built by __init__ via __reduce__
                    red = meths.get('__reduce__')
                    init = meths.get('__init__')
                    fresh = red is not None and any(
                        isinstance(r, ast.Return) and isinstance(r.value, ast.Tuple) and len(r.value.elts) == 3
                        and U(r.value.elts[0]) == cls.name and U(r.value.elts[1]) == '()' for r in ast.walk(red))
                    inits = init is not None and any(
                        isinstance(a, ast.Assign) and any(U(t) == 'self.' + m for t in a.targets) for a in ast.walk(init))
                    if fresh and inits:
                        ok = True
                        why = ' (instance is freshly constructed: __reduce__ returns (%s, (), state) and __init__ binds self.%s)' % (cls.name, m)
                chk.decide(ok, 'maps-in-step:rebind', '%s:%s' % (name, m), node=rb, file=PA, func=name,
                           detail_bad='self.properties is replaced wholesale but self.%s keeps its old entries' % m,
                           detail_ok='self.%s reset alongside%s' % (m, why))
        # insertion must record the default
        ins = [a for a in ast.walk(fn) if isinstance(a, ast.Assign)
               and any(isinstance(t, ast.Subscript) and U(t.value) == 'self.properties' for t in a.targets)]
        if ins:
            keys = set(U(t.slice) for a in ins for t in a.targets if isinstance(t, ast.Subscript))
            g = C.build_cfg(fn)
            for key in sorted(keys):
                n += 1
                dv = [x.id for x in g.nodes if x.ast is not None and isinstance(x.ast, ast.Assign)
                      and any(isinstance(t, ast.Subscript) and U(t.value) == 'self.default_values' and
                              (U(t.slice) == key or names_equiv(fn, U(t.slice), key)) for t in x.ast.targets)]
                first = [g.node_of(a) for a in ins]
                ok = bool(dv) and all(f is None or any(g.dominates(d, f) for d in dv) for f in first)
                chk.decide(ok, 'maps-in-step:insert-default', '%s:%s' % (name, key), node=ins[0], file=PA, func=name,
                           detail_bad='a property is inserted without recording default_values[%s] on every path' % key,
                           detail_ok='default recorded before insertion')
            # stride recorded when it is not 1
            if 'stride' in M.arg_names(fn):
                n += 1
                st = [a for a in ast.walk(fn) if isinstance(a, ast.Assign)
                      and any(isinstance(t, ast.Subscript) and U(t.value) == 'self.stride' for t in a.targets)]
                ok = bool(st) and all(U(a.value) == 'stride' for a in st)
                if ok:
                    guard = M.enclosing(st[0], (ast.If,))
                    ok = guard is None or U(guard.test).replace(' ', '') in ('stride!=1', 'stride>1', 'notstride==1')
                chk.decide(ok, 'maps-in-step:insert-stride', name, node=fn, file=PA, func=name,
                           detail_bad='the requested stride is not stored in self.stride for every stride != 1',
                           detail_ok='self.stride[name] = stride whenever stride != 1')
    chk.floor('map obligations', n, 10)


def names_equiv(fn, a, b):
    """`prop_name` and `name` denote the same value when one is declared as `x: T = y`"""
    for s in ast.walk(fn):
        if isinstance(s, (ast.AnnAssign, ast.Assign)) and getattr(s, 'value', None) is not None:
            t = s.target if isinstance(s, ast.AnnAssign) else s.targets[0]
            if {U(t), U(s.value)} == {a, b}:
                return True
    return False


def rule_stride(chk, cls):
    """R2: every sized operation on a property array uses the stride of the same key."""
    n = 0
    for name, fn in sorted(M.methods(cls).items()):
        for c in M.calls(fn):
            if not isinstance(c.func, ast.Attribute) or c.func.attr not in SIZED:
                continue
            recv = c.func.value
            key = array_key(fn, recv, c)
            if key is None:
                # not a property array (e.g. self.gpu.resize, parray.resize)
                continue
            for idx in SIZED[c.func.attr]:
                if idx >= len(c.args):
                    n += 1
                    chk.violated('stride-discipline', '%s:%s#%d' % (name, c.func.attr, idx), node=c, file=PA, func=name,
                                 detail='sized operation %s lacks its stride argument' % U(c))
                    continue
                arg = expand_locals(fn, c.args[idx], c)
                n += 1
                cands = stride_refs(fn, arg, c)
                if isinstance(arg, ast.Constant):
                    chk.violated('stride-discipline', '%s:%s#%d' % (name, c.func.attr, idx), node=c, file=PA, func=name,
                                 detail='constant %s used where the stride of property %s is required' % (U(arg), key))
                    continue
                good = [sk for sk in cands if sk[0] == key or names_equiv(fn, sk[0], key)]
                if good:
                    sk = good[0]
                    dflt_ok = sk[2] is not None and isinstance(sk[2], ast.Constant) and sk[2].value == 1
                    chk.decide(dflt_ok, 'stride-discipline', '%s:%s#%d' % (name, c.func.attr, idx), node=c, file=PA,
                               func=name, detail_bad='stride default for absent key is not 1 (%s)' % U(sk[2]) if sk[2] is not None else 'no default',
                               detail_ok='%s uses stride of key %s' % (U(c)[:60], key))
                elif cands:
                    chk.violated('stride-discipline', '%s:%s#%d' % (name, c.func.attr, idx), node=c, file=PA, func=name,
                                 detail='array of key %s is sized with the stride looked up for key %s' % (key, cands[0][0]))
                else:
                    chk.violated('stride-discipline', '%s:%s#%d' % (name, c.func.attr, idx), node=c, file=PA, func=name,
                                 detail='size/offset %s of array %s is not multiplied by that property\'s stride' % (U(arg), key))
        # slices of property arrays: bounds in units of particles must be scaled by stride
        for s in ast.walk(fn):
            if isinstance(s, ast.Subscript) and isinstance(s.slice, ast.Slice):
                key = array_key(fn, s.value, s)
                if key is None:
                    continue
                for bound in (s.slice.lower, s.slice.upper):
                    if bound is None or isinstance(bound, ast.Constant):
                        continue
                    n += 1
                    bound = expand_locals(fn, bound, s)
                    cands = stride_refs(fn, bound, s)
                    good = [sk for sk in cands if sk[0] == key or names_equiv(fn, sk[0], key)]
                    inst = '%s:slice[%s]' % (name, key)
                    if good:
                        chk.holds('stride-discipline', inst, node=s, file=PA, func=name, detail='%s' % U(s)[:70])
                    else:
                        chk.violated('stride-discipline', inst, node=s, file=PA, func=name,
                                     detail='slice bound %s of property %s is not scaled by that property\'s stride' % (U(bound), key))
        # element loops `for i in range(N * stride): A.data[i] ...` over a property array
        for l in ast.walk(fn):
            if isinstance(l, ast.For) and isinstance(l.iter, ast.Call) and M.call_name(l.iter) == 'range' \
                    and isinstance(l.target, ast.Name) and l.iter.args:
                keys = set()
                for sub in ast.walk(l):
                    if isinstance(sub, ast.Subscript) and isinstance(sub.value, ast.Attribute) and sub.value.attr == 'data' \
                            and U(sub.slice) == l.target.id:
                        k = array_key(fn, sub.value.value, sub)
                        if k is not None:
                            keys.add(k)
                keys -= {"'tag'", "'pid'", "'gid'"}   # built-in scalar properties (stride 1 by construction)
                if not keys:
                    continue
                bound = l.iter.args[-1] if len(l.iter.args) < 3 else l.iter.args[1]
                if U(bound).endswith('.length'):
                    continue   # whole-array loop, stride-free by construction
                n += 1
                cands = stride_refs(fn, bound, l)
                good = [sk for sk in cands if sk[0] in keys]
                inst = '%s:range[%s]' % (name, ','.join(sorted(keys)))
                if good:
                    chk.holds('stride-discipline', inst, node=l, file=PA, func=name, detail='range(%s)' % U(bound))
                else:
                    chk.violated('stride-discipline', inst, node=l, file=PA, func=name,
                                 detail='element loop bound %s over property %s is not scaled by its stride' % (U(bound), sorted(keys)))
    chk.floor('stride obligations', n, 18)


def rule_coverage(chk, cls):
    """R3: count-changing mutators visit every property on every path of the loop body."""
    meths = M.methods(cls)
    table = {'remove_particles': 'remove', 'extend': 'resize', 'resize': 'resize',
             'align_particles': 'c_align_array', 'add_particles': ('extend', 'resize')}
    for name, ops in sorted(table.items()):
        fn = meths.get(name)
        if fn is None:
            raise AnalysisError('anchor method vanished: ParticleArray.%s' % name)
        ops = (ops,) if isinstance(ops, str) else ops
        loops = [l for l in ast.walk(fn) if isinstance(l, ast.For) and
                 U(l.iter) in ('self.properties', 'self.properties.items()', 'self.properties.keys()',
                               'self.properties.values()', 'list(self.properties.keys())')]
        good = None
        for l in loops:
            g = C.build_cfg(l.body)
            opn = [x.id for x in g.nodes if x.ast is not None and isinstance(x.ast, ast.stmt)
                   and not isinstance(x.ast, (ast.If, ast.For, ast.While))
                   and any(isinstance(c.func, ast.Attribute) and c.func.attr in ops for c in M.calls(x.ast))]
            if not opn:
                continue
            has_escape = any(isinstance(x, (ast.Continue, ast.Break, ast.Return)) for b in l.body for x in ast.walk(b))
            every = g.must_pass(g.entry, g.exit, opn)
            good = (l, every and not has_escape)
            break
        if good is None:
            chk.violated('whole-property-coverage', name, node=fn, file=PA, func=name,
                         detail='no loop over all of self.properties applying %s' % '/'.join(ops))
        else:
            chk.decide(good[1], 'whole-property-coverage', name, node=good[0], file=PA, func=name,
                       detail_bad='some path through the loop over self.properties skips %s for a property' % '/'.join(ops),
                       detail_ok='every property is %s on every path' % '/'.join(ops))
    # delegating mutators
    for name, callee in (('remove_tagged_particles', 'self.remove_particles'), ('append_parray', 'self.extend'),
                         ('extract_particles', 'dest_array.extend')):
        fn = meths.get(name)
        if fn is None:
            raise AnalysisError('anchor method vanished: ParticleArray.%s' % name)
        ok = any(M.call_name(c) == callee for c in M.calls(fn))
        chk.decide(ok, 'whole-property-coverage', name + ':delegates', node=fn, file=PA, func=name,
                   detail_bad='no longer delegates the size change to %s' % callee, detail_ok='delegates to ' + callee)


def rule_align(chk, cls):
    """R4: alignment re-established by every mutator that can change count/order."""
    meths = M.methods(cls)
    for name in ('remove_particles', 'add_particles', 'append_parray', 'extract_particles', 'remove_tagged_particles'):
        fn = meths.get(name)
        if fn is None:
            raise AnalysisError('anchor method vanished: ParticleArray.%s' % name)
        if 'align' not in M.arg_names(fn):
            chk.violated('align-after-count-change', name, node=fn, file=PA, func=name, detail='align parameter removed')
            continue
        # per path: whenever the call was asked to align (no test on `align` taken false) and the path has changed the size of the arrays (remove / resize / extend / copy_values)
        # without having established that nothing was added or removed (a `<count> > 0` test taken false), it re-aligns - align_particles() itself or a delegation that
        # passes align=align - after the last size change and before returning.  `if n > 0 and align:`, nested ifs and early returns are the same paths.
        from verif_static import paths as PT
        MUT = ('remove', 'resize', 'extend', 'copy_values')
        bad, npaths, deleg_only = None, 0, True
        for p_ in PT.enumerate_paths(M.docstring_stripped(fn.body)):
            if p_[-1].kind == 'raise':
                continue
            cl = PT.calls_on(p_)
            if any(cal.startswith('self.gpu') for i_, c_, cal, e_ in cl) and p_[-1].kind == 'return':
                continue            # the GPU branch hands the whole operation over
            muts = [i_ for i_, c_, cal, e_ in cl if isinstance(c_.func, ast.Attribute) and c_.func.attr in MUT and not cal.startswith('self.gpu')]
            delg = [i_ for i_, c_, cal, e_ in cl if any(k.arg == 'align' and U(k.value) == 'align' for k in c_.keywords) and not cal.startswith('self.gpu')]
            if not muts and not delg:
                continue
            npaths += 1
            if muts:
                deleg_only = False
            facts = PT.path_facts(p_)
            if any(compact_(x) == 'align' and not tr_ for x, tr_ in facts):
                continue

            def excuse(x):
                # a conjunct whose failure means there is nothing to align: `align` itself, or `<count> > 0`
                return compact_(x) == 'align' or (isinstance(x, ast.Compare) and len(x.ops) == 1 and isinstance(x.ops[0], ast.Gt) and U(x.comparators[0]) == '0')
            if any(isinstance(x, ast.BoolOp) and isinstance(x.op, ast.And) and not tr_ and all(excuse(v_) for v_ in x.values) for x, tr_ in facts):
                continue
            if any(isinstance(x, ast.Compare) and len(x.ops) == 1 and isinstance(x.ops[0], ast.Gt) and U(x.comparators[0]) == '0' and not tr_ for x, tr_ in facts) or \
                    any(isinstance(x, ast.Compare) and len(x.ops) == 1 and isinstance(x.ops[0], ast.Eq) and U(x.comparators[0]) == '0' and tr_ for x, tr_ in facts):
                continue
            last_mut = max(muts) if muts else -1
            al = [i_ for i_, c_, cal, e_ in cl if cal.endswith('.align_particles') and i_ > last_mut] + [i_ for i_ in delg if i_ >= last_mut]
            if not al:
                bad = bad or 'a path (%s) changes the size of the arrays and returns without re-aligning although align is set' % ', '.join('%s is %s' % (compact_(x)[:30], tr_) for x, tr_ in facts[-3:])
        ok = bad is None and npaths > 0
        detail = 'delegates with align=align' if deleg_only else 'every path that changes the size with align set re-aligns before returning (%d paths)' % npaths
        bad = bad or 'no size-changing path found'
        chk.decide(ok, 'align-after-count-change', name, node=fn, file=PA, func=name, detail_bad=bad, detail_ok=detail)
    # _initialize aligns
    fn = meths.get('_initialize')
    if fn is None:
        raise AnalysisError('anchor method vanished: ParticleArray._initialize')
    g = C.build_cfg(fn)
    adds = [n.id for n in g.nodes if n.ast is not None and isinstance(n.ast, ast.Expr) and
            any(M.call_name(c) == 'self.add_property' for c in M.calls(n.ast))]
    al = [n.id for n in g.nodes if n.ast is not None and isinstance(n.ast, ast.Expr) and
          any(M.call_name(c) == 'self.align_particles' for c in M.calls(n.ast))]
    chk.decide(bool(al) and all(g.must_pass(a, g.exit, al) for a in adds), 'align-after-count-change', '_initialize',
               node=fn, file=PA, func='_initialize', detail_bad='properties added at construction are not aligned',
               detail_ok='align_particles() after the properties are added')
    # align_particles itself
    fn = meths.get('align_particles')
    g = C.build_cfg(fn)
    sets = [n.id for n in g.nodes if n.ast is not None and isinstance(n.ast, ast.Assign)
            and any(U(t) == 'self.num_real_particles' for t in n.ast.targets)]
    # paths that return early through the gpu delegate are exempt
    gpu_ret = [n.id for n in g.nodes if isinstance(n.ast, ast.Return) and M.enclosing(n.ast, (ast.If,)) is not None
               and 'gpu' in U(M.enclosing(n.ast, (ast.If,)).test)]
    ok = bool(sets) and g.exit not in g.reachable(g.entry, avoid=set(sets) | set(gpu_ret))
    chk.decide(ok, 'align-after-count-change', 'align_particles:num_real_particles', node=fn, file=PA,
               func='align_particles', detail_bad='num_real_particles is not recomputed on every CPU path',
               detail_ok='recomputed on every CPU path')
    # who may write the count: only the places that count the Local tags (or define the state from scratch).  Anything else that assigns it asserts an alignment
    # it has not established (an array whose default tag is not Local, tags changed through a view ...)
    OWNERS = {'__init__': 'a new, empty array', '__setstate__': 'counted from the pickled tags', 'set_num_real_particles': 'the explicit setter (parallel manager)',
              'align_particles': 'counts the Local tags', 'add_property': 'first particles of an empty array: counted from the given tags, or decided by the default tag (rule below)'}
    wr = sorted(set(name for name, f_ in meths.items() for a in ast.walk(f_) if isinstance(a, (ast.Assign, ast.AugAssign))
                    and any(U(t) == 'self.num_real_particles' for t in (a.targets if isinstance(a, ast.Assign) else [a.target]))))
    extra = [w for w in wr if w not in OWNERS]
    chk.decide(not extra, 'align-after-count-change', 'real-count-written-only-where-tags-are-counted', node=meths[extra[0]] if extra else fn, file=PA, func=extra[0] if extra else 'ParticleArray',
               detail_bad='%s assigns self.num_real_particles itself instead of calling align_particles(): the count is right only if every particle counted is tagged Local and sits in '
                          'front - which that method has not established (default tag other than Local, tags changed through the numpy view)' % ', '.join(extra),
               detail_ok='written in %s' % ', '.join(wr))
    # add_property, first particles of an empty array: the particles get the given tags, or - when another property brings them - the array's default tag, which need not be
    # Local (ParticleArray(default_particle_tag=...)): the count is either counted from the given tags, or the number of particles under the test that the default tag is Local,
    # or 0 under its negation
    ap = meths.get('add_property')
    if ap is None:
        raise AnalysisError('ParticleArray.add_property vanished')
    M.set_parents(ap)
    n_ap = 0
    for a in ast.walk(ap):
        if not (isinstance(a, ast.Assign) and any(U(t) == 'self.num_real_particles' for t in a.targets)):
            continue
        n_ap += 1
        v = a.value
        counted = any(isinstance(c_, ast.Compare) and any(U(x_).split('.')[-1] == 'Local' for x_ in [c_.left] + list(c_.comparators)) for c_ in ast.walk(v))
        pol = None
        node = a
        while node is not ap:
            par = node.parent
            if isinstance(par, ast.If):
                t_ = U(par.test).replace(' ', '').replace('"', "'")
                side = True if node in par.body else (False if node in par.orelse else None)
                if side is not None and "default_values['tag']" in t_ and 'Local' in t_ and isinstance(par.test, ast.Compare) and len(par.test.ops) == 1:
                    eq = isinstance(par.test.ops[0], ast.Eq)
                    ne = isinstance(par.test.ops[0], ast.NotEq)
                    if eq or ne:
                        pol = side if eq else (not side)
            node = par
        zero = isinstance(v, ast.Constant) and v.value == 0
        ok = counted or (zero and pol is False) or (not zero and pol is True)
        chk.decide(ok, 'align-after-count-change', 'add_property:real-count@%d' % n_ap, node=a, file=PA, func='add_property',
                   detail_bad='`%s` for the first particles of an empty array: they carry the array\'s default tag, which is Local only by default '
                              '(ParticleArray(default_particle_tag=Ghost)); the count must be counted from the tags, or be the number of particles only where the default tag is '
                              'known to be Local (0 otherwise)' % U(a),
                   detail_ok='counted from the tags' if counted else 'decided by the default tag')
    chk.floor('assignments of the real count in add_property', n_ap, 2)
    # (that the count is the number of Local tags is decided per path of the fill loop by the shared alignment rule below)
    # one index array for all properties
    cs = [c for c in M.calls(fn) if isinstance(c.func, ast.Attribute) and c.func.attr == 'c_align_array']
    idx = set(U(c.args[0]) for c in cs if c.args)
    chk.decide(len(cs) >= 1 and len(idx) == 1, 'align-after-count-change', 'align_particles:one-permutation', node=fn,
               file=PA, func='align_particles', detail_bad='properties are permuted with different index arrays: %s' % sorted(idx),
               detail_ok='single index array %s' % sorted(idx))


def rule_particles_info(chk):
    """utils.get_particles_info (the description from which create_dummy_particles builds replicas, e.g. on the other ranks of a parallel run) interpreted (E8) on two model
    arrays with different properties, constants and - for a property of the same name - different type / default / stride: every array's record holds exactly its own
    properties and constants with its own type, default and stride, and no two records share a dictionary"""
    from verif_static import emit as EM, absint as AI
    UT = 'pysph/base/utils.py'
    fn = M.find_func(M.py(UT), 'get_particles_info')
    if fn is None:
        raise AnalysisError('utils.get_particles_info vanished')
    try:
        it = EM.interpreter()

        def carr(ty, data=None):
            return EM.mock(get_c_type=lambda i, a, k, n, e: ty, get_npy_array=lambda i, a, k, n, e: data)
        lb = lambda v: (lambda i, a, k, n, e: v)          # noqa: E731
        a1 = EM.mock(name='fluid', properties={'x': carr('double'), 'rho': carr('double'), 'A': carr('double')}, default_values={'x': 0.0, 'rho': 1000.0, 'A': 0.5}, stride={'A': 4},
                     constants={'c0': carr('double', ('c0',))}, gpu=None, output_property_arrays=['x', 'rho'], get_lb_props=lb(['x', 'rho', 'A']))
        a2 = EM.mock(name='wall', properties={'x': carr('double'), 'A': carr('int'), 'n': carr('long')}, default_values={'x': 0.0, 'A': 3, 'n': 9}, stride={'A': 2, 'n': 3},
                     constants={'k': carr('double', ('k',))}, gpu=None, output_property_arrays=['n'], get_lb_props=lb(['x', 'A', 'n']))
        bad = None
        for order in ((a1, a2), (a2, a1)):
            info = EM.call_function(it, UT, 'get_particles_info', list(order))
            want = {'fluid': ({'x': ('double', 0.0, 1), 'rho': ('double', 1000.0, 1), 'A': ('double', 0.5, 4)}, ['c0'], ['x', 'rho']),
                    'wall': ({'x': ('double', 0.0, 1), 'A': ('int', 3, 2), 'n': ('long', 9, 3)}, ['k'], ['n'])}
            if not isinstance(info, dict) or sorted(info) != sorted(want):
                bad = bad or 'arrays described: %s' % (sorted(info) if isinstance(info, dict) else info,)
                continue
            for nm_, (wp, wc, wo) in want.items():
                rec = info[nm_]
                pi = rec.get('properties') if isinstance(rec, dict) else None
                ci_ = rec.get('constants') if isinstance(rec, dict) else None
                if not isinstance(pi, dict) or sorted(pi) != sorted(wp):
                    bad = bad or 'the record of `%s` lists the properties %s (the array has %s)' % (nm_, sorted(pi) if isinstance(pi, dict) else pi, sorted(wp))
                    continue
                for pn, (ty, df, stv) in wp.items():
                    r_ = pi[pn]
                    got = (r_.get('type'), r_.get('default'), r_.get('stride')) if isinstance(r_, dict) else r_
                    if got != (ty, df, stv) or r_.get('name') != pn:
                        bad = bad or 'property %s of `%s` is described as (type, default, stride) = %s, the array has %s' % (pn, nm_, got, (ty, df, stv))
                if not isinstance(ci_, dict) or sorted(ci_) != wc:
                    bad = bad or 'the record of `%s` lists the constants %s (the array has %s)' % (nm_, sorted(ci_) if isinstance(ci_, dict) else ci_, wc)
                if rec.get('output_property_arrays') != wo:
                    bad = bad or 'output arrays of `%s` described as %s' % (nm_, rec.get('output_property_arrays'))
            if info['fluid'].get('properties') is info['wall'].get('properties') or info['fluid'].get('constants') is info['wall'].get('constants'):
                bad = bad or 'the records of the two arrays share one dictionary'
        chk.decide(bad is None, 'replica-description', 'get_particles_info:each-array-its-own-record:model-run', node=fn, file=UT, func='get_particles_info',
                   detail_bad='for two model arrays fluid(x, rho, A double stride 4; constant c0) and wall(x, A int stride 2, n long stride 3; constant k): %s - create_dummy_particles builds '
                              'replicas with the wrong properties / types / strides' % bad,
                   detail_ok='two model arrays in both orders: each record has exactly its own properties (type, default, stride), constants and output list')
    except (AI.Unsupported, AI.Raised) as e:
        chk.undecided('replica-description', 'get_particles_info:each-array-its-own-record:model-run', node=fn, file=UT, func='get_particles_info', detail='not interpretable: %s' % e)


def rule_slices_from_counts(chk, cls):
    """"the last k entries" written as the slice [-k:] is the whole array when k is 0 (-0 == 0): a slice bound in the particle array is never the negation of a count - the
    new entries of a grown array start at <old count>*stride"""
    n, bad = 0, []
    for x in ast.walk(cls):
        if isinstance(x, ast.Slice):
            n += 1
            for b in (x.lower, x.upper):
                if b is not None and any(isinstance(y, ast.UnaryOp) and isinstance(y.op, ast.USub) and not isinstance(y.operand, ast.Constant) for y in ast.walk(b)):
                    bad.append((x, b))
    chk.floor('slices in ParticleArray', n, 6)
    fn0 = M.enclosing_func(bad[0][0]) if bad else None
    chk.decide(not bad, 'whole-property-coverage', 'slice-bounds-are-not-negated-counts', node=bad[0][0] if bad else cls, file=PA, func=M.qualname(fn0) if fn0 is not None else 'ParticleArray',
               detail_bad='slice `%s`: for a count of 0 the bound -0 is 0 and the slice covers the whole array - every existing particle is overwritten (add_particles with empty '
                          'arrays resets all properties that were not passed to their defaults)' % (U(bad[0][0]) if bad else ''),
               detail_ok='%d slices, none bounded by a negated count' % n)


def rule_pickle(chk, cls):
    """pickling decided on a model array (E8, lowered Cython): __reduce__ hands out, for every property, a record {name, type, data: the whole array, default, stride} and for
    every constant {name, data}, under the keys that __setstate__ reads; __setstate__ replays every record through add_property / add_constant (whose parameters the record
    keys are) and counts the real particles from the pickled tags"""
    from verif_static import emit as EM, absint as AI
    meths = M.methods(cls)
    red, sst, addp, addc = meths.get('__reduce__'), meths.get('__setstate__'), meths.get('add_property'), meths.get('add_constant')
    if not (red and sst and addp and addc):
        raise AnalysisError('pickle anchors vanished')
    t = M.cy(PA)

    class Tags(list):
        def __eq__(self, other):
            return ('tags==', other)

        def __ne__(self, other):
            return ('tags!=', other)
        __hash__ = None
    saved = AI.EXTERNAL_CALLS.get('numpy.sum')
    AI.EXTERNAL_CALLS['numpy.sum'] = lambda i, a, k, n, e: ('count', a[0])
    try:
        it = EM.interpreter()
        EM.model_module(it, '<pa>', t)

        def carr(ty, data):
            return EM.mock(get_c_type=lambda i, a, k, n, e: ty, get_npy_array=lambda i, a, k, n, e: data)
        tags = Tags([0, 0, 2])
        DATA = {'x': ('npy', 'x'), 'A': ('npy', 'A'), 'tag': tags}
        src = EM.instance(it, '<pa>', 'ParticleArray', name='fluid', properties={'x': carr('double', DATA['x']), 'A': carr('int', DATA['A']), 'tag': carr('int', DATA['tag'])},
                          default_values={'x': 1.5, 'A': 7, 'tag': 2}, stride={'A': 3}, constants={'c0': ('c', 0), 'k': ('c', 1)}, gpu=None, backend='cython')
        res = EM.call(it, src, '__reduce__')
        state = res[2] if isinstance(res, tuple) and len(res) == 3 else None
        want_p = {'x': {'name': 'x', 'type': 'double', 'data': DATA['x'], 'default': 1.5, 'stride': 1}, 'A': {'name': 'A', 'type': 'int', 'data': DATA['A'], 'default': 7, 'stride': 3},
                  'tag': {'name': 'tag', 'type': 'int', 'data': DATA['tag'], 'default': 2, 'stride': 1}}
        params = set(M.arg_names(addp)) - {'self'}
        cparams = set(M.arg_names(addc)) - {'self'}
        okr = isinstance(state, dict) and state.get('name') == 'fluid' and isinstance(state.get('properties'), dict) and sorted(state['properties']) == sorted(want_p) and \
            all(isinstance(state['properties'][k_], dict) and sorted(state['properties'][k_]) == sorted(want_p[k_]) and
                all(state['properties'][k_][f_] is want_p[k_][f_] or (not isinstance(want_p[k_][f_], (list, tuple)) and state['properties'][k_][f_] == want_p[k_][f_]) for f_ in want_p[k_])
                for k_ in want_p) and all(set(r_) <= params for r_ in state['properties'].values())
        okc = okr and isinstance(state.get('constants'), dict) and sorted(state['constants']) == ['c0', 'k'] and \
            all(isinstance(r_, dict) and set(r_) <= cparams and r_.get('name') == k_ and r_.get('data') == ('c', 0 if k_ == 'c0' else 1) for k_, r_ in state['constants'].items())
        chk.decide(bool(okr), 'pickle-table', 'property-records', node=red, file=PA, func='__reduce__',
                   detail_bad='a model array (x double default 1.5, A int default 7 stride 3, tag with default 2) is pickled as %r: expected, per property, name / type / data (the whole '
                              'array of that property) / default / stride under add_property\'s parameter names' % (state.get('properties') if isinstance(state, dict) else state,),
                   detail_ok='every property: name, type, whole data array, default, stride')
        chk.decide(bool(okc), 'pickle-table', 'constant-records', node=red, file=PA, func='__reduce__',
                   detail_bad='constants pickled as %r (expected {name, data} per constant)' % (state.get('constants') if isinstance(state, dict) else None,), detail_ok='every constant: name, data')
        # replay
        log = []
        dst = EM.instance(it, '<pa>', 'ParticleArray', add_property=lambda i, a, k, n, e: log.append(('p', dict(k))), add_constant=lambda i, a, k, n, e: log.append(('c', dict(k))))
        if isinstance(state, dict):
            EM.call(it, dst, '__setstate__', state)
        gotp = sorted((r_.get('name'), r_.get('type'), r_.get('default'), r_.get('stride')) for kd, r_ in log if kd == 'p')
        gotc = sorted(r_.get('name') for kd, r_ in log if kd == 'c')
        nr = dst.attrs.get('num_real_particles')
        okn = isinstance(nr, tuple) and nr[0] == 'count' and isinstance(nr[1], tuple) and nr[1][0] == 'tags=='
        if not okn and AI.unknown(nr):
            kn = AI.key_of(nr).replace(' ', '')          # symbolic: sum(<the pickled tags> == Local)
            okn = 'sum(' in kn and ('<Tags>==Local' in kn or 'Local==<Tags>' in kn)
        oks = gotp == sorted((k_, v_['type'], v_['default'], v_['stride']) for k_, v_ in want_p.items()) and gotc == ['c0', 'k'] and dst.attrs.get('name') == 'fluid' and \
            all(r_.get('data') is want_p[r_['name']]['data'] for kd, r_ in log if kd == 'p')
        chk.decide(bool(oks), 'pickle-table', 'setstate-replays-records', node=sst, file=PA, func='__setstate__',
                   detail_bad='__setstate__ on the pickled state of the model array re-creates properties %s and constants %s (name %r): every record must go through add_property / '
                              'add_constant with what was pickled' % (gotp, gotc, dst.attrs.get('name')), detail_ok='every record replayed through add_property(**record) / add_constant(**record)')
        chk.decide(bool(okn), 'pickle-table', 'setstate-counts-real-particles-from-the-tags', node=sst, file=PA, func='__setstate__',
                   detail_bad='after __setstate__ num_real_particles is %r: it must be the number of pickled tags equal to Local' % (nr,), detail_ok='numpy.sum(tags == Local)')
    except (AI.Unsupported, AI.Raised) as e:
        chk.undecided('pickle-table', 'model-run', node=red, file=PA, func='__reduce__', detail='not interpretable on the model: %s' % e)
    finally:
        if saved is None:
            AI.EXTERNAL_CALLS.pop('numpy.sum', None)
        else:
            AI.EXTERNAL_CALLS['numpy.sum'] = saved


def rule_replicate(chk, cls):
    """R6: a property copied from another array keeps its type, default and stride."""
    n = 0
    for name, fn in sorted(M.methods(cls).items()):
        for c in M.calls(fn):
            nm = M.call_name(c) or ''
            if nm.endswith('.add_property') and name in ('empty_clone', 'ensure_properties', 'append_parray'):
                kws = set(k.arg for k in c.keywords)
                n += 1
                need = {'name', 'type', 'default', 'stride'}
                chk.decide(need <= kws, 'replicated-property-keeps-attributes', '%s' % name, node=c, file=PA, func=name,
                           detail_bad='property replicated without %s' % sorted(need - kws), detail_ok='name,type,default,stride passed')
    # (that empty_clone replicates every requested property, the built-ins included, and ensure_properties every missing one, each with type, default and stride of the
    # source, is decided by the model runs rule_empty_clone_model / rule_ensure_model - also when the add_property call sits in a helper)


def rule_tag_scans(chk, cls):
    """scans of the tag array that select particles look at every particle: alignment (real particles first) is only re-established by align_particles and
    may not be assumed by a scan (tags can be rewritten, particles appended unaligned)"""
    n = 0
    for name, fn in sorted(M.methods(cls).items()):
        M.set_parents(fn)
        tagvars = set()
        for a in ast.walk(fn):
            if isinstance(a, (ast.Assign, ast.AnnAssign)) and a.value is not None:
                v = U(a.value).replace(' ', '')
                tg = a.target if isinstance(a, ast.AnnAssign) else a.targets[0]
                if "properties['tag']" in v or "get_carray('tag')" in v or (isinstance(a.value, ast.Call) and isinstance(a.value.func, ast.Attribute) and
                                                                              isinstance(a.value.func.value, ast.Name) and a.value.func.value.id in tagvars and
                                                                              a.value.func.attr in ('get_data_ptr', 'get_npy_array')):
                    tagvars.add(U(tg))
                if isinstance(a.value, ast.Attribute) and a.value.attr == 'data' and isinstance(a.value.value, ast.Name) and a.value.value.id in tagvars:
                    tagvars.add(U(tg))
        for cmp_ in ast.walk(fn):
            if isinstance(cmp_, ast.Compare) and not isinstance(cmp_.left, ast.Subscript):
                # the vectorised form of the scan: the whole tag array compared at once (`numpy.flatnonzero(tags.get_npy_array() == tag)`) covers every particle by construction
                l_ = cmp_.left
                whole = (isinstance(l_, ast.Name) and l_.id in tagvars) or (isinstance(l_, ast.Call) and isinstance(l_.func, ast.Attribute) and l_.func.attr == 'get_npy_array'
                                                                              and isinstance(l_.func.value, ast.Name) and l_.func.value.id in tagvars)
                if whole:
                    n += 1
                    chk.holds('tag-scan-covers-every-particle', '%s@vectorised' % name, node=cmp_, file=PA, func=name, detail='whole tag array compared: %s' % U(cmp_)[:60])
                continue
            if not (isinstance(cmp_, ast.Compare) and isinstance(cmp_.left, ast.Subscript)):
                continue
            base = cmp_.left.value
            bname = U(base.value) if isinstance(base, ast.Attribute) and base.attr == 'data' else U(base)
            if bname not in tagvars or not isinstance(cmp_.left.slice, ast.Name):
                continue
            loop = M.enclosing(cmp_, (ast.For,))
            if loop is None or U(loop.target) != cmp_.left.slice.id:
                continue
            n += 1
            it = loop.iter
            ok = isinstance(it, ast.Call) and U(it.func) == 'range' and len(it.args) == 1
            if ok:
                bound = U(it.args[0]).replace(' ', '')
                bdefs = [U(a.value).replace(' ', '') for a in ast.walk(fn) if isinstance(a, (ast.Assign, ast.AnnAssign)) and a.value is not None and
                         U(a.target if isinstance(a, ast.AnnAssign) else a.targets[0]) == bound]
                ok = any(bound == '%s.length' % v or bound == 'len(%s)' % v for v in tagvars) or \
                    any(b in ('self.get_number_of_particles()',) or any(b == '%s.length' % v for v in tagvars) for b in bdefs)
            chk.decide(ok, 'tag-scan-covers-every-particle', '%s@%d' % (name, loop.lineno), node=loop, file=PA, func=name,
                       detail_bad='the loop that tests the tag of each particle runs over `%s`, not over every particle: particles outside that range keep a tag the caller asked to '
                                  'act on (the array need not be aligned when this is called)' % U(it), detail_ok='range(<number of particles>)')
    chk.floor('loops testing the tag of each particle', n, 2)

CARRAY_CTORS = {'IntArray', 'UIntArray', 'LongArray', 'FloatArray', 'DoubleArray'}


def _fresh_expr(e, fn, meths, seen, at=None, g=None):
    """the value is storage created in this call: a carray constructor, a helper of the class that returns only such storage, or a
    local every definition of which *reaching the use* is"""
    if isinstance(e, ast.Call):
        nm = M.call_name(e) or ''
        if nm in CARRAY_CTORS:
            return True
        if nm.startswith('self.') and nm[5:] in meths and nm[5:] not in seen:
            h = meths[nm[5:]]
            gh = C.build_cfg(h)
            rets = [r for r in ast.walk(h) if isinstance(r, ast.Return) and r.value is not None]
            return bool(rets) and all(_fresh_expr(r.value, h, meths, seen | {nm[5:]}, at=r, g=gh) for r in rets)
        return False
    if isinstance(e, ast.Name):
        if e.id in set(M.arg_names(fn)):
            return False
        defs = []
        for a in ast.walk(fn):
            if isinstance(a, ast.Assign) and any(isinstance(t, ast.Name) and t.id == e.id for t in a.targets):
                defs.append(a)
            elif isinstance(a, ast.AnnAssign) and isinstance(a.target, ast.Name) and a.target.id == e.id and a.value is not None:
                defs.append(a)
            elif isinstance(a, (ast.For, ast.AugAssign)) and any(isinstance(x, ast.Name) and x.id == e.id for x in ast.walk(a.target)):
                defs.append(a)
        if g is not None and at is not None:
            an = g.node_of(at)
            dn = dict((g.node_of(d), d) for d in defs)
            dn.pop(None, None)
            if an is not None:
                live = []
                for d_id, d in dn.items():
                    if any(sx == an or an in g.reachable(sx, avoid=set(dn)) for sx in g.succ[d_id]):
                        live.append(d)
                defs = live
        return bool(defs) and all(isinstance(d, (ast.Assign, ast.AnnAssign)) and _fresh_expr(d.value, fn, meths, seen, at=d, g=g) for d in defs)
    return False


def rule_storage(chk, cls):
    """The arrays behind properties and constants belong to this particle array alone: whatever is stored into self.properties[..] /
    self.constants[..] is storage created by the call that stores it (never a caller's or another array's carray)."""
    meths = M.methods(cls)
    n = 0
    for name, fn in sorted(meths.items()):
        for a in ast.walk(fn):
            if not isinstance(a, ast.Assign):
                continue
            for t in a.targets:
                if isinstance(t, ast.Subscript) and U(t.value) in ('self.properties', 'self.constants'):
                    n += 1
                    ok = _fresh_expr(a.value, fn, meths, frozenset(), at=a, g=C.build_cfg(fn))
                    chk.decide(ok, 'storage-owned', '%s:%s[%s]#%d' % (name, U(t.value)[5:], U(t.slice), n), node=a, file=PA, func=name,
                               detail_bad='`%s` is stored into %s without being created here: the particle array then shares its storage with the caller / another array, '
                                          'and a write through either changes both' % (U(a.value), U(t.value)),
                               detail_ok='storage created by this call (%s)' % U(a.value)[:60])
                elif U(t) in ('self.properties', 'self.constants') and isinstance(a.value, ast.Dict):
                    for v in a.value.values:
                        n += 1
                        chk.decide(_fresh_expr(v, fn, meths, frozenset()), 'storage-owned', '%s:%s-literal#%d' % (name, U(t)[5:], n), node=a, file=PA, func=name,
                                   detail_bad='`%s` placed in the table is not created here' % U(v), detail_ok='fresh carray')
    chk.floor('stores into the property / constant tables', n, 8)


def _reaching_defs(fn, g, var, at):
    defs = []
    for a in ast.walk(fn):
        if isinstance(a, ast.Assign) and any(isinstance(t, ast.Name) and t.id == var for t in a.targets):
            defs.append(a)
        elif isinstance(a, ast.AnnAssign) and isinstance(a.target, ast.Name) and a.target.id == var and a.value is not None:
            defs.append(a)
    an = g.node_of(at)
    dn = dict((g.node_of(d), d) for d in defs)
    dn.pop(None, None)
    return [d for d_id, d in dn.items() if any(sx == an or an in g.reachable(sx, avoid=set(dn)) for sx in g.succ[d_id])]


def rule_sorted_removal(chk, cls):
    """carray.remove(indices, input_sorted=1, stride) trusts its caller: whenever a method passes a true `input_sorted`, the index
    array must have been sorted by this call on every path (callers may hand over indices in any order)."""
    n = 0
    for name, fn in sorted(M.methods(cls).items()):
        g = None
        for c in M.calls(fn):
            if not (isinstance(c.func, ast.Attribute) and c.func.attr == 'remove' and len(c.args) >= 2):
                continue
            flag = c.args[1]
            n += 1
            if isinstance(flag, ast.Constant) and not flag.value:
                chk.holds('sorted-flag-is-true', '%s:%s' % (name, U(c.args[0])), node=c, file=PA, func=name, detail='input_sorted is false: the carray sorts the indices itself')
                continue
            g = g or C.build_cfg(fn)
            arg = c.args[0]
            st = stmt_of(c)

            def is_sorted(e, at, depth=0):
                if isinstance(e, ast.Call) and (M.call_name(e) or '') in ('numpy.sort', 'np.sort', 'sorted', 'numpy.unique', 'np.unique'):
                    return True
                if isinstance(e, ast.Name) and depth < 4:
                    an = g.node_of(at)
                    for c2 in M.calls(fn):           # sorted in place before the use, on every path
                        if isinstance(c2.func, ast.Attribute) and c2.func.attr == 'sort' and U(c2.func.value) == e.id and not c2.args:
                            sn2 = g.node_of(stmt_of(c2))
                            if sn2 is not None and an is not None and sn2 != an and g.dominates(sn2, an):
                                return True
                    ds = _reaching_defs(fn, g, e.id, at)
                    return bool(ds) and all(is_sorted(d.value, d, depth + 1) for d in ds)
                return False
            ok = is_sorted(arg, st)
            chk.decide(ok, 'sorted-flag-is-true', '%s:%s' % (name, U(arg)), node=c, file=PA, func=name,
                       detail_bad='`%s` tells the carray that `%s` is sorted, but on some path it is not the result of a sort made here: indices handed over in another '
                                  'order remove the wrong particles' % (U(c), U(arg)), detail_ok='%s is numpy.sort(...) on every path' % U(arg))
    chk.floor('remove calls that claim sorted input', n, 1)


def rule_count(chk, cls):
    """get_number_of_particles(real=True) is the number of real particles, whatever it is (0 for an array that holds only ghost / remote particles);
    shared with C11: only_real output slices every property with it"""
    fn = M.methods(cls).get('get_number_of_particles')
    if fn is None:
        raise AnalysisError('ParticleArray.get_number_of_particles vanished')
    M.set_parents(fn)
    arg = [a for a in M.arg_names(fn) if a != 'self']
    rv = arg[0] if arg else 'real'
    ifs = [i for i in ast.walk(fn) if isinstance(i, ast.If) and any(isinstance(x, ast.Name) and x.id == rv for x in ast.walk(i.test))]
    ok = len(ifs) == 1 and isinstance(ifs[0].test, ast.Name) and len(ifs[0].body) == 1 and isinstance(ifs[0].body[0], ast.Return) and \
        U(ifs[0].body[0].value) == 'self.num_real_particles'
    chk.decide(ok, 'whole-property-coverage', 'get_number_of_particles:real-count', node=ifs[0] if ifs else fn, file=PA, func='get_number_of_particles',
               detail_bad='with real=True the method does not return self.num_real_particles under the test `%s` alone (found `%s`): an array without real particles reports its '
                          'total length, so only_real output writes its ghost / remote particles' % (rv, U(ifs[0].test) if ifs else None),
               detail_ok='if %s: return self.num_real_particles' % rv)


def rule_append_offsets(chk, cls):
    """where an array is grown and then written behind its old end, the offset is the *total* particle count before the growth (real, remote and ghost): the count of
    real particles alone makes the new values overwrite trailing non-local particles.  And appending never replaces a constant the destination already has."""
    n = 0
    for name, fn in sorted(M.methods(cls).items()):
        exts = [c for c in M.calls(fn) if isinstance(c.func, ast.Attribute) and c.func.attr == 'extend' and isinstance(c.func.value, ast.Name)]
        for ex in exts:
            recv = ex.func.value.id
            for a in ast.walk(fn):
                if not (isinstance(a, (ast.Assign, ast.AnnAssign)) and getattr(a, 'value', None) is not None):
                    continue
                tgt = a.targets[0] if isinstance(a, ast.Assign) else a.target
                if not isinstance(tgt, ast.Name) or a.lineno >= ex.lineno:
                    continue
                v = a.value
                real_count = (isinstance(v, ast.Attribute) and U(v) == '%s.num_real_particles' % recv) or \
                    (isinstance(v, ast.Call) and M.call_name(v) == '%s.get_number_of_particles' % recv and
                     ((v.args and not (isinstance(v.args[0], ast.Constant) and not v.args[0].value)) or any(k.arg == 'real' and not (isinstance(k.value, ast.Constant) and not k.value.value) for k in v.keywords)))
                total = isinstance(v, ast.Call) and M.call_name(v) == '%s.get_number_of_particles' % recv and not real_count
                if not (real_count or total):
                    continue
                used_after = any(isinstance(x, ast.Name) and x.id == tgt.id and getattr(x, 'lineno', 0) > ex.lineno for x in ast.walk(fn))
                if not used_after:
                    continue
                n += 1
                chk.decide(total, 'whole-property-coverage', '%s:offset-behind-%s' % (name, recv), node=a, file=PA, func=name,
                           detail_bad='`%s` is used as the position behind the existing particles of %s after %s.extend(), but it counts real particles only: extracted / appended values '
                                      'overwrite the trailing remote / ghost particles and the new slots keep defaults' % (U(a), recv, recv),
                           detail_ok='%s = %s.get_number_of_particles() before the growth' % (tgt.id, recv))
    chk.floor('offsets taken before an extend', n, 2)
    ap = M.methods(cls).get('append_parray')
    if ap is None:
        raise AnalysisError('ParticleArray.append_parray vanished')
    M.set_parents(ap)
    bad = []
    for c in M.calls(ap):
        if isinstance(c.func, ast.Attribute) and U(c.func.value) == 'self.constants' and c.func.attr in ('update', '__setitem__'):
            bad.append(U(c))
    for a in ast.walk(ap):
        if isinstance(a, ast.Assign) and isinstance(a.targets[0], ast.Subscript) and U(a.targets[0].value) == 'self.constants':
            gi = M.enclosing(a, (ast.If,))
            key = U(a.targets[0].slice)
            guarded = gi is not None and U(gi.test).replace(' ', '') in ('%snotinself.constants' % key, 'not%sinself.constants' % key)
            if not guarded:
                bad.append(U(a))
    chk.decide(not bad, 'maps-in-step:insert-default', 'append_parray:constants-kept', node=ap, file=PA, func='append_parray',
               detail_bad='append_parray overwrites constants the destination already has (%s): with update_constants=True only missing constants may be added' % bad,
               detail_ok='constants added with setdefault / only when missing')


def rule_ensure_model(chk):
    """ParticleArray.ensure_properties interpreted (E8, lowered Cython) on two model arrays: a property the destination lacks is created with the SOURCE's type, default and
    stride; properties it has are left alone; with a list only those are looked at"""
    from verif_static import emit as EM, absint as AI
    t = M.cy(PA)
    fn = M.find_method(t, 'ParticleArray', 'ensure_properties')
    bad, und, nrun = None, None, 0
    for props in (None, ['B'], ['A', 'x'], []):
        it = EM.interpreter()
        EM.model_module(it, '<pa>', t)
        calls = []

        def addp(i, a, k, n, e):
            kw = dict(k)
            for nm_, v_ in zip(('name', 'type', 'default', 'data', 'stride'), a):
                kw[nm_] = v_
            calls.append(kw)
            return None

        def carr(ty):
            return EM.mock(get_c_type=lambda i, a, k, n, e: ty)
        dst = EM.instance(it, '<pa>', 'ParticleArray', properties={'x': carr('double'), 'tag': carr('int')}, stride={'x': 1, 'Q': 9}, default_values={'x': 0.0, 'tag': 0, 'A': -1, 'B': -1.0},
                          add_property=addp, name='dst')
        src = EM.mock(name='src', properties={'x': carr('double'), 'A': carr('int'), 'tag': carr('int'), 'B': carr('float')}, stride={'A': 3}, default_values={'x': 1.0, 'A': 7, 'tag': 0, 'B': 0.5})
        try:
            EM.call(it, dst, 'ensure_properties', src, props)
        except (AI.Unsupported, AI.Raised) as e:
            und = 'props=%s: %s' % (props, e)
            break
        nrun += 1
        full = {'A': {'name': 'A', 'type': 'int', 'default': 7, 'stride': 3}, 'B': {'name': 'B', 'type': 'float', 'default': 0.5, 'stride': 1}}
        want = [full[k_] for k_ in (['A', 'B'] if not props else [p_ for p_ in props if p_ in full])]
        got = sorted(({'name': c_.get('name'), 'type': c_.get('type'), 'default': c_.get('default'), 'stride': c_.get('stride', 1)} for c_ in calls), key=lambda d_: str(d_['name']))
        if got != want and bad is None:
            bad = (props, got, want)
    if und:
        chk.undecided('whole-property-coverage', 'ensure_properties:model-run', node=fn, file=PA, func='ensure_properties', detail='not interpretable on the model: ' + und)
    else:
        chk.decide(bad is None, 'whole-property-coverage', 'ensure_properties:model-run', node=fn, file=PA, func='ensure_properties',
                   detail_bad='with a source holding A (int, default 7, stride 3) and B (float, default 0.5) and props=%s the destination gets add_property%s, expected %s: the new '
                              'property must take type, default and stride from the source' % (bad or ('', '', '')), detail_ok='%d selections: type, default and stride taken from the source' % nrun)


def rule_empty_clone_model(chk):
    """ParticleArray.empty_clone interpreted (E8, lowered Cython) on a model array: the clone gets every requested property - the built-in tag / pid / gid included, whose
    type and default a fresh array already has but which may differ in the source - with the type, default and stride it has in the source, every constant, the name and the
    output arrays restricted to the requested properties"""
    from verif_static import emit as EM, absint as AI
    t = M.cy(PA)
    fn = M.find_method(t, 'ParticleArray', 'empty_clone')
    bad, und, nrun = None, None, 0
    shared = None
    for props in (None, ['A', 'x'], ['tag', 'B'], []):
        it_log = {'props': [], 'consts': [], 'name': None, 'out': None}

        def fresh(interp, f, args, kwargs, node, env, it_log=it_log):
            def addp(i, a, k, n, e):
                kw = dict(k)
                for nm_, v_ in zip(('name', 'type', 'default', 'data', 'stride'), a):
                    kw[nm_] = v_
                it_log['props'].append(kw)

            def addc(i, a, k, n, e):
                it_log['consts'].append((a[0], k.get('data', a[1] if len(a) > 1 else None)))

            def setn(i, a, k, n, e):
                it_log['name'] = a[0]

            def seto(i, a, k, n, e):
                it_log['out'] = list(a[0])
                it_log['out_obj'] = a[0]          # set_output_arrays keeps the very list it is given
            # a fresh array already has the three built-in properties
            def carr0(ty):
                return EM.mock(get_c_type=lambda i, a, k, n, e: ty)
            # (an instance of the class itself, so that a clone built through other methods of the fresh array - ensure_properties, say - is interpreted too)
            return EM.instance(interp, '<pa>', 'ParticleArray', name='', gpu=None, backend='cython', properties={'tag': carr0('int'), 'pid': carr0('int'), 'gid': carr0('unsigned int')},
                               default_values={'tag': 0, 'pid': 0, 'gid': 4294967295}, stride={}, constants={}, output_property_arrays=[],
                               add_property=addp, add_constant=addc, set_name=setn, set_output_arrays=seto)
        it = AI.Interp(EM.EI.index(), AI.Config([]), intrinsics={('<pa>', 'ParticleArray'): fresh})
        EM.model_module(it, '<pa>', t)

        def carr(ty):
            return EM.mock(get_c_type=lambda i, a, k, n, e: ty)
        src = EM.instance(it, '<pa>', 'ParticleArray', gpu=None, backend='cython', name='fluid',
                          properties={'x': carr('double'), 'A': carr('int'), 'tag': carr('int'), 'pid': carr('int'), 'gid': carr('unsigned int'), 'B': carr('float')},
                          stride={'A': 3}, default_values={'x': 1.0, 'A': 7, 'tag': 2, 'pid': 0, 'gid': 5, 'B': 0.5}, constants={'c0': ('c', 0), 'rho0': ('c', 1)},
                          output_property_arrays=['x', 'A', 'gid'])
        try:
            EM.call(it, src, 'empty_clone', props)
        except (AI.Unsupported, AI.Raised) as e:
            und = 'props=%s: %s' % (props, e)
            break
        nrun += 1
        full = {'x': ('double', 1.0, 1), 'A': ('int', 7, 3), 'tag': ('int', 2, 1), 'pid': ('int', 0, 1), 'gid': ('unsigned int', 5, 1), 'B': ('float', 0.5, 1)}
        names = list(full) if props is None else props
        want = sorted((n_,) + full[n_] for n_ in names)
        got = sorted((c_.get('name'), c_.get('type'), c_.get('default'), c_.get('stride', 1)) for c_ in it_log['props'])
        wout = sorted(['x', 'A', 'gid'] if props is None else [p_ for p_ in props if p_ in ('x', 'A', 'gid')])
        gout = sorted(it_log['out']) if it_log['out'] is not None else None
        if bad is None and (got != want or sorted(it_log['consts']) != [('c0', ('c', 0)), ('rho0', ('c', 1))] or it_log['name'] != 'fluid' or gout != wout):
            bad = (props, got, want, it_log['consts'], it_log['name'], gout, wout)
        if it_log.get('out_obj') is src.attrs['output_property_arrays'] and shared is None:
            shared = (props,)
    if und:
        chk.undecided('replicated-property-keeps-attributes', 'empty_clone:model-run', node=fn, file=PA, func='empty_clone', detail='not interpretable on the model: ' + und)
    else:
        chk.decide(bad is None, 'replicated-property-keeps-attributes', 'empty_clone:model-run', node=fn, file=PA, func='empty_clone',
                   detail_bad='a model array (x, A: int default 7 stride 3, B: float, tag with default 2, gid with default 5; constants c0, rho0; output arrays x, A, gid) cloned with '
                              'props=%s: properties added %s, expected %s; constants %s, name %r, output arrays %s (expected %s)' % (bad or ('',) * 7),
                   detail_ok='%d selections: every requested property (built-ins included) with the type, default and stride of the source; constants, name, output arrays' % nrun)
        chk.decide(shared is None, 'replicated-property-keeps-attributes', 'empty_clone:own-output-list', node=fn, file=PA, func='empty_clone',
                   detail_bad='cloned with props=%s the clone is handed the very list object that is the source\'s output_property_arrays (set_output_arrays keeps the list it is '
                              'given): add_output_arrays / remove_property on either array edits the output list of both' % (shared[0] if shared else None,),
                   detail_ok='the clone gets a list of its own')
    return nrun


def rule_default_kept(chk, cls):
    """add_property without an explicit default: a property that exists keeps the default it has (data re-supplied for gid, tag or a user property must not reset it - new
    particles are filled with the default when the array grows), a new one gets 0.  Decided per path of the statements that settle `default` when none was passed."""
    from verif_static import paths as PT
    ap = M.methods(cls).get('add_property')
    if ap is None:
        raise AnalysisError('ParticleArray.add_property vanished')
    M.set_parents(ap)
    # the statements between the argument checks and the store into default_values
    store = [a for a in ast.walk(ap) if isinstance(a, ast.Assign) and isinstance(a.targets[0], ast.Subscript) and U(a.targets[0].value) == 'self.default_values']
    if not store:
        chk.violated('maps-in-step:insert-default', 'add_property:default-recorded', node=ap, file=PA, func='add_property', detail='add_property no longer records the default of the property')
        return
    st0 = store[0]
    top = st0
    while top.parent is not ap:
        top = top.parent
    body = M.docstring_stripped(ap.body)
    k = body.index(top)
    j = k
    while j > 0 and any(isinstance(x, ast.Name) and x.id == 'default' for x in ast.walk(body[j - 1])) and not any(isinstance(x, ast.Raise) for x in ast.walk(body[j - 1])):
        j -= 1
    seg = body[j:k + 1]
    bad = []
    seen = set()
    for p_ in PT.enumerate_paths(seg):
        if PT.took(p_, True, 'default is None') is None:
            # a default was given (or the path does not ask): it is the one recorded, also for a property that exists - the readers of the output files re-create the built-in
            # tag / pid / gid with the default that was saved
            st_ = None
            for e in p_:
                if e.kind == 'stmt' and isinstance(e.node, ast.Assign) and isinstance(e.node.targets[0], ast.Subscript) and U(e.node.targets[0].value) == 'self.default_values':
                    st_ = U(PT.resolve(e.node.value, e.env)).replace(' ', '')
            if st_ is not None and st_ != 'default':
                bad.append('a default that is given explicitly is replaced by %s' % st_)
            continue
        # what is stored for the property on this path
        stored = None
        for e in p_:
            if e.kind == 'stmt' and isinstance(e.node, ast.Assign) and isinstance(e.node.targets[0], ast.Subscript) and U(e.node.targets[0].value) == 'self.default_values':
                stored = U(PT.resolve(e.node.value, e.env)).replace(' ', '')
        facts = [(U(t_).replace(' ', ''), tr) for t_, tr in PT.path_facts(p_)]
        exists = None
        for t_, tr in facts:
            if t_ in ('prop_nameinself.properties', 'nameinself.properties', 'self.properties.has_key(prop_name)', 'prop_nameinself.default_values'):
                exists = tr
            if t_ in ('prop_namenotinself.properties', 'namenotinself.properties'):
                exists = not tr
        if exists is None:
            bad.append('a path settles the default as %s without asking whether the property exists' % stored)
        elif exists:
            seen.add('existing')
            if stored not in ('self.default_values[prop_name]', 'self.default_values[name]', None) and not (stored or '').startswith('self.default_values.get(prop_name'):
                bad.append('for a property that exists the default becomes %s' % stored)
        else:
            seen.add('new')
            if stored not in ('0', '0.0'):
                bad.append('for a new property the default becomes %s' % stored)
    if 'existing' not in seen and not bad:
        bad.append('no path keeps the default of a property that exists')
    chk.decide(not bad, 'maps-in-step:insert-default', 'add_property:default-kept-when-none-is-given', node=st0, file=PA, func='add_property',
               detail_bad='%s: data supplied again for an existing property (gid, tag, a property created with default=...) silently resets its default; particles added '
                          'later get the wrong fill value (tag 0 = Local instead of the array\'s default tag, gid 0 instead of UINT_MAX)' % '; '.join(bad[:2]),
               detail_ok='existing property: its own default; new property: 0')


def rule_typed_creation(chk, cls):
    """add_property(name, type=T, data=...): the array created for a new property has the type asked for - it is made by _create_carray(T, ...) and filled - whatever the
    element type of the data; only when no type is given may the type be read off the data (_create_c_array_from_npy_array, which maps 32-bit integers to `long`).  Shared with
    C11: the readers re-create every property with the type recorded in the file."""
    ap0 = M.methods(cls).get('add_property')
    if ap0 is None:
        raise AnalysisError('ParticleArray.add_property vanished')
    keep = set(n_ for n_ in M.methods(cls) if not n_.startswith('_')) | set(['_create_carray', '_create_c_array_from_npy_array', '_check_property'])
    ap = M.inline_helpers(cls, ap0, keep=keep)
    M.set_parents(ap)
    n = 0
    for a in ast.walk(ap):
        if not (isinstance(a, ast.Assign) and isinstance(a.targets[0], ast.Subscript) and U(a.targets[0].value) == 'self.properties'):
            continue
        # where does the stored array come from (through locals of the same block)
        v = a.value
        seen = 0
        while isinstance(v, ast.Name) and seen < 4:
            d = preceding_assign(ap, v.id, a)
            if d is None:
                break
            v = d.value
            seen += 1
        src = (M.call_name(v) or '') if isinstance(v, ast.Call) else ''
        if not src.startswith('self._create_c'):
            continue
        n += 1
        # is `data_type is None` established on the way to this statement?
        none_known = False
        node = a
        while node is not ap:
            par = node.parent
            if isinstance(par, ast.If):
                t_ = par.test
                side = True if node in par.body else (False if node in par.orelse else None)
                atoms = []

                def add(t, truth):
                    while isinstance(t, ast.UnaryOp) and isinstance(t.op, ast.Not):
                        t, truth = t.operand, not truth
                    if isinstance(t, ast.BoolOp) and ((isinstance(t.op, ast.Or) and not truth) or (isinstance(t.op, ast.And) and truth)):
                        for x in t.values:
                            add(x, truth)
                    else:
                        atoms.append((U(t).replace(' ', ''), truth))
                if side is not None:
                    add(t_, side)
                for txt, tr in atoms:
                    if (txt in ('data_typeisNone', 'typeisNone') and tr) or (txt in ('data_typeisnotNone', 'typeisnotNone') and not tr):
                        none_known = True
            node = par
        typed = src == 'self._create_carray' and isinstance(v, ast.Call) and v.args and U(v.args[0]) in ('data_type', 'type')
        ok = typed or (src == 'self._create_c_array_from_npy_array' and none_known)
        chk.decide(ok, 'replicated-property-keeps-attributes', 'add_property:array-of-the-type-asked-for@%d' % n, node=a, file=PA, func='add_property',
                   detail_bad='the array of the new property is made by %s although a type may have been given (`data_type is None` is not established here): an int property given '
                              '32-bit integer data becomes a LongArray, i.e. its type changes to long - also after a dump / load round trip, which re-creates properties through '
                              'add_property(type=...)' % src,
                   detail_ok='typed by the type asked for' if typed else 'type read off the data only when none was given')
    chk.floor('arrays created for new properties in add_property', n, 3)


def rule_removal_exits(chk, cls):
    """remove_particles removes exactly the particles listed: on the CPU path nothing returns before every property had the listed entries removed, except for an *empty*
    list (a test on the length of the list).  A shortcut that looks at the values (`if not indices.any(): return` - false for the list [0]) leaves particle 0 in place.
    Shared with C16: a fluid particle that crossed the outlet plane must leave the fluid whatever its index."""
    from verif_static import paths as PT
    fn = M.methods(cls).get('remove_particles')
    if fn is None:
        raise AnalysisError('ParticleArray.remove_particles vanished')
    bad = []
    n = 0
    for p_ in PT.enumerate_paths(M.docstring_stripped(fn.body)):
        if p_[-1].kind == 'raise':
            continue
        cl = [cal for i, c, cal, env in PT.calls_on(p_)]
        if any(c_.startswith('self.gpu.') for c_ in cl):
            continue                     # the GPU delegate
        n += 1
        # the path reaches the loop that removes the entries from every property (the variant of the path on which that loop runs zero times - an array without properties - included)
        removed = any(e.kind == 'loop' and isinstance(e.node, ast.For) and any((M.call_name(c_) or '').endswith('.remove') for c_ in M.calls(e.node)) for e in p_)
        if removed:
            continue
        # a path that removes nothing: every test it took on the way must be about the list being empty
        facts = [(compact_(t_), tr) for t_, tr in PT.path_facts(p_)]
        empty = False
        for t_, tr in facts:
            tt = t_.replace('index_list', 'L').replace('indices', 'L')
            if (tt in ('L.length==0', 'len(L)==0', 'L.size==0', 'L.length<1', 'L.length<=0') and tr) or (tt in ('L.length>0', 'len(L)>0', 'L.size>0', 'L.length!=0', 'len(L)', 'L.size', 'L.length') and not tr):
                empty = True
        if not empty:
            bad.append([t_ for t_, tr in facts][-2:])
    chk.decide(not bad, 'whole-property-coverage', 'remove_particles:every-listed-particle-is-removed', node=fn, file=PA, func='remove_particles',
               detail_bad='a path leaves remove_particles without removing anything although the list of indices is not known to be empty (tests on the way: %s): a shortcut on the '
                          'values of the indices (any(), sum(), truth of an array) is false for the list [0], so the particle stored first is never removed' % (bad[0] if bad else ''),
               detail_ok='%d CPU paths: the listed entries are removed from every property unless the list is empty' % n)


def compact_(t):
    return U(t).replace(' ', '')


def rule_indices_as_given(chk, cls, module):
    """extract_particles copies the particles in the order the caller lists them (destination order is part of the contract: the callers pair the extracted particles with
    per-particle offsets computed in the same order, and extracting [4, 1, 3] gives particles 4, 1, 3): the index array handed to copy_values is the `indices` argument itself
    or a plain conversion of it (asarray / ravel / astype) - never sorted, made unique or passed through a set"""
    fn0 = M.methods(cls).get('extract_particles')
    if fn0 is None:
        raise AnalysisError('ParticleArray.extract_particles vanished')
    fn = M.inline_helpers(cls, fn0, keep=set(n_ for n_ in M.methods(cls) if not n_.startswith('_')), module=module)
    M.set_parents(fn)
    REORDER = ('unique', 'sort', 'sorted', 'set', 'argsort', 'frozenset', 'flip', 'flipud', 'roll')
    PLAIN = ('asarray', 'array', 'ravel', 'astype', 'ascontiguousarray', 'LongArray', 'set_data', 'get_npy_array', 'isinstance', 'len')
    bad = []
    n = 0
    # every value that reaches the index array: follow `indices` through the assignments of the function
    tainted = set(['indices'])
    changed = True
    while changed:
        changed = False
        for a in ast.walk(fn):
            if isinstance(a, ast.Assign) and len(a.targets) == 1 and isinstance(a.targets[0], ast.Name) and any(isinstance(x, ast.Name) and x.id in tainted for x in ast.walk(a.value)):
                if a.targets[0].id not in tainted:
                    tainted.add(a.targets[0].id)
                    changed = True
            if isinstance(a, ast.AnnAssign) and isinstance(a.target, ast.Name) and a.value is not None and any(isinstance(x, ast.Name) and x.id in tainted for x in ast.walk(a.value)):
                if a.target.id not in tainted:
                    tainted.add(a.target.id)
                    changed = True
            if isinstance(a, ast.Expr) and isinstance(a.value, ast.Call) and isinstance(a.value.func, ast.Attribute) and a.value.func.attr == 'set_data' and isinstance(a.value.func.value, ast.Name) \
                    and any(isinstance(x, ast.Name) and x.id in tainted for x in ast.walk(a.value)):
                if a.value.func.value.id not in tainted:
                    tainted.add(a.value.func.value.id)
                    changed = True
    for c in M.calls(fn):
        nm = (M.call_name(c) or '').split('.')[-1]
        if nm in REORDER and any(isinstance(x, ast.Name) and x.id in tainted for a_ in list(c.args) + [k.value for k in c.keywords] for x in ast.walk(a_)):
            bad.append('%s at line %d' % (U(c)[:60], getattr(c, 'src_lineno', c.lineno)))
        if isinstance(c.func, ast.Attribute) and c.func.attr in ('sort',) and isinstance(c.func.value, ast.Name) and c.func.value.id in tainted:
            bad.append('%s at line %d' % (U(c)[:60], getattr(c, 'src_lineno', c.lineno)))
    cv = [c for c in M.calls(fn) if isinstance(c.func, ast.Attribute) and c.func.attr == 'copy_values' and c.args and isinstance(c.args[0], ast.Name) and c.args[0].id in tainted]
    chk.decide(bool(cv) and not bad, 'whole-property-coverage', 'extract_particles:indices-used-as-given', node=fn0, file=PA, func='extract_particles',
               detail_bad='%s: the particles are extracted in another order than asked for (or an index given twice only once) - callers that compute per-particle data in the order of '
                          'their index list (offsets of ghost images, values to put into the extracted array) attach them to the wrong particles' % ('; '.join(bad) if bad else 'the index array passed to copy_values does not come from `indices`'),
               detail_ok='indices converted (asarray / LongArray.set_data) and passed to copy_values unchanged')


def rule_property_loops_complete(chk, cls):
    """a loop over the properties of an array handles every property: it is not inside a try block whose handler swallows an exception raised for one property (a missing key,
    say) - the loop would end there and the remaining properties stay untouched; a handler belongs inside the loop body"""
    n = 0
    for name, fn in sorted(M.methods(cls).items()):
        M.set_parents(fn)
        for loop in [l for l in ast.walk(fn) if isinstance(l, ast.For) and ('.properties' in U(l.iter) or 'prop_names' in U(l.iter))]:
            tr = M.enclosing(loop, (ast.Try,))
            if tr is None or not any(loop is x for st in tr.body for x in ast.walk(st)):
                continue
            n += 1
            swallowing = [h for h in tr.handlers if not any(isinstance(x, ast.Raise) for x in ast.walk(h))]
            chk.decide(not swallowing, 'whole-property-coverage', '%s:property-loop-inside-a-swallowing-try@%d' % (name, getattr(loop, 'src_lineno', loop.lineno)), node=loop, file=PA, func=name,
                       detail_bad='the loop over the properties sits inside `try: ... except %s: pass`: the first property that raises ends the loop, the properties after it are not '
                                  'handled (copy_properties: a source property the destination lacks stops the copy of all later shared properties)' % (U(swallowing[0].type) if swallowing and swallowing[0].type is not None else ''),
                       detail_ok='handler re-raises')
    chk.unit('property loops inside try blocks', n)


def rule_count_from_data(chk, cls):
    """add_particles / add_property: where the number of particles is read off the length of the data given for a property, the length is divided by the stride of that
    same property (len(data) // stride): the data of a strided property holds stride values per particle"""
    n = 0
    for name in ('add_particles', 'add_property'):
        fn = M.methods(cls).get(name)
        if fn is None:
            raise AnalysisError('ParticleArray.%s vanished' % name)
        M.set_parents(fn)
        for c in M.calls(fn):
            if M.call_name(c) != 'len' or len(c.args) != 1:
                continue
            a0 = c.args[0]
            key = None
            if isinstance(a0, ast.Subscript) and isinstance(a0.value, ast.Name) and a0.value.id == 'particle_props':
                key = U(a0.slice)
            elif isinstance(a0, ast.Name) and a0.id == 'data' and name == 'add_property':
                key = None if False else 'prop_name'
            else:
                continue
            par = c.parent
            # a length that is only probed (`len(data)` as a statement), tested (any comparison, `% stride`) or that sizes a carray of *values* is not a particle count
            anc, skip = c, False
            while not isinstance(anc, ast.stmt):
                up = anc.parent
                if isinstance(up, ast.Compare) or (isinstance(up, ast.BinOp) and isinstance(up.op, ast.Mod)) or \
                        (isinstance(up, (ast.Call, ast.keyword)) and up is not c and not (isinstance(up, ast.Call) and (M.call_name(up) or '') in ('int', 'max', 'min'))):
                    skip = True
                anc = up
            if skip or (isinstance(anc, ast.Expr) and anc.value is c):
                continue
            n += 1
            ok = False
            if isinstance(par, ast.BinOp) and isinstance(par.op, ast.FloorDiv) and par.left is c:
                refs = stride_refs(fn, par.right, c)
                if name == 'add_property':
                    ok = bool(refs) or (isinstance(par.right, ast.Name) and par.right.id == 'stride')       # the stride parameter of the property being added
                else:
                    ok = any(sk[0] == key or names_equiv(fn, sk[0], key) for sk in refs)
            chk.decide(ok, 'stride-discipline', '%s:particles-from-len(%s)@%d' % (name, U(a0), n), node=c, file=PA, func=name,
                       detail_bad='%s is used as a number of particles without dividing by the stride of that property: given a strided property the array grows by stride times too '
                                  'many particles for every property not passed (tag, pid, gid ...), whose lengths then disagree with the ones passed' % U(par if isinstance(par, ast.expr) else c),
                       detail_ok='len(data) // stride of the same property')
    chk.floor('particle counts read off data lengths', n, 2)


def rule_initialize_model(chk):
    """ParticleArray._initialize (what the constructor and the npz reader build arrays through) interpreted (E8, lowered Cython) on model property sets: the number of particles
    is the largest count over the properties given - len(data) // stride for a strided one -, a property given as a single value is spread over that many particles and nothing
    else is touched; every property is then added with the data, stride, type and default it was given (shared with C11: the npz reader hands over dictionaries)"""
    from verif_static import emit as EM, absint as AI
    t = M.cy(PA)
    fn = M.find_method(t, 'ParticleArray', '_initialize')

    class Spread(object):
        def __init__(self, n):
            self.n = n

        def __mul__(self, o):
            return ('spread over', self.n, list(o) if isinstance(o, (list, tuple)) else o)
        __rmul__ = __mul__

        def __hash__(self):
            return id(self)
    saved = dict((k, AI.EXTERNAL_CALLS.get(k)) for k in ('numpy.ravel', 'numpy.ones', 'numpy.asarray', 'numpy.array'))
    AI.EXTERNAL_CALLS['numpy.ravel'] = lambda i, a, k, n, e: list(a[0]) if isinstance(a[0], (list, tuple)) else [a[0]]
    AI.EXTERNAL_CALLS['numpy.asarray'] = AI.EXTERNAL_CALLS['numpy.array'] = lambda i, a, k, n, e: list(a[0]) if isinstance(a[0], (list, tuple)) else a[0]
    AI.EXTERNAL_CALLS['numpy.ones'] = lambda i, a, k, n, e: Spread(a[0])
    # (in the lowered Cython module `numpy` is both cimported and imported: the second spelling of the same functions)
    for k_ in ('ravel', 'ones', 'asarray', 'array'):
        saved["__import__('numpy')." + k_] = AI.EXTERNAL_CALLS.get("__import__('numpy')." + k_)
        AI.EXTERNAL_CALLS["__import__('numpy')." + k_] = AI.EXTERNAL_CALLS['numpy.' + k_]
    CASES = [
        ('one particle with a strided property (dictionaries, as the npz reader passes them)',
         {'x': {'data': [7.0]}, 'A': {'data': [1.0, 2.0, 3.0], 'stride': 3, 'type': 'double', 'default': 0.5}, 'tag': {'data': [0], 'type': 'int'}},
         {'x': {'data': [7.0]}, 'A': {'data': [1.0, 2.0, 3.0], 'stride': 3, 'type': 'double', 'default': 0.5}, 'tag': {'data': [0], 'type': 'int'}}),
        ('two particles, a strided property and a single value',
         {'A': {'data': [1, 2, 3, 4, 5, 6], 'stride': 3}, 'x': {'data': [9.0]}},
         {'A': {'data': [1, 2, 3, 4, 5, 6], 'stride': 3}, 'x': {'data': ('spread over', 2, [9.0])}}),
        ('plain sequences, one of them a single value', {'x': [1.0, 2.0, 3.0], 'm': [5.0]},
         {'x': {'data': [1.0, 2.0, 3.0]}, 'm': {'data': ('spread over', 3, [5.0])}}),
        ('a dictionary without data', {'x': [1.0, 2.0], 'p': {'type': 'int', 'default': 4}}, {'x': {'data': [1.0, 2.0]}, 'p': {'type': 'int', 'default': 4}}),
    ]
    bad, und, nrun = None, None, 0
    try:
        for what, given, want in CASES:
            it = EM.interpreter()
            EM.model_module(it, '<pa>', t)
            it.mods['<pa>'][1]['numpy'] = AI.External('numpy')        # however the lowered module spells its import of numpy
            it.mods['<pa>'][1]['np'] = AI.External('numpy')
            calls = {}

            def addp(i, a, k, n, e):
                kw = dict(k)
                for nm_, v_ in zip(('name', 'type', 'default', 'data', 'stride'), a):
                    kw[nm_] = v_
                calls[kw.pop("name", repr(sorted(kw)))] = kw
                return None
            import copy as _cp
            pa = EM.instance(it, '<pa>', 'ParticleArray', clear=lambda i, a, k, n, e: None, add_property=addp, align_particles=lambda i, a, k, n, e: None, name='model')
            try:
                EM.call(it, pa, '_initialize', **_cp.deepcopy(given))
            except (AI.Unsupported, AI.Raised) as ex:
                if getattr(ex, 'raised', None) is not None or isinstance(ex, AI.Raised):
                    bad = bad or (what, 'raises %s' % ex, want)
                    continue
                und = '%s: %s' % (what, ex)
                break
            nrun += 1
            got = dict((k_, dict((a_, b_) for a_, b_ in v_.items() if a_ != 'name')) for k_, v_ in calls.items())
            if got != want and bad is None:
                bad = (what, got, want)
    finally:
        for k, v in saved.items():
            if v is None:
                AI.EXTERNAL_CALLS.pop(k, None)
            else:
                AI.EXTERNAL_CALLS[k] = v
    if und:
        chk.undecided('whole-property-coverage', '_initialize:model-run', node=fn, file=PA, func='_initialize', detail='not interpretable on the model: ' + und)
    else:
        chk.decide(bad is None, 'whole-property-coverage', '_initialize:model-run', node=fn, file=PA, func='_initialize',
                   detail_bad='%s: the properties are added as %s, expected %s' % (bad or ('', '', '')), detail_ok='%d model property sets' % nrun)


def main(chk):
    chk.explanation = ('Structural coherence rules over every method of ParticleArray (Cython parse tree lowered to ast): '
                       'per-property maps kept in step on delete/rebind/insert, every sized operation scaled by the stride '
                       'of the same key, count-changing mutators visit all properties on all paths, alignment after count '
                       'changes (CFG must-pass), pickle record keys agree with add_property/add_constant.')
    t = M.cy(PA)
    cls = M.find_class(t, 'ParticleArray')
    chk.unit('functions analysed', len(M.methods(cls)))
    chk.floor('ParticleArray methods', len(M.methods(cls)), 45)
    rule_maps(chk, cls)
    rule_stride(chk, cls)
    rule_coverage(chk, cls)
    rule_align(chk, cls)
    rule_pickle(chk, cls)
    rule_particles_info(chk)
    rule_slices_from_counts(chk, cls)
    rule_replicate(chk, cls)
    rule_tag_scans(chk, cls)
    rule_storage(chk, cls)
    rule_sorted_removal(chk, cls)
    rule_count(chk, cls)
    rule_append_offsets(chk, cls)
    rule_ensure_model(chk)
    rule_empty_clone_model(chk)
    rule_default_kept(chk, cls)
    rule_count_from_data(chk, cls)
    rule_typed_creation(chk, cls)
    rule_removal_exits(chk, cls)
    rule_indices_as_given(chk, cls, t)
    rule_property_loops_complete(chk, cls)
    rule_initialize_model(chk)
    # align_particles keeps its index array a permutation (rule shared with C16, which relies on it after removals)
    import importlib.util
    spec = importlib.util.spec_from_file_location('c16mod', os.path.join(os.path.dirname(os.path.abspath(__file__)), 'c16.py'))
    c16 = importlib.util.module_from_spec(spec)
    spec.loader.exec_module(c16)
    c16.rule_alignment(chk)
    chk.assume('carray methods (resize/remove/c_align_array/copy_values/copy_subset) from the cyarray package behave as documented')
    chk.assume('GPU helper paths (self.gpu...) are out of scope')
    chk.note('__reduce__ does not persist output_property_arrays (a pickled array loses its output list); '
             'not judged by these rules')


if __name__ == '__main__':
    run_check('C06', main)
