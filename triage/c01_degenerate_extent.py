"""Triage only (not a check): every CPU NNPS class on point sets with zero extent along one axis (x all equal / y all equal), against brute force.
Run: cd /verif/triage && timeout 300 /venv/bin/python c01_degenerate_extent.py [ClassName]"""
import _overlay
import sys, itertools
import numpy as np
from pysph.base.utils import get_particle_array
from pysph.base import nnps as N
from cyarray.api import UIntArray
rng = np.random.default_rng(5)
def arrays(kind, m=300):
    a = rng.random(m); b = rng.random(m); zero = np.zeros(m)
    x, y, z = {'yz-plane': (zero + 0.25, a, b), 'xz-plane': (a, zero, b), 'xy-plane': (a, b, zero), 'y-line': (zero, a, zero), 'z-line': (zero, zero, a), 'x-line': (a, zero, zero)}[kind]
    h = 0.04 * (1 + rng.random(m)) if 'plane' in kind else 0.01 * (1 + rng.random(m))
    return [get_particle_array(name='a0', x=x, y=y, z=z, h=h)]
def brute(pas, i, rs=2.0):
    S = pas[0]
    X = np.c_[S.x, S.y, S.z]; xi = X[i]
    dist = np.linalg.norm(X - xi, axis=1)
    return set(np.where((dist < rs * S.h[i]) | (dist < rs * S.h))[0].tolist())
names = sys.argv[1:] or ['LinkedListNNPS', 'BoxSortNNPS', 'DictBoxSortNNPS', 'SpatialHashNNPS', 'ExtendedSpatialHashNNPS', 'CellIndexingNNPS', 'ZOrderNNPS', 'ExtendedZOrderNNPS',
                         'StratifiedHashNNPS', 'StratifiedSFCNNPS', 'OctreeNNPS', 'CompressedOctreeNNPS']
fail = 0
for name in names:
    for kind in ('yz-plane', 'xz-plane', 'xy-plane', 'y-line', 'z-line', 'x-line'):
        pas = arrays(kind)
        nn = getattr(N, name)(dim=3, particles=pas, radius_scale=2.0)
        bad = dup = 0
        for i in range(0, 300, 3):
            nb = UIntArray(); nn.get_nearest_particles(0, 0, i, nb)
            got = nb.get_npy_array().tolist()
            if len(got) != len(set(got)):
                dup += 1
            if set(got) != brute(pas, i):
                bad += 1
        if bad or dup:
            fail += 1
        print('%-26s %-9s wrong sets %3d  lists with duplicates %3d' % (name, kind, bad, dup))
sys.exit(1 if fail else 0)
