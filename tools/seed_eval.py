#!/venv/bin/python
"""Confirm a seeded change and run the property's check against it.

  tools/seed_eval.py <dir with patch.diff, demo.py, meta.json> [--keep <seeded id>]

Steps (all in a scratch worktree of /repo HEAD under /tmp, removed afterwards):
  clean tree: demo must exit 0;  patched tree: (rebuild extensions named in meta.rebuild) demo must exit != 0,
  baseline test-suite must still give 55 passed;  then the patch is applied to /repo, the property's quick and
  thorough checks are run, and /repo is restored (git checkout -- .).
With --keep the artefacts + a meta.json are copied to /verif/seeded/<id>/.
"""
import json, os, shutil, subprocess, sys, tempfile
d = os.path.abspath(sys.argv[1])
keep = sys.argv[sys.argv.index('--keep') + 1] if '--keep' in sys.argv else None
meta = json.load(open(os.path.join(d, 'meta.json')))
pid = meta['property']
wt = tempfile.mkdtemp(prefix='sv_')
os.rmdir(wt)
ext = wt + '_ext'
def sh(cmd, **kw):
    return subprocess.run(cmd, shell=True, stdout=subprocess.PIPE, stderr=subprocess.STDOUT, text=True, **kw)
res = {'property': pid, 'summary': meta.get('summary'), 'needs': meta.get('needs'), 'files': meta.get('files'), 'ran': []}
try:
    sh('git -C /repo worktree add -q --detach %s HEAD' % wt)
    env = dict(os.environ, PYSPH_SRC=wt, PYTHONPATH='/tmp/agent_tools')
    if meta.get('rebuild'):
        # the pre-built reference extensions predate the fix: commits; build the clean tree's own
        r = sh('timeout 1500 /venv/bin/python /tmp/agent_tools/build_ext.py %s %s %s' % (wt, ext + '_clean', ' '.join(meta['rebuild'])))
        env['PYSPH_EXT'] = ext + '_clean/lib'
        res['ran'].append('clean worktree: rebuilt %s -> exit %d' % (meta['rebuild'], r.returncode))
    r = sh('timeout 300 /venv/bin/python %s/demo.py' % d, env=env, cwd=wt)
    res['demo_clean_rc'] = r.returncode
    res['ran'].append('clean worktree: demo.py -> exit %d' % r.returncode)
    r = sh('git -C %s apply %s/patch.diff' % (wt, d))
    if r.returncode != 0:
        res['apply_error'] = r.stdout[-300:]
    rebuild = meta.get('rebuild') or []
    if rebuild:
        r = sh('timeout 1500 /venv/bin/python /tmp/agent_tools/build_ext.py %s %s %s' % (wt, ext, ' '.join(rebuild)))
        res['ran'].append('rebuilt %s -> exit %d' % (rebuild, r.returncode))
        env['PYSPH_EXT'] = ext + '/lib'
    r = sh('timeout 300 /venv/bin/python %s/demo.py' % d, env=env, cwd=wt)
    res['demo_patched_rc'] = r.returncode
    res['demo_patched_tail'] = r.stdout.strip().splitlines()[-3:]
    res['ran'].append('patched worktree: demo.py -> exit %d' % r.returncode)
    r = sh('cd %s && timeout 900 /venv/bin/python -m pytest -q -p no:cacheprovider --timeout=900 --continue-on-collection-errors 2>&1 | tail -1' % wt)
    res['tests'] = r.stdout.strip()
    res['ran'].append('patched worktree: baseline pytest -> %s' % r.stdout.strip())
    # run the checks against the patched scratch worktree (VERIF_REPO), so that /repo stays untouched while other work goes on;
    # tools/seed_recheck.py re-runs every kept seed with the patch applied to /repo itself
    for tier in ('quick',):
        r = sh('cd /verif && VERIF_REPO=%s VERIF_EVIDENCE_DIR=%s_ev timeout 900 ./check %s --tier %s' % (wt, wt, pid, tier))
        res['check_%s_rc' % tier] = r.returncode
        res['check_%s_violations' % tier] = [l.strip() for l in r.stdout.splitlines() if l.startswith('  ') and ' at ' in l and 'rule ' not in l[:7]][:6]
        res['ran'].append('patched worktree: VERIF_REPO=<worktree> ./check %s --tier %s -> exit %d' % (pid, tier, r.returncode))
finally:
    sh('git -C /repo worktree remove --force %s' % wt)
    shutil.rmtree(ext, ignore_errors=True)
    shutil.rmtree(ext + '_clean', ignore_errors=True)
    shutil.rmtree(wt + '_ev', ignore_errors=True)
ok = res.get('demo_clean_rc') == 0 and res.get('demo_patched_rc', 0) != 0 and '55 passed' in res.get('tests', '')
res['confirmed'] = ok
res['detected'] = res.get('check_quick_rc') == 1 or res.get('check_thorough_rc') == 1
print(json.dumps(res, indent=1))
if keep and ok:
    out = os.path.join('/verif/seeded', keep)
    os.makedirs(out, exist_ok=True)
    for f in ('patch.diff', 'demo.py'):
        shutil.copy(os.path.join(d, f), os.path.join(out, f))
    m = {'property': pid, 'breaks': meta.get('summary'), 'needs_to_manifest': meta.get('needs'), 'files': meta.get('files'),
         'rebuild': meta.get('rebuild') or [], 'confirmed_by': res['ran'], 'demo_patched_output': res.get('demo_patched_tail'),
         'detected_by_check': res['detected'], 'check_reports': res.get('check_quick_violations') or res.get('check_thorough_violations'),
         'how_to_run_demo': 'PYSPH_SRC=<tree> PYTHONPATH=/tmp/agent_tools (overlay.py, a copy is in /verif/seeded/tools) /venv/bin/python demo.py'}
    json.dump(m, open(os.path.join(out, 'meta.json'), 'w'), indent=1)
