"""Triage only (not a check): ExtendedZOrderNNPS against brute force for H x asymmetric x uniform/variable h (the default H=3, symmetric, variable h missed neighbours before fix 0a2ffed).
Run: cd /verif/triage && timeout 900 /venv/bin/python c01_extended_zorder_variable_h.py"""
import sys
import _overlay
import numpy as np
from pysph.base.utils import get_particle_array
from pysph.base import nnps as N
from cyarray.api import UIntArray
def brute(S, i, rs=2.0):
    X = np.c_[S.x, S.y, S.z]; xi = X[i]
    dist = np.linalg.norm(X - xi, axis=1)
    return set(np.where((dist < rs * S.h[i]) | (dist < rs * S.h))[0].tolist()), dist
for dim in (2,3):
  for hv in ('uniform','variable'):
    for H in (1,2,3):
      for asym in (False, True):
        bad=0; ex=None
        for seed in range(4):
            rng=np.random.default_rng(seed)
            m=400
            x=rng.random(m); y=rng.random(m); z=rng.random(m) if dim==3 else np.zeros(m)
            h=np.full(m,0.04 if dim==2 else 0.08) if hv=='uniform' else (0.04 if dim==2 else 0.08)*(1+rng.random(m))
            a=get_particle_array(name='a',x=x,y=y,z=z,h=h)
            nn=N.ExtendedZOrderNNPS(dim=dim,particles=[a],radius_scale=2.0,H=H,asymmetric=asym)
            for i in range(m):
                nb=UIntArray(); nn.get_nearest_particles(0,0,i,nb)
                got=set(nb.get_npy_array().tolist()); want,dist=brute(a,i)
                if got!=want:
                    bad+=1
                    if ex is None:
                        miss=sorted(want-got); extra=sorted(got-want)
                        ex=(seed,i,miss[:3],extra[:3],[round(float(dist[j]),4) for j in miss[:3]],round(float(h[i]),4),[round(float(h[j]),4) for j in miss[:3]])
        print(dim,hv,'H=%d'%H,'asym=%s'%asym,'bad lists',bad,ex)
