"""C16 - inlets and outlets move each particle across exactly once (static rules, DESIGN.md C16)."""
import ast
import glob
import os
import sys

sys.path.insert(0, os.path.dirname(os.path.dirname(os.path.abspath(__file__))))
from verif_static.core import run_check, AnalysisError, REPO  # noqa
from verif_static.norm import same, same_stmt, local_defs, inline, canon  # noqa
from verif_static import model as M, cfg as C  # noqa

IOM = 'pysph/sph/bc/inlet_outlet_manager.py'
FAMILIES = ('donothing', 'mirror', 'hybrid', 'characteristic', 'mod_donothing')
AXIS_N = {'x': 'xn', 'y': 'yn', 'z': 'zn'}


def U(n):
    return M.unparse(n)


def compact(n):
    return U(n).replace(' ', '')


def pos(n):
    return (n.lineno, n.col_offset)


def reaching_def(fn, name, at):
    best = None
    for a in ast.walk(fn):
        if isinstance(a, ast.Assign) and any(isinstance(t, ast.Name) and t.id == name for t in a.targets) and pos(a) < pos(at):
            if best is None or pos(a) > pos(best):
                best = a
    return best


def index_origin(fn, e, at):
    """(array, code, def node) when index expression e is `np.where(<array>.ioid == code)[0]` through local names"""
    if isinstance(e, ast.Name):
        d = reaching_def(fn, e.id, at)
        if d is None:
            return None
        r = index_origin(fn, d.value, d)
        if r is None:
            return None
        return (r[0], r[1], r[2] if r[2] is not None else d)
    if isinstance(e, ast.Subscript) and compact(e.slice) == '0' and isinstance(e.value, ast.Call) and M.call_name(e.value) in ('np.where', 'numpy.where'):
        return index_origin(fn, e.value.args[0], at)
    if isinstance(e, ast.Compare) and len(e.ops) == 1 and isinstance(e.ops[0], ast.Eq) and isinstance(e.comparators[0], ast.Constant):
        src = index_origin(fn, e.left, at)
        if src is not None and src[1] is None:
            return (src[0], e.comparators[0].value, None)
        return None
    if isinstance(e, ast.Attribute) and e.attr == 'ioid':
        return (compact(e.value), None, None)
    return None


def index_def(fn, e, at):
    """identity of the definition that an index name refers to at this point"""
    if isinstance(e, ast.Name):
        d = reaching_def(fn, e.id, at)
        # a plain copy (`indices = left_inlet`, e.g. the parameter of a helper written back in place) refers to what the copied name referred to
        k = 0
        while d is not None and isinstance(d.value, ast.Name) and k < 6:
            d2 = reaching_def(fn, d.value.id, d)
            if d2 is None:
                break
            d, k = d2, k + 1
        return d
    return e


# the array attributes of the update classes; the rules below speak of them by these names whether update() reads them directly or through a local of any name
ARRAY_ATTRS = ('inlet_pa', 'dest_pa', 'ghost_pa', 'source_pa', 'outlet_pa')
KEEP_UPD = ('__init__', 'initialize', 'update', '_init', 'callback', '_create_io_eval')


def upd_of(cls):
    """the update method of an inlet / outlet class with the private helpers it was split into inlined again"""
    ic = M.inlined_class(cls, keep=set(KEEP_UPD) | set(n_ for n_ in M.methods(cls) if not n_.startswith('_')))
    ic = M.self_aliases_inlined_deep(ic, back_to_names=ARRAY_ATTRS)
    return M.methods(ic).get('update')


def rule_fresh(chk, rel, cls, fn):
    who = '%s.%s' % (cls.name, fn.name)
    g = C.build_cfg(fn)

    def stmt_nodes(pred):
        return [n.id for n in g.nodes if n.ast is not None and isinstance(n.ast, (ast.Expr, ast.Assign)) and pred(n.ast)]
    upd = stmt_nodes(lambda a: any(M.call_name(c) == 'self.io_eval.update' for c in M.calls(a)))
    ev = stmt_nodes(lambda a: any(M.call_name(c) == 'self.io_eval.evaluate' for c in M.calls(a)))
    reads = stmt_nodes(lambda a: any(isinstance(x, ast.Attribute) and x.attr == 'ioid' for x in ast.walk(a)))
    ok = bool(upd and ev and reads) and g.dominates(upd[0], ev[0]) and all(g.dominates(ev[0], r) for r in reads)
    chk.decide(ok, 'zone-ids-fresh', '%s:%s' % (rel.split('/')[-2], who), node=fn, file=rel, func=who,
               detail_bad='zone ids (.ioid) are read without io_eval.update(); io_eval.evaluate() first in the same call: particles are moved according to the '
                          'zones of an earlier time', detail_ok='update(); evaluate() dominate every ioid read')
    crt = stmt_nodes(lambda a: isinstance(a, ast.Assign) and compact(a.targets[0]) == 'self.io_eval' and 'self._create_io_eval()' in compact(a.value))
    chk.decide(bool(crt) and bool(upd) and g.dominates(crt[0], upd[0]), 'zone-ids-fresh', '%s:%s:evaluator' % (rel.split('/')[-2], who), node=fn, file=rel, func=who,
               detail_bad='evaluator not created before use', detail_ok='created first')


def rule_lazy_geometry(chk, rel, cls, fn, base):
    """the zone geometry (length, normal, origin) is filled in lazily by initialize() on the first update: nothing in update() may read an attribute that initialize() sets at a
    point from which the initialize() call is still to come - the first update would recycle / classify with the constructor's zeros"""
    who = '%s.%s' % (cls.name, fn.name)
    fam = rel.split('/')[-2]
    init = M.methods(cls).get('initialize') or M.methods(base).get('initialize')
    if init is None:
        raise AnalysisError('%s: initialize() vanished' % cls.name)
    written = set()
    for a in ast.walk(init):
        tg = []
        if isinstance(a, ast.Assign):
            tg = a.targets
        elif isinstance(a, (ast.AugAssign, ast.AnnAssign)):
            tg = [a.target]
        for t_ in tg:
            for x in ast.walk(t_):
                if isinstance(x, ast.Attribute) and isinstance(x.value, ast.Name) and x.value.id == 'self' and isinstance(x.ctx, ast.Store):
                    written.add(x.attr)
    g = C.build_cfg(fn)

    def head(n):
        a = n.ast
        if n.kind == 'test':
            return a.test
        if n.kind == 'loop':
            return a.iter if isinstance(a, ast.For) else a.test
        return a if isinstance(a, (ast.Assign, ast.AugAssign, ast.AnnAssign, ast.Expr, ast.Return)) else None
    calls = [n.id for n in g.nodes if n.ast is not None and head(n) is not None and any(M.call_name(c) == 'self.initialize' for c in M.calls(head(n)))]
    if not calls:
        chk.violated('inlet-move' if 'Inlet' in base.name else 'outlet-move', '%s:%s:geometry-initialised' % (fam, who), node=fn, file=rel, func=who,
                     detail='update() never calls self.initialize(): the zone length and normal stay at the constructor\'s zeros')
        return
    stale = []
    for n in g.nodes:
        h = head(n) if n.ast is not None else None
        if h is None or n.id in calls:
            continue
        rd = sorted(set(x.attr for x in ast.walk(h) if isinstance(x, ast.Attribute) and isinstance(x.value, ast.Name) and x.value.id == 'self'
                        and isinstance(x.ctx, ast.Load) and x.attr in written))
        if rd and any(c in g.reachable(n.id) for c in calls):
            stale.append((getattr(h, 'lineno', 0), rd))
    chk.decide(not stale, 'inlet-move' if 'Inlet' in base.name else 'outlet-move', '%s:%s:geometry-read-after-lazy-initialise' % (fam, who), node=fn, file=rel, func=who,
               detail_bad='%s read(s) what initialize() sets (%s) at a point from which the lazy self.initialize() call is still to come: on the first update the value is the '
                          'constructor\'s 0.0, so the recycled particles are not moved / the zones are classified with a zero length' % (stale, sorted(written)),
               detail_ok='every read of %s comes after the lazy initialize()' % sorted(written))


def rule_inlet(chk, rel, cls, fn):
    who = '%s.%s' % (cls.name, fn.name)
    fam = rel.split('/')[-2]
    ex = [c for c in M.calls(fn) if isinstance(c.func, ast.Attribute) and c.func.attr == 'extract_particles']
    if len(ex) != 1:
        chk.violated('inlet-move', '%s:%s:copy-once' % (fam, who), node=fn, file=rel, func=who, detail='%d extract_particles calls (expected exactly one copy into the fluid)' % len(ex))
        return
    e = ex[0]
    src = compact(e.func.value)
    dst = compact(e.args[1]) if len(e.args) > 1 else next((compact(k.value) for k in e.keywords if k.arg == 'dest_array'), None)
    o = index_origin(fn, e.args[0], e)
    idef = index_def(fn, e.args[0], e)
    chk.decide(src == 'inlet_pa' and dst == 'dest_pa', 'inlet-move', '%s:%s:copy-direction' % (fam, who), node=e, file=rel, func=who,
               detail_bad='particles are copied from %s into %s (expected inlet -> fluid)' % (src, dst), detail_ok='inlet_pa -> dest_pa')
    chk.decide(o is not None and o[0] == 'inlet_pa' and o[1] == 0, 'inlet-move', '%s:%s:who-moves' % (fam, who), node=e, file=rel, func=who,
               detail_bad='the moved set is %s; expected the inlet particles whose zone id is 0 (they left the inlet zone into the fluid)' % (o,),
               detail_ok='inlet particles with ioid == 0')
    # recycle: same index set, same axis, +length*normal
    shifts = {}
    for a in ast.walk(fn):
        if isinstance(a, ast.AugAssign) and isinstance(a.target, ast.Subscript) and isinstance(a.target.value, ast.Attribute) and a.target.value.attr in AXIS_N:
            arr = compact(a.target.value.value)
            ax = a.target.value.attr
            same_idx = index_def(fn, a.target.slice, a) is idef
            from verif_static import norm as N_
            val = compact(a.value)
            want = 'self.length*self.%s' % AXIS_N[ax]
            sign = '+' if isinstance(a.op, ast.Add) else '-' if isinstance(a.op, ast.Sub) else '?'
            shifts[(arr, ax)] = (sign, N_.same(N_.inline(a.value, N_.local_defs([fn])), want), same_idx, a, val)
    for ax in 'xyz':
        s = shifts.get(('inlet_pa', ax))
        ok = s is not None and s[0] == '+' and s[1] and s[2]
        chk.decide(ok, 'inlet-move', '%s:%s:recycle-%s' % (fam, who, ax), node=s[3] if s else fn, file=rel, func=who,
                   detail_bad='the copied inlet particles are not moved one zone length upstream on %s (found %s%s on the %s index set)' % (
                       ax, s[0] if s else None, s[4] if s else None, 'same' if s and s[2] else 'a different'),
                   detail_ok='inlet_pa.%s[idx] += length*%s on the copied set' % (ax, AXIS_N[ax]))
        s = shifts.get(('ghost_pa', ax))
        if s is not None:
            gi = M.enclosing(s[3], (ast.If,))
            ok = s[0] == '-' and s[1] and s[2] and gi is not None and compact(gi.test) == 'ghost_pa'
            chk.decide(ok, 'inlet-move', '%s:%s:ghost-%s' % (fam, who, ax), node=s[3], file=rel, func=who,
                       detail_bad='ghost of the inlet is not shifted by -length*%s on the same set' % AXIS_N[ax], detail_ok='ghost_pa.%s[idx] -= length*%s' % (ax, AXIS_N[ax]))
    rm = [c for c in M.calls(fn) if isinstance(c.func, ast.Attribute) and c.func.attr in ('remove_particles', 'remove_tagged_particles')]
    chk.decide(not rm, 'inlet-move', '%s:%s:nothing-removed' % (fam, who), node=rm[0] if rm else fn, file=rel, func=who,
               detail_bad='an inlet update removes particles (%s): inlet particles are recycled, never deleted' % (U(rm[0]) if rm else ''), detail_ok='no removal')
    g = C.build_cfg(fn)
    en = None
    for n in g.nodes:
        if n.ast is not None and isinstance(n.ast, (ast.Expr, ast.Assign)) and any(e is x for x in ast.walk(n.ast)):
            en = n.id
    sh = [g.node_of(s[3]) for (arr, ax), s in shifts.items() if arr == 'inlet_pa']
    # whenever particles are copied into the fluid, the originals are recycled along all three axes (the normal need not be parallel to an axis): no test decides whether a
    # coordinate is shifted
    miss_ = [ax for (arr, ax), s_ in sorted(shifts.items()) if arr == 'inlet_pa' and (en is None or g.node_of(s_[3]) is None or not g.must_pass(en, g.exit, [g.node_of(s_[3])]))]
    chk.decide(en is not None and not miss_, 'inlet-move', '%s:%s:recycle-on-every-path' % (fam, who), node=shifts[('inlet_pa', miss_[0])][3] if miss_ else fn, file=rel, func=who,
               detail_bad='after the copy a path reaches the end of update() without shifting %s of the originals (the shift sits under a test): with a normal that is not parallel to '
                          'an axis the originals are recycled only part of a zone length and cross the interface again too early' % miss_,
               detail_ok='x, y and z shifted on every path after the copy')
    # the fluid array stays aligned: the copy goes through extract_particles' own alignment, the real-particle count of the destination is never set by hand
    noal = [U(k_.value) for k_ in e.keywords if k_.arg == 'align' and not (isinstance(k_.value, ast.Constant) and k_.value.value is True)]
    byhand = [c_ for c_ in M.calls(fn) if isinstance(c_.func, ast.Attribute) and c_.func.attr in ('set_num_real_particles',)]
    chk.decide(not noal and not byhand, 'inlet-move', '%s:%s:fluid-stays-aligned' % (fam, who), node=byhand[0] if byhand else e, file=rel, func=who,
               detail_bad='the copy is made with align=%s%s: non-Local particles that sit behind the real ones of the fluid array (periodic ghosts) end up counted as real, or the new '
                          'real particles behind them' % (noal[0] if noal else 'True', ' and the real-particle count is set by hand (%s)' % U(byhand[0]) if byhand else ''),
               detail_ok='extract_particles aligns the destination; no hand-set real count')
    chk.decide(en is not None and all(x is not None and g.dominates(en, x) for x in sh), 'inlet-move', '%s:%s:copy-before-recycle' % (fam, who), node=fn,
               file=rel, func=who, detail_bad='positions are shifted before the particles are copied into the fluid (the copies would carry the recycled position)',
               detail_ok='copy dominates the shift')


def rule_outlet(chk, rel, cls, fn):
    who = '%s.%s' % (cls.name, fn.name)
    fam = rel.split('/')[-2]
    g = C.build_cfg(fn)
    ex = [c for c in M.calls(fn) if isinstance(c.func, ast.Attribute) and c.func.attr == 'extract_particles']
    if len(ex) != 1:
        chk.violated('outlet-move', '%s:%s:copy-once' % (fam, who), node=fn, file=rel, func=who, detail='%d extract_particles calls (expected exactly one copy out of the fluid)' % len(ex))
        return
    e = ex[0]
    src = compact(e.func.value)
    o = index_origin(fn, e.args[0], e)
    idef = index_def(fn, e.args[0], e)
    dst = next((compact(k.value) for k in e.keywords if k.arg == 'dest_array'), compact(e.args[1]) if len(e.args) > 1 else None)
    if dst is None:
        # copy through a temporary: tmp = source.extract_particles(idx); outlet.add_particles(**tmp.get_property_arrays())
        st = e
        while not isinstance(st, ast.stmt):
            st = st.parent
        tmp = compact(st.targets[0]) if isinstance(st, ast.Assign) else None
        adds = [c for c in M.calls(fn) if isinstance(c.func, ast.Attribute) and c.func.attr == 'add_particles' and compact(c.func.value) == 'outlet_pa'
                and any(k.arg is None and compact(k.value) == '%s.get_property_arrays()' % tmp for k in c.keywords)]
        if len(adds) == 1:
            dst = 'outlet_pa'
    chk.decide(src == 'source_pa' and dst == 'outlet_pa', 'outlet-move', '%s:%s:copy-direction' % (fam, who), node=e, file=rel, func=who,
               detail_bad='particles are copied from %s into %s (expected fluid -> outlet, exactly once)' % (src, dst), detail_ok='source_pa -> outlet_pa')
    chk.decide(o is not None and o[0] == 'source_pa' and o[1] == 1, 'outlet-move', '%s:%s:who-moves' % (fam, who), node=e, file=rel, func=who,
               detail_bad='the moved set is %s; expected the fluid particles whose zone id is 1 (inside the outlet zone)' % (o,), detail_ok='fluid particles with ioid == 1')
    rms = [c for c in M.calls(fn) if isinstance(c.func, ast.Attribute) and c.func.attr == 'remove_particles']
    by = {}
    for c in rms:
        by.setdefault(compact(c.func.value), []).append(c)
    # move = copy + delete of the same set
    r1 = by.get('source_pa', [])
    ok = len(r1) == 1 and index_def(fn, r1[0].args[0], r1[0]) is idef
    if not ok and len(r1) == 1:
        # a recomputed index set denotes the same particles when it has the same origin and the fluid array was not modified in between
        o1 = index_origin(fn, r1[0].args[0], r1[0])
        mutated = any(isinstance(c.func, ast.Attribute) and compact(c.func.value) in ('source_pa', 'self.io_eval') and
                      c.func.attr in ('remove_particles', 'add_particles', 'extend', 'resize', 'append_parray', 'set', 'evaluate', 'align_particles')
                      and pos(e) < pos(c) < pos(r1[0]) for c in M.calls(fn))
        ok = o is not None and o1 is not None and o1[:2] == o[:2] and not mutated
    if ok:
        en = [n.id for n in g.nodes if n.ast is not None and isinstance(n.ast, (ast.Expr, ast.Assign)) and any(e is x for x in ast.walk(n.ast))]
        rn = [n.id for n in g.nodes if n.ast is not None and isinstance(n.ast, ast.Expr) and any(r1[0] is x for x in ast.walk(n.ast))]
        ok = bool(en and rn) and g.dominates(en[0], rn[0]) and g.must_pass(en[0], g.exit, rn)
    chk.decide(ok, 'outlet-move', '%s:%s:delete-what-was-copied' % (fam, who), node=r1[0] if r1 else fn, file=rel, func=who,
               detail_bad='the set removed from the fluid is not (on every path) the very set that was copied to the outlet: particles are duplicated or lost',
               detail_ok='source_pa.remove_particles(same index set) after the copy, on every path')
    r2 = by.get('outlet_pa', [])
    o2 = index_origin(fn, r2[0].args[0], r2[0]) if len(r2) == 1 else None
    ok = len(r2) == 1 and o2 is not None and o2[0] == 'outlet_pa' and o2[1] == 2
    chk.decide(ok, 'outlet-move', '%s:%s:delete-beyond-outlet' % (fam, who), node=r2[0] if r2 else fn, file=rel, func=who,
               detail_bad='particles removed from the outlet are %s; expected those of the outlet array with zone id 2 (beyond its far end)' % (o2,),
               detail_ok='outlet particles with ioid == 2')
    # ... and that deletion happens on every path of an active stage: whether anything crossed the interface in this stage has no bearing on what has left the far end
    from verif_static import paths as PT
    act = [p_ for p_ in PT.enumerate_paths(M.docstring_stripped(fn.body)) if PT.took(p_, True, 'stage in self.active_stages') is not None and p_[-1].kind != 'raise']
    skip = [p_ for p_ in act if not any(cal.endswith('outlet_pa.remove_particles') for i_, c_, cal, env_ in PT.calls_on(p_))]
    chk.decide(bool(act) and not skip, 'outlet-move', '%s:%s:delete-beyond-outlet-on-every-path' % (fam, who), node=fn, file=rel, func=who,
               detail_bad='a path through an active stage leaves without removing the outlet particles that passed the far end (tests on it: %s): they are never deleted when, in that '
                          'stage, nothing crossed the interface' % ([U(e.node)[:50] + ' -> %s' % e.truth for e in skip[0] if e.kind == 'cond'] if skip else ''),
               detail_ok='outlet_pa.remove_particles(...) on every path of an active stage')
    other = [k for k in by if k not in ('source_pa', 'outlet_pa', 'ghost_pa')]
    chk.decide(not other, 'outlet-move', '%s:%s:no-other-removal' % (fam, who), node=fn, file=rel, func=who, detail_bad='removals from %s' % other, detail_ok='only fluid and outlet (and its ghost)')
    if 'ghost_pa' in by and len(r2) == 1:
        gdef = index_def(fn, by['ghost_pa'][0].args[0], by['ghost_pa'][0])
        chk.decide(gdef is index_def(fn, r2[0].args[0], r2[0]), 'outlet-move', '%s:%s:ghost-follows-outlet' % (fam, who), node=by['ghost_pa'][0], file=rel, func=who,
                   detail_bad='ghost outlet particles are removed with a different index set than their originals', detail_ok='same index set')


def rule_zone_codes(chk):
    t = M.py(IOM)
    ioe = M.find_class(t, 'IOEvaluate')
    loop = M.find_func(ioe, 'loop')
    disp = [a for a in ast.walk(loop) if isinstance(a, ast.Assign) and compact(a.targets[0]) == 'd_disp[d_idx]']
    ldz = local_defs(loop.body)
    DIST = '(d_x[d_idx]-self.x)*self.xn+(d_y[d_idx]-self.y)*self.yn+(d_z[d_idx]-self.z)*self.zn'
    ok = bool(disp) and same(inline(disp[0].value, ldz), DIST)
    # names that hold the signed distance (the stored value may be kept in a local and tested through it)
    dist_names = set(k_ for k_, v_ in ldz.items() if same(inline(v_, ldz), DIST))
    chk.decide(ok, 'zone-codes', 'signed-distance', node=loop, file=IOM, func='IOEvaluate.loop',
               detail_bad='the signed distance is not (x - x0).n with each coordinate paired with its own normal component', detail_ok='disp = (x-x0)*xn + (y-y0)*yn + (z-z0)*zn')
    # the zone code as a function of the signed distance: the if-tree is evaluated exactly (rationals) on the common refinement of its own thresholds and the
    # expected ones, for two generic zone lengths.  Expected: 0 behind the interface, 1 inside (0, maxdist), 2 beyond maxdist - up to a tolerance band of 1e-5
    # around the two thresholds, inside which the code may be either neighbour's (today: strict tests against +-1e-6)
    from fractions import Fraction as Fr
    defs = local_defs(loop.body)

    class Sub(ast.NodeTransformer):
        def visit_Subscript(self, n):
            if compact(n) == 'd_disp[d_idx]':
                return ast.Name(id='X', ctx=ast.Load())
            return self.generic_visit(n)

        def visit_Name(self, n):
            if n.id in dist_names:
                return ast.Name(id='X', ctx=ast.Load())
            return n

        def visit_Attribute(self, n):
            if compact(n) == 'self.maxdist':
                return ast.Name(id='D', ctx=ast.Load())
            return self.generic_visit(n)

        def visit_Constant(self, n):
            if isinstance(n.value, float):
                return ast.Call(func=ast.Name(id='Fr', ctx=ast.Load()), args=[ast.Constant(value=repr(n.value))], keywords=[])
            return n

    def tr(e):
        e2 = Sub().visit(inline(e, dict((k, v) for k, v in defs.items() if k not in dist_names)))
        return compile(ast.fix_missing_locations(ast.Expression(body=e2)), '<zone>', 'eval')

    class Undecidable(Exception):
        pass

    def run(stmts, env):
        code = None
        for st in stmts:
            if isinstance(st, ast.If):
                try:
                    tv = bool(eval(tr(st.test), {'__builtins__': {}, 'Fr': Fr, 'abs': abs}, env))
                except Exception as ex:
                    raise Undecidable('test `%s`: %s' % (U(st.test), ex))
                r = run(st.body if tv else st.orelse, env)
                code = r if r is not None else code
            elif isinstance(st, ast.Assign) and compact(st.targets[0]) == 'd_ioid[d_idx]':
                if not (isinstance(st.value, ast.Constant) and isinstance(st.value.value, int)):
                    raise Undecidable('zone id `%s`' % U(st.value))
                code = st.value.value
            elif any(isinstance(x, (ast.Subscript,)) and compact(x) == 'd_ioid[d_idx]' and isinstance(x.ctx, ast.Store) for x in ast.walk(st)):
                raise Undecidable('store `%s`' % U(st))
        return code
    tail = loop.body[loop.body.index(disp[0]) + 1:] if disp and disp[0] in loop.body else loop.body
    why = ''
    ok = True
    try:
        for D in (Fr(3), Fr(1, 7)):
            tol = Fr(1, 10 ** 5)
            # thresholds of the tree: every comparison, as a function of X, is affine; its root is a break point
            brk = set([-tol, tol, D - tol, D + tol])
            for c_ in [c_ for st in tail for c_ in ast.walk(st) if isinstance(c_, ast.Compare) and len(c_.ops) == 1]:
                g = tr(ast.BinOp(left=c_.left, op=ast.Sub(), right=c_.comparators[0]))
                try:
                    g0, g1, g2 = [eval(g, {'__builtins__': {}, 'Fr': Fr, 'abs': abs}, {'X': Fr(v), 'D': D}) for v in (0, 1, 2)]
                except Exception as ex:
                    raise Undecidable('comparison `%s`: %s' % (U(c_), ex))
                if g2 - g1 != g1 - g0:
                    raise Undecidable('comparison `%s` is not affine in the distance' % U(c_))
                if g1 != g0:
                    brk.add(-g0 / (g1 - g0))
            pts = sorted(brk)
            samples = [pts[0] - 1] + [x_ for i_ in range(len(pts)) for x_ in ([pts[i_]] + ([(pts[i_] + pts[i_ + 1]) / 2] if i_ + 1 < len(pts) else []))] + [pts[-1] + 1]
            for x_ in samples:
                got = run(tail, {'X': x_, 'D': D})
                if x_ < -tol:
                    want = (0,)
                elif x_ <= tol:
                    want = (0, 1)
                elif x_ < D - tol:
                    want = (1,)
                elif x_ <= D + tol:
                    # around the far end of the zone the particle is in the zone or beyond it - never "in the fluid" (0 there sends an inlet original into the fluid without
                    # it having left the zone).  The isolated points where the code's own comparisons switch (disp - maxdist == 1e-6 gets 0 today) are not judged.
                    want = (1, 2, 0) if x_ in pts else (1, 2)
                else:
                    want = (2,)
                if got not in want:
                    ok = False
                    why = 'a particle at signed distance %s (zone length %s) gets zone id %s, expected %s' % (float(x_), float(D), got, ' or '.join(str(w_) for w_ in want))
                    break
            if not ok:
                break
    except Undecidable as ex:
        chk.undecided('zone-codes', 'assignment', node=loop, file=IOM, func='IOEvaluate.loop', detail='zone function not evaluable: %s' % ex)
        ok = None
    if ok is not None:
        chk.decide(ok, 'zone-codes', 'assignment', node=loop, file=IOM, func='IOEvaluate.loop',
               detail_bad='zone ids are not 1 for 0 < disp <= maxdist, 2 for disp > maxdist and 0 otherwise: ' + why, detail_ok='1 inside, 2 beyond maxdist, 0 on the fluid side (exact evaluation on the refinement of all thresholds)')
    # how the two base classes evaluate the zone / the fluid
    for cname, zone, fluid_ in (('InletBase', 'self.inlet_pa.name', 'self.dest_pa.name'), ('OutletBase', 'self.outlet_pa.name', 'self.source_pa.name')):
        c = M.find_class(t, cname)
        f = M.find_func(c, '_create_io_eval')
        ev = [x for x in M.calls(f) if M.call_name(x) == 'IOEvaluate']
        for x in ev:
            ldf0 = local_defs(f.body)
            who = compact(inline(x.args[0], ldf0)) if x.args else '?'
            kw = {}
            for k in x.keywords:
                v_ = inline(k.value, ldf0)
                if k.arg is None and isinstance(v_, ast.Call) and compact(v_.func) == 'dict' and not v_.args:
                    kw.update(dict((k2.arg, compact(k2.value)) for k2 in v_.keywords))          # **plane with plane = dict(x=..., ...)
                elif k.arg is None and isinstance(v_, ast.Dict) and all(isinstance(kk, ast.Constant) for kk in v_.keys):
                    kw.update(dict((kk.value, compact(vv)) for kk, vv in zip(v_.keys, v_.values)))
                else:
                    kw[k.arg] = compact(v_)
            geo = all(kw.get(k) == 'self.' + k for k in ('x', 'y', 'z', 'xn', 'yn', 'zn'))
            if who == zone:
                ok = geo and kw.get('maxdist') == 'self.length'
                chk.decide(ok, 'zone-codes', '%s:zone-array-evaluated-with-length' % cname, node=x, file=IOM, func=cname + '._create_io_eval',
                           detail_bad='the %s zone is evaluated with %s (needs the interface point, its normal and maxdist=self.length for code 2 to mean "beyond the zone")' % (
                               cname[:-4].lower(), kw), detail_ok='maxdist=self.length')
            else:
                ok = geo and 'maxdist' not in kw and who == fluid_
                chk.decide(ok, 'zone-codes', '%s:fluid-evaluated-without-length' % cname, node=x, file=IOM, func=cname + '._create_io_eval',
                           detail_bad='the fluid is evaluated with %s' % kw, detail_ok='interface point and normal, default maxdist')
        grp = [x for x in M.calls(f) if M.call_name(x) == 'Group']
        ok = len(grp) == 2 and all(any(k.arg == 'real' and compact(k.value) == 'False' for k in x.keywords) for x in grp)
        chk.decide(ok, 'zone-codes', '%s:all-particles-evaluated' % cname, node=f, file=IOM, func=cname + '._create_io_eval',
                   detail_bad='zone ids are not evaluated for all particles (real=False)', detail_ok='real=False for both arrays')
        # the arrays handed to the evaluator (keyword `arrays` of the SPHEvaluator call, locals substituted): the zone array and the fluid, as a list in any spelling
        evc = [x for x in M.calls(f) if (M.call_name(x) or '').endswith('SPHEvaluator')]
        av = [k.value for x in evc for k in x.keywords if k.arg == 'arrays']
        ldf = local_defs(f.body)
        flat = None
        if len(av) == 1:
            def flatten(e):
                e = inline(e, ldf) if isinstance(e, ast.Name) else e
                if isinstance(e, ast.BinOp) and isinstance(e.op, ast.Add):
                    l_, r_ = flatten(e.left), flatten(e.right)
                    return None if l_ is None or r_ is None else l_ + r_
                if isinstance(e, (ast.List, ast.Tuple)):
                    return [compact(inline(x, ldf)) for x in e.elts]
                return None
            flat = flatten(av[0])
        want = ['self.inlet_pa', 'self.dest_pa'] if cname == 'InletBase' else ['self.outlet_pa', 'self.source_pa']
        chk.decide(flat == want, 'zone-codes', '%s:arrays' % cname, node=f, file=IOM, func=cname + '._create_io_eval',
                   detail_bad='evaluator built over %s' % flat, detail_ok=str(want))
        init = M.self_aliases_inlined_deep(M.find_func(c, 'initialize'))          # `info = self.inletinfo; self.x = info.refpoint[0]` is `self.x = self.inletinfo.refpoint[0]`
        info = 'self.inletinfo' if cname == 'InletBase' else 'self.outletinfo'
        dd = dict((compact(a.targets[0]), compact(a.value)) for a in ast.walk(init) if isinstance(a, ast.Assign))
        ok = all(dd.get('self.' + k) == '%s.refpoint[%d]' % (info, i) for i, k in enumerate('xyz')) and \
            all(dd.get('self.' + k + 'n') == '%s.normal[%d]' % (info, i) for i, k in enumerate('xyz')) and dd.get('self.length') == info + '.length'
        chk.decide(ok, 'zone-codes', '%s:geometry-from-info' % cname, node=init, file=IOM, func=cname + '.initialize',
                   detail_bad='reference point / normal / length are not taken component by component from the info object: %s' % dd, detail_ok='refpoint, normal, length')


def rule_families(chk, ci):
    t = M.py(IOM)
    mgr = M.find_class(t, 'InletOutletManager')
    gio = M.find_func(mgr, 'get_inlet_outlet')
    ib = M.find_func(M.find_class(t, 'InletBase'), '__init__')
    ob = M.find_func(M.find_class(t, 'OutletBase'), '__init__')
    for c in M.calls(gio):
        nm = M.call_name(c) or ''
        if nm.endswith('.update_cls'):
            # which loops the call sits in: `for X in self.inletinfo / self.outletinfo` gives the kind and the info object, `for F in self.fluids` the fluid name (any names)
            loops = {}
            p_ = getattr(c, 'parent', None)
            outer = None
            while p_ is not None and p_ is not gio:
                if isinstance(p_, ast.For) and isinstance(p_.target, ast.Name):
                    loops[compact(p_.iter)] = p_.target.id
                    if compact(p_.iter) in ('self.inletinfo', 'self.outletinfo'):
                        outer = p_
                p_ = getattr(p_, 'parent', None)
            recv = nm.rsplit('.', 1)[0]
            kind = 'inlet' if loops.get('self.inletinfo') == recv else 'outlet' if loops.get('self.outletinfo') == recv else None
            if kind is None or outer is None:
                chk.violated('families-route-through-bases', 'manager:%s-construction' % recv, node=c, file=IOM, func='InletOutletManager.get_inlet_outlet',
                             detail='update_cls is called on %s, which is not the loop variable of a loop over self.inletinfo / self.outletinfo' % recv)
                continue
            params = M.arg_names(ib if kind == 'inlet' else ob)[1:]
            pa_param = (M.arg_names(gio) + [None, None])[1]
            ldf = local_defs(outer.body)          # the locals of this loop body (the two loops may use the same names for different things)
            got = [compact(inline(a_, ldf)) for a_ in c.args]
            fl = loops.get('self.fluids')
            want = ['%s[%s.pa_name]' % (pa_param, recv), '%s[%s]' % (pa_param, fl), recv, 'self.kernel', 'self.dim', 'self.active_stages']
            kws = dict((k.arg, compact(inline(k.value, ldf))) for k in c.keywords)
            own, other = ('self.inlet_pairs', 'self.outlet_pairs') if kind == 'inlet' else ('self.outlet_pairs', 'self.inlet_pairs')
            gh = kws.get('ghost_pa') or ''
            ok = got == want and params[:6] == [('inlet_pa' if kind == 'inlet' else 'outlet_pa'), ('dest_pa' if kind == 'inlet' else 'source_pa'),
                                                kind + 'info', 'kernel', 'dim', 'active_stages'] and sorted(kws) == ['ghost_pa'] and own in gh and other not in gh
            chk.decide(ok, 'families-route-through-bases', 'manager:%s-construction' % kind, node=c, file=IOM, func='InletOutletManager.get_inlet_outlet',
                       detail_bad='update class constructed with %s %s (expected %s and a ghost array looked up in %s) against parameters %s' % (got, kws, want, own, params),
                       detail_ok='(zone array, fluid, info, kernel, dim, stages, ghost_pa= from %s)' % own)
    n = 0
    for fam in FAMILIES:
        rel = 'pysph/sph/bc/%s/simple_inlet_outlet.py' % fam
        tr = M.py(rel)
        sio = M.find_class(tr, 'SimpleInletOutlet')
        chk.decide('InletOutletManager' in [M.dotted(b) for b in sio.bases], 'families-route-through-bases', fam + ':manager', node=sio, file=rel, func='SimpleInletOutlet',
                   detail_bad='SimpleInletOutlet does not derive from InletOutletManager', detail_ok='InletOutletManager')
        chk.decide('get_inlet_outlet' not in M.methods(sio), 'families-route-through-bases', fam + ':uses-base-get_inlet_outlet', node=sio, file=rel, func='SimpleInletOutlet',
                   detail_bad='family overrides get_inlet_outlet', detail_ok='inherited')
        for kind, base in (('inlet', 'InletBase'), ('outlet', 'OutletBase')):
            r2 = 'pysph/sph/bc/%s/%s.py' % (fam, kind)
            t2 = M.py(r2)
            cl = [c for c in M.classes(t2) if base in [M.dotted(b) for b in c.bases]]
            chk.decide(len(cl) == 1, 'families-route-through-bases', '%s:%s-class' % (fam, kind), node=t2, file=r2, func=kind, line=1,
                       detail_bad='no class deriving from %s' % base, detail_ok=cl[0].name if cl else '')
            for c in cl:
                up = upd_of(c)
                n += 1
                if up is None:
                    chk.holds('families-route-through-bases', '%s:%s-update' % (fam, kind), node=c, file=r2, func=c.name, detail='inherits %s.update' % base)
                else:
                    # an overriding update is held to the same move rules
                    rule_fresh(chk, r2, c, up)
                    (rule_inlet if kind == 'inlet' else rule_outlet)(chk, r2, c, up)
                    rule_lazy_geometry(chk, r2, c, up, M.find_class(t, base))
    chk.floor('family inlet/outlet classes', n, 10)


PA = 'pysph/base/particle_array.pyx'


def rule_zone_length(chk):
    """the length an inlet original is recycled by / beyond which an outlet particle is deleted is the extent of the zone along its normal: the bounding box of the zone's
    particles widened by half a spacing on each side, projected on the normal - a quantity that does not depend on where the particles currently are relative to the interface"""
    t = M.py(IOM)
    mgr = M.find_class(t, 'InletOutletManager')
    fn = M.inline_helpers(mgr, M.find_func(mgr, '_update_inlet_outlet_info'), keep=set(n_ for n_ in M.methods(mgr) if not n_.startswith('_')))      # private helpers and local closures (`_extent(coords, dx)`) written in place
    # the info object is whatever the loop over the infos calls it, the array is the method's parameter
    st = [a for a in ast.walk(fn) if isinstance(a, ast.Assign) and isinstance(a.targets[0], ast.Attribute) and a.targets[0].attr == 'length' and isinstance(a.targets[0].value, ast.Name)]
    ok = len(st) == 1 and len(M.arg_names(fn)) > 1
    if ok:
        from verif_static import paths as PT
        iv, pv = st[0].targets[0].value.id, M.arg_names(fn)[1]
        want = 'abs((max(pa.x)-min(pa.x)+info.dx)*info.normal[0] + (max(pa.y)-min(pa.y)+info.dx)*info.normal[1] + (max(pa.z)-min(pa.z)+info.dx)*info.normal[2])'
        want = want.replace('info.', iv + '.').replace('pa.', pv + '.')
        # per path, with the locals standing for what they hold at that point (a temporary re-used for x, y and z in turn is three different things)
        gots = []
        for p_ in PT.enumerate_paths(M.docstring_stripped(fn.body)):
            for e in p_:
                if e.kind == 'stmt' and e.node is st[0] or (e.kind == 'stmt' and isinstance(e.node, ast.Assign) and compact(e.node.targets[0]) == iv + '.length'):
                    gots.append(PT.resolve(e.node.value, e.env))
        ok = bool(gots) and all(canon(g_) == canon(want) for g_ in gots)
        got = gots[0] if gots else st[0].value
    chk.decide(ok, 'zone-codes', 'zone-length-is-the-extent-along-the-normal', node=st[0] if st else fn, file=IOM, func='InletOutletManager._update_inlet_outlet_info',
               detail_bad='info.length is not |sum_k (max(x_k) - min(x_k) + dx) n_k|: a length measured from the interface (or from anything the particles move relative to) changes with their '
                          'current offset, so originals are recycled the wrong distance and outlet particles deleted at the wrong place after a restart', detail_ok='|extent . normal| with extent = bounding box + dx')


def rule_dx_everywhere(chk):
    """the spacing the zone length is widened by (info.dx) is the one given to update_dx for *every* zone whose length is computed from it: update_dx assigns it to the same
    collection of infos that _update_inlet_outlet_info reads it from (an outlet left at the default spacing gets a zone that is too long or too short)"""
    from verif_static import norm as N_
    t = M.py(IOM)
    mgr = M.find_class(t, 'InletOutletManager')
    ud = M.find_func(mgr, 'update_dx')
    ui = M.find_func(mgr, '_update_inlet_outlet_info')

    def coll(fn, writes):
        out = []
        ld = N_.local_defs([fn])
        for l in [x for x in ast.walk(fn) if isinstance(x, ast.For) and isinstance(x.target, ast.Name)]:
            tv = l.target.id
            hit = False
            for a in ast.walk(l):
                if writes and isinstance(a, ast.Assign) and compact(a.targets[0]) == '%s.dx' % tv:
                    hit = True
                if not writes and isinstance(a, ast.Attribute) and a.attr == 'dx' and compact(a.value) == tv and isinstance(a.ctx, ast.Load):
                    hit = True
            if hit:
                out.append(N_.canon(N_.inline(l.iter, ld)))
        return out
    w, r = coll(ud, True), coll(ui, False)
    chk.decide(bool(w) and bool(r) and all(x in w for x in r), 'zone-codes', 'spacing-set-for-every-zone', node=ud, file=IOM, func='InletOutletManager.update_dx',
               detail_bad='update_dx assigns the spacing to the infos in %s, but the zone lengths are computed (info.dx read) for %s' % (w, r),
               detail_ok='dx set on inlet and outlet infos alike')


def rule_alignment(chk):
    """remove_particles / extract + align_particles must not duplicate or lose a particle: align_particles builds its index array by
    insert-with-displacement, which keeps index[0..i] a permutation of 0..i iff on every path through the loop body position i is filled
    exactly once, with i itself or with the value displaced from the slot that received i"""
    t = M.cy(PA)
    cls = M.find_class(t, 'ParticleArray')
    fn = M.data_aliases_inlined(M.find_func(cls, 'align_particles'))          # `p = index_array.data; p[i] = ...` is `index_array.data[i] = ...`
    who = 'ParticleArray.align_particles'
    loops = [l for l in ast.walk(fn) if isinstance(l, ast.For) and any(isinstance(a, ast.Assign) and isinstance(a.targets[0], ast.Subscript) and
                                                                       compact(a.targets[0].value) == 'index_array.data' for a in ast.walk(l))]
    if len(loops) != 1 or not isinstance(loops[0].target, ast.Name):
        raise AnalysisError('align_particles: expected one loop filling index_array')
    loop = loops[0]
    iv = loop.target.id
    after_ = [s_ for s_ in fn.body if getattr(s_, 'lineno', 0) > loop.lineno]
    real_v = next((compact(a_.value) for s_ in after_ for a_ in ast.walk(s_) if isinstance(a_, ast.Assign) and compact(a_.targets[0]) == 'self.num_real_particles' and isinstance(a_.value, ast.Name)), None)
    ins_v = None
    for c_ in ast.walk(loop):
        if isinstance(c_, ast.Compare) and len(c_.ops) == 1 and isinstance(c_.ops[0], (ast.Eq, ast.NotEq)):
            sides = [c_.left, c_.comparators[0]]
            if any(isinstance(x, ast.Name) and x.id == iv for x in sides):
                oth = [x for x in sides if isinstance(x, ast.Name) and x.id != iv]
                if oth:
                    ins_v = oth[0].id
    move_v = None
    for s_ in after_:
        for i_ in ast.walk(s_):
            if isinstance(i_, ast.If) and isinstance(i_.test, ast.Compare) and isinstance(i_.test.left, ast.Name) and isinstance(i_.test.comparators[0], ast.Constant) and i_.test.comparators[0].value == 0:
                move_v = i_.test.left.id
    if real_v is None or ins_v is None:
        raise AnalysisError('align_particles: the insertion point / the real-particle count were not identified (%s, %s)' % (ins_v, real_v))
    chk.decide(compact(loop.iter) in ('range(num_particles)',), 'alignment-is-a-permutation', 'loop-covers-all-particles', node=loop, file=PA, func=who,
               detail_bad='the fill loop does not visit every particle', detail_ok='for %s in range(num_particles)' % iv)
    paths = []

    from verif_static import norm as N

    def walk(stmts, ev):
        for k, s in enumerate(stmts):
            if isinstance(s, ast.If):
                rest = stmts[k + 1:]
                walk(list(s.body) + rest, ev + [('cond', N.canon(s.test), True, compact(s.test))])
                walk(list(s.orelse) + rest, ev + [('cond', N.canon(s.test), False, compact(s.test))])
                return
            if isinstance(s, ast.Continue):
                break                      # this iteration ends here
            if isinstance(s, ast.Assign) and isinstance(s.targets[0], ast.Subscript) and compact(s.targets[0].value) == 'index_array.data':
                ev = ev + [('store', compact(s.targets[0].slice), compact(s.value), s)]
            elif isinstance(s, ast.Assign) and isinstance(s.value, ast.Subscript) and compact(s.value.value) == 'index_array.data':
                ev = ev + [('load', compact(s.targets[0]), compact(s.value.slice), s)]
            elif isinstance(s, ast.AugAssign):
                ev = ev + [('inc', compact(s.target), compact(s.value), s)]
            elif isinstance(s, (ast.For, ast.While, ast.Return, ast.Break)):
                raise AnalysisError('align_particles: unexpected control flow in the fill loop')
        paths.append(ev)
    walk(list(loop.body), [])
    n = 0
    for ev in paths:
        stores = [e for e in ev if e[0] == 'store']
        conds = [(e[1], e[2]) for e in ev if e[0] == 'cond']
        incs = dict((e[1], e[2]) for e in ev if e[0] == 'inc')

        def implied(eq_text, ne_text):
            """the path conditions say eq_text holds (the test itself taken, or its negation refused)"""
            return (N.canon(eq_text), True) in conds or (N.canon(ne_text), False) in conds
        local = implied('tag_arr.data[%s]==Local' % iv, 'tag_arr.data[%s]!=Local' % iv)
        # label by what the path means, not by how the tests are spelled
        label = 'Local' if local else 'not Local'
        n += 1
        at_i = [e for e in stores if e[1] == iv]
        other = [e for e in stores if e[1] != iv]
        node = stores[-1][3] if stores else loop
        if len(at_i) == 1 and not other and at_i[0][2] == iv:
            ok, why = True, 'index[%s] = %s' % (iv, iv)
        elif len(at_i) == 1 and len(other) == 1 and other[0][2] == iv:
            j = other[0][1]
            order = [e for e in ev if e[0] in ('load', 'store')]
            ld = [e for e in order if e[0] == 'load' and e[2] == j and e[1] == at_i[0][2]]
            ok = bool(ld) and order.index(ld[0]) < order.index(other[0]) and implied('%s!=%s' % (iv, j), '%s==%s' % (iv, j))
            why = 'index[%s] = %s; index[%s] = the value displaced from slot %s (guarded by %s != %s)' % (j, iv, iv, j, iv, j)
            node = at_i[0][3]
        else:
            ok, why = False, ''
        label = label + (', displaced' if other else ', in place') if local else label
        chk.decide(ok, 'alignment-is-a-permutation', 'path:%s' % label, node=node, file=PA, func=who,
                   detail_bad='on this path the stores %s do not fill slot %s with %s itself or with the value previously held by the slot that receives %s: the index array stops being a '
                              'permutation, so c_align_array duplicates one particle and drops another' % ([(e[1], e[2]) for e in stores], iv, iv, iv), detail_ok=why)
        # the counters by their roles: the insertion point is the variable the loop index is compared with (and the slot that receives it when displaced); the number of real
        # particles is whatever local is stored into self.num_real_particles after the loop (it may be the insertion point itself); the number of moves is the local that
        # decides, after the loop, whether the properties are permuted at all
        if local:
            chk.decide(incs.get(ins_v) == '1' and incs.get(real_v) == '1' and (not other or move_v is None or incs.get(move_v) == '1'), 'alignment-is-a-permutation',
                       'counters:%s' % label, node=node, file=PA, func=who, detail_bad='a Local particle must advance the insertion point %s and the real-particle count %s (and the move count %s when displaced): %s' % (ins_v, real_v, move_v, incs),
                       detail_ok=str(sorted(incs.items())))
        else:
            chk.decide(ins_v not in incs and real_v not in incs, 'alignment-is-a-permutation', 'counters:%s' % label, node=node, file=PA, func=who,
                       detail_bad='a non-Local particle must not advance the insertion point', detail_ok='no counter moves')
    chk.floor('paths through the alignment fill loop', n, 3)
    post = [s for s in fn.body if getattr(s, 'lineno', 0) > loop.lineno]
    al = [c for s in post for c in M.calls(s) if isinstance(c.func, ast.Attribute) and c.func.attr == 'c_align_array']
    lp = [M.enclosing(c, ast.For) for c in al]
    ok = len(al) == 1 and [compact(a) for a in al[0].args] == ['index_array', 'stride'] and lp[0] is not None and compact(lp[0].iter) == 'self.properties.items()'
    chk.decide(ok, 'alignment-is-a-permutation', 'applied-to-every-property', node=al[0] if al else fn, file=PA, func=who,
               detail_bad='the permutation must be applied to every property with its stride', detail_ok='for every property: c_align_array(index_array, stride)')


def rule_activation(chk):
    """the updaters only act in the stages listed in active_stages, and the manager starts with none: every family's get_stepper must switch the
    stages on whenever it hands out steppers (on every path, also when a zone list is empty); an Info object without an explicit updater class
    gets the updater of its own kind"""
    from verif_static import emit as EM, absint as AI
    n = 0
    for fam in FAMILIES:
        rel = 'pysph/sph/bc/%s/simple_inlet_outlet.py' % fam
        t = M.py(rel)
        for cls in [c for c in t.body if isinstance(c, ast.ClassDef)]:
            gs = M.methods(cls).get('get_stepper')
            if gs is None:
                continue
            g = C.build_cfg(gs)
            # the steppers handed out: stores into the dictionary the method returns (whatever it is called)
            ret = set(r_.value.id for r_ in ast.walk(gs) if isinstance(r_, ast.Return) and isinstance(r_.value, ast.Name))
            stores = [x.id for x in g.nodes if x.ast is not None and isinstance(x.ast, ast.Assign) and isinstance(x.ast.targets[0], ast.Subscript)
                      and compact(x.ast.targets[0].value) in ret]
            act = [x.id for x in g.nodes if x.ast is not None and isinstance(x.ast, ast.Assign) and compact(x.ast.targets[0]) == 'self.active_stages'
                   and isinstance(x.ast.value, (ast.List, ast.Tuple)) and x.ast.value.elts]
            n += 1
            bad = [s_ for s_ in stores if not (any(g.dominates(a, s_) for a in act) or g.must_pass(s_, g.exit, act))]
            chk.decide(bool(stores) and not bad, 'updaters-activated', '%s:%s.get_stepper' % (fam, cls.name), node=g.nodes[bad[0]].ast if bad else gs, file=rel,
                       func='%s.get_stepper' % cls.name,
                       detail_bad='a path hands out an inlet/outlet stepper without setting self.active_stages to a non-empty list (e.g. when one of the zone lists is empty): '
                                  'Inlet/Outlet.update then never acts and particles are neither released nor recycled',
                       detail_ok='active_stages set on every path that hands out steppers')
    chk.floor('families with get_stepper', n, 5)
    # defaults of the Info objects, by interpreting their constructors
    try:
        it = EM.interpreter()
        for cname, want in (('InletInfo', 'InletBase'), ('OutletInfo', 'OutletBase')):
            obj = EM.instance(it, IOM, cname)
            EM.call(it, obj, '__init__', 'zone', [1.0, 0.0, 0.0], [0.0, 0.0, 0.0])
            got = obj.attrs.get('update_cls')
            gname = got.node.name if isinstance(got, AI.ClassRef) else AI.key_of(got) if got is not None else None
            chk.decide(gname == want, 'updaters-activated', '%s:default-updater' % cname, node=M.find_class(M.py(IOM), cname), file=IOM, func=cname + '.__init__',
                       detail_bad='%s(...) without update_cls gets the updater %s; its zone needs %s (an outlet driven by the inlet updater never takes particles from the fluid nor deletes '
                                  'those that left)' % (cname, gname, want), detail_ok='defaults to %s' % want)
            obj2 = EM.instance(it, IOM, cname)
            marker = EM.mock(name='UserUpdater')
            EM.call(it, obj2, '__init__', 'zone', [1.0, 0.0, 0.0], [0.0, 0.0, 0.0], update_cls=marker)
            chk.decide(obj2.attrs.get('update_cls') is marker, 'updaters-activated', '%s:explicit-updater-kept' % cname, node=M.find_class(M.py(IOM), cname), file=IOM,
                       func=cname + '.__init__', detail_bad='an explicitly given update_cls is replaced', detail_ok='explicit update_cls kept')
    except (AI.Unsupported, AI.Raised) as e:
        chk.undecided('updaters-activated', 'info-defaults', file=IOM, func='InletInfo.__init__', line=0, detail='constructor not interpretable: %s' % e)


def rule_manager_model(chk):
    """InletOutletManager interpreted (E8) on a model set-up with two inlets and two outlets, one of each with a ghost array: every zone's updater is built over that zone's
    own arrays - its array, the fluid, its info object, ITS ghost array or none - after the zone's length was evaluated from its current particles; and
    _update_inlet_outlet_info re-evaluates the length from the particles on every call (a second set-up with other arrays is not given the first one's length)"""
    from verif_static import emit as EM, absint as AI
    t = M.py(IOM)
    cls = M.find_class(t, 'InletOutletManager')
    fn = M.find_func(cls, 'get_inlet_outlet')
    fn2 = M.find_func(cls, '_update_inlet_outlet_info')
    made, order = [], []

    def updater(tag):
        def mk(i, a, k, n, e):
            made.append((tag, list(a), dict(k)))
            order.append(('make', tag))
            return ('updater', tag)
        return mk

    def info(name, tag, normal=(1.0, 0.0, 0.0)):
        return EM.mock(pa_name=name, update_cls=updater(tag), dx=0.5, length=0.0, normal=list(normal), name=tag)

    def coords(lo, hi):
        return [lo, (lo + hi) / 2.0, hi]

    def arrays(scale):
        d = {}
        for nm_, (lo, hi) in (('inA', (0.0, 2.0)), ('inB', (5.0, 6.0)), ('outC', (10.0, 13.0)), ('outD', (20.0, 20.5)), ('fluid', (0.0, 30.0)), ('gA', (0.0, 1.0)), ('gC', (0.0, 1.0))):
            d[nm_] = EM.mock(name=nm_, x=coords(lo * scale, hi * scale), y=[0.0, 0.0, 0.0], z=[0.0, 0.0, 0.0])
        return d
    bad, und = None, None
    try:
        for first_with_ghost in (True, False):
            it = EM.interpreter()
            ins = [info('inA', 'A'), info('inB', 'B')]
            outs = [info('outC', 'C'), info('outD', 'D')]
            if not first_with_ghost:
                ins.reverse()
                outs.reverse()
            mgr = EM.instance(it, IOM, 'InletOutletManager', inletinfo=ins, outletinfo=outs, fluids=['fluid'], inlet_pairs={'inA': 'gA'}, outlet_pairs={'outC': 'gC'}, kernel='K', dim=2,
                              active_stages=[1])
            for scale in (1.0, 3.0):           # the same manager and info objects used for a second set-up of another size
                del made[:]
                pas = arrays(scale)
                res = EM.call(it, mgr, 'get_inlet_outlet', pas)
                want_len = dict((i_.attrs['name'], (max(pas[i_.attrs['pa_name']].attrs['x']) - min(pas[i_.attrs['pa_name']].attrs['x']) + 0.5)) for i_ in ins + outs)
                for tag, a, k in made:
                    nm_ = {'A': 'inA', 'B': 'inB', 'C': 'outC', 'D': 'outD'}[tag]
                    gh = {'A': 'gA', 'C': 'gC'}.get(tag)
                    inf = [i_ for i_ in ins + outs if i_.attrs['name'] == tag][0]
                    ok = len(a) >= 3 and a[0] is pas[nm_] and a[1] is pas['fluid'] and a[2] is inf and (k.get('ghost_pa') is (pas[gh] if gh else None))
                    if not ok and bad is None:
                        bad = 'zone %s (array %s, ghost %s) gets an updater over %s with ghost_pa=%s' % (tag, nm_, gh, [x.attrs.get('name') if hasattr(x, 'attrs') else x for x in a[:2]],
                                                                                                    k.get('ghost_pa').attrs.get('name') if hasattr(k.get('ghost_pa'), 'attrs') else k.get('ghost_pa'))
                    got_len = inf.attrs.get('length')
                    if bad is None and not (isinstance(got_len, float) and abs(got_len - want_len[tag]) < 1e-12):
                        bad = 'zone %s spans %s (spacing 0.5): its length should be %s when its updater is made, it is %s (set-up scaled by %s)' % (tag, pas[nm_].attrs['x'], want_len[tag], got_len, scale)
                if sorted(m_[0] for m_ in made) != ['A', 'B', 'C', 'D'] and bad is None:
                    bad = 'updaters made for %s, expected one per zone' % sorted(m_[0] for m_ in made)
                if bad is None and (not isinstance(res, list) or len(res) != 4):
                    bad = 'get_inlet_outlet returns %s' % (res,)
    except (AI.Unsupported, AI.Raised) as ex:
        und = str(ex)
    if und:
        chk.undecided('families-route-through-bases', 'manager:model-run', node=fn, file=IOM, func='InletOutletManager.get_inlet_outlet', detail='not interpretable on the model: ' + und)
    else:
        chk.decide(bad is None, 'families-route-through-bases', 'manager:model-run', node=fn, file=IOM, func='InletOutletManager.get_inlet_outlet',
                   detail_bad='on a model with inlets A (ghost gA), B and outlets C (ghost gC), D: %s' % bad,
                   detail_ok='two zone orders x two set-ups through one manager: every zone gets its own arrays, its own ghost array or none, and a length evaluated from its particles')


def main(chk):
    chk.explanation = ('For every update() of the inlet/outlet classes (the two bases and every override in the five families): zone ids are '
                       'refreshed before they are read (dominance); inlet: the set with ioid == 0 is copied inlet -> fluid exactly once and that '
                       'same set (reaching-definition identity) is shifted by +length*normal on the matching axis (ghost: -), nothing is removed; '
                       'outlet: the set with ioid == 1 is copied fluid -> outlet exactly once and the same set removed from the fluid on every '
                       'path, outlet particles with ioid == 2 removed; zone-code assignment and the evaluator arguments; all families route '
                       'through the manager and the base classes.')
    t = M.py(IOM)
    ci = None
    ib, ob = M.find_class(t, 'InletBase'), M.find_class(t, 'OutletBase')
    for cls, rule in ((ib, rule_inlet), (ob, rule_outlet)):
        up = upd_of(cls)
        rule_fresh(chk, IOM, cls, up)
        rule(chk, IOM, cls, up)
        rule_lazy_geometry(chk, IOM, cls, up, cls)
        g = C.build_cfg(up)
        from verif_static import paths as PT
        acting = [p_ for p_ in PT.enumerate_paths(M.docstring_stripped(up.body)) if any(cal in ('self.io_eval.update', 'self.io_eval.evaluate') or cal.endswith('.extract_particles')
                                                                                       for i_, c_, cal, env_ in PT.calls_on(p_))]
        gi = [p_ for p_ in acting if PT.took(p_, True, 'stage in self.active_stages') is None]
        chk.decide(bool(acting) and not gi, 'zone-ids-fresh', 'bc:%s.update:active-stages' % cls.name, node=up, file=IOM, func=cls.name + '.update',
                   detail_bad='update is not restricted to the active stages', detail_ok='if stage in self.active_stages')
    rule_zone_codes(chk)
    rule_manager_model(chk)
    rule_families(chk, ci)
    rule_alignment(chk)
    rule_zone_length(chk)
    rule_dx_everywhere(chk)
    rule_activation(chk)
    # shared with C06: extracted particles are written behind *all* particles the destination already holds (the fluid carries ghost / remote particles behind its real ones)
    import importlib.util
    import os
    spec6 = importlib.util.spec_from_file_location('c06mod', os.path.join(os.path.dirname(os.path.abspath(__file__)), 'c06.py'))
    c06 = importlib.util.module_from_spec(spec6)
    spec6.loader.exec_module(c06)
    c06.rule_append_offsets(chk, M.find_class(M.cy(PA), 'ParticleArray'))
    # a particle that crossed the outlet plane leaves the fluid whatever its index (rule shared with C06)
    c06.rule_removal_exits(chk, M.find_class(M.cy(PA), 'ParticleArray'))
    # ... and carry every value of a multi-valued property to the slot of the new particle (sizes and offsets in units of values = stride x particles; rule shared with C06)
    c06.rule_stride(chk, M.find_class(M.cy(PA), 'ParticleArray'))
    # `if not dest_array:` in extract_particles and `if ghost_pa:` in the updaters ask whether an array was *given*: that is what they mean only while a ParticleArray is always
    # true, i.e. while the class defines neither __len__ nor __bool__ (with __len__ an empty fluid / outlet array counts as "not given": the particles extracted for it go
    # into a throw-away clone)
    pcls = M.find_class(M.cy(PA), 'ParticleArray')
    special = [m_ for m_ in ('__len__', '__bool__', '__nonzero__') if m_ in M.methods(pcls)]
    chk.decide(not special, 'inlet-move', 'an-array-given-is-true-even-when-empty', node=M.methods(pcls)[special[0]] if special else pcls, file=PA, func='ParticleArray',
               detail_bad='ParticleArray defines %s: an empty particle array is now false, so `if not dest_array:` (extract_particles) and `if ghost_pa:` (the inlet / outlet updates) '
                          'treat an empty destination as none given - particles entering an empty fluid or outlet array are copied into a temporary clone and lost' % special,
               detail_ok='no __len__ / __bool__: an array object is true whether or not it holds particles')
    chk.assume('exactly-once over arbitrary runs and velocity fields (particles crossing and returning within a step) is not decided')
    chk.assume('ParticleArray.extract_particles / remove_particles copy and delete whole particles (C06)')


if __name__ == '__main__':
    run_check('C16', main)
