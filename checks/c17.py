"""C17 - spatial re-ordering is a pure permutation of whole particles (static rules, DESIGN.md C17)."""
import ast
import glob
import os
import sys

sys.path.insert(0, os.path.dirname(os.path.dirname(os.path.abspath(__file__))))
from verif_static.core import run_check, AnalysisError, REPO  # noqa
from verif_static import model as M, cfg as C  # noqa

NB = 'pysph/base/nnps_base.pyx'
SOL = 'pysph/solver/solver.py'


def U(n):
    return M.unparse(n)


def compact(n):
    return U(n).replace(' ', '')


def cpu_nnps_files():
    out = []
    for p in sorted(glob.glob(os.path.join(REPO, 'pysph/base/*_nnps.pyx'))):
        rel = os.path.relpath(p, REPO)
        if 'gpu' in rel:
            continue
        out.append(rel)
    return out


def per_array(e, idxname):
    """expression is a per-array structure selected by the function's own pa_index argument"""
    s = compact(e)
    return ('[%s]' % idxname) in s and 'src_index' not in s and 'dst_index' not in s and 'current_' not in s


def resolve_local(fn, name):
    for a in ast.walk(fn):
        if isinstance(a, (ast.Assign, ast.AnnAssign)):
            t = a.targets[0] if isinstance(a, ast.Assign) else a.target
            if isinstance(t, ast.Name) and t.id == name and a.value is not None:
                return a.value
    return None


def rule_impl(chk, rel, cls, fn):
    who = '%s.%s' % (cls.name, fn.name)
    args = M.arg_names(fn)
    if len(args) < 3:
        chk.undecided('ordered-indices', who + ':signature', node=fn, file=rel, func=who, detail='unexpected signature %s' % args)
        return
    idxname, out = args[1], args[2]
    g = C.build_cfg(fn)
    resets = [n.id for n in g.nodes if n.ast is not None and isinstance(n.ast, ast.Expr) and
              M.call_name(n.ast.value) in (out + '.reset', out + '.c_reset')]
    apps = [n for n in g.nodes if n.ast is not None and isinstance(n.ast, ast.Expr) and
            M.call_name(n.ast.value) in (out + '.append', out + '.c_append')]
    if not apps:
        chk.violated('ordered-indices', who + ':appends', node=fn, file=rel, func=who, detail='no index is ever appended')
        return
    chk.decide(bool(resets) and all(any(g.dominates(r, a.id) for r in resets) for a in apps), 'ordered-indices',
               who + ':output-reset', node=fn, file=rel, func=who,
               detail_bad='the output list is not emptied before indices are appended (indices of a previous call remain)',
               detail_ok='%s.reset() dominates every append' % out)
    chk.decide(len(apps) == 1, 'ordered-indices', who + ':one-append-site', node=apps[0].ast, file=rel, func=who,
               detail_bad='%d append sites: a slot may contribute more than one index' % len(apps), detail_ok='single append site')
    app = apps[0].ast
    loop = M.enclosing(app, (ast.For, ast.While))
    if loop is None:
        chk.violated('ordered-indices', who + ':loop', node=app, file=rel, func=who, detail='append is not inside a loop over the slots')
        return
    guard = M.enclosing(app, (ast.If,))
    cond_inside = guard is not None and M.enclosing(guard, (ast.For, ast.While)) is not None and guard.lineno > \
        (M.enclosing(app, (ast.For,)) or loop).lineno
    if isinstance(loop, ast.For):
        # table traversal: for j in range(N): out.append(T[j])
        jv = U(loop.target)
        rng = loop.iter
        n_expr = rng.args[-1] if isinstance(rng, ast.Call) and M.call_name(rng) == 'range' and len(rng.args) in (1,) else None
        starts0 = n_expr is not None
        nval = n_expr
        if isinstance(nval, ast.Name):
            nval = resolve_local(fn, nval.id)
        ns = compact(nval) if nval is not None else ''
        # the count must be the particle count of the same array
        count_ok = False
        if 'get_number_of_particles()' in ns:
            recv = nval.func.value if isinstance(nval, ast.Call) else None
            if isinstance(recv, ast.Name):
                recv = resolve_local(fn, recv.id)
            count_ok = recv is not None and compact(recv) == 'self.pa_wrappers[%s]' % idxname
        elif ns.endswith('.num_particles') or ns.endswith('.length'):
            count_ok = per_array(nval, idxname)
        chk.decide(starts0 and count_ok, 'ordered-indices', who + ':slot-count', node=loop, file=rel, func=who,
                   detail_bad='loop bound %s is not 0..(particle count of array %s)' % (U(rng), idxname),
                   detail_ok='one pass over the %s slots of array %s' % (ns, idxname))
        arg = app.value.args[0]
        subs = [s for s in ast.walk(arg) if isinstance(s, ast.Subscript) and compact(s.slice) == jv]
        ok = False
        tab = None
        if subs:
            tab = subs[0].value
            tv = resolve_local(fn, tab.id) if isinstance(tab, ast.Name) else tab
            ok = tv is not None and per_array(tv, idxname)
            # other array-index arguments (e.g. _get_id(key, pa_index)) must use the same index
            for c in M.calls(arg):
                for a in c.args:
                    if isinstance(a, ast.Name) and a.id.endswith('index') and a.id != idxname:
                        ok = False
        chk.decide(ok and not cond_inside, 'ordered-indices', who + ':slot-table', node=app, file=rel, func=who,
                   detail_bad='appended value %s is not the j-th entry of the per-array table of array %s, or is conditional' % (U(arg), idxname),
                   detail_ok='appends table[%s] of array %s unconditionally' % (jv, idxname))
    else:
        # linked-list traversal: for each cell follow head -> next to the sentinel
        outer = M.enclosing(loop, (ast.For,))
        cur = compact(app.value.args[0])
        test = compact(loop.test)
        sentinel = test in ('%s!=UINT_MAX' % cur, 'UINT_MAX!=%s' % cur)
        adv = [a for a in loop.body if isinstance(a, ast.Assign) and compact(a.targets[0]) == cur]
        adv_ok = bool(adv) and compact(adv[-1].value).endswith('[%s]' % cur)
        nxt = adv[-1].value.value if adv_ok and isinstance(adv[-1].value, ast.Subscript) else None
        if isinstance(nxt, ast.Attribute) and nxt.attr == 'data':
            nxt = nxt.value
        nv = resolve_local(fn, nxt.id) if isinstance(nxt, ast.Name) else nxt
        nxt_ok = nv is not None and per_array(nv, idxname)
        init = None
        if outer is not None:
            for a in outer.body:
                if isinstance(a, ast.Assign) and compact(a.targets[0]) == cur and a.lineno < loop.lineno:
                    init = a
        iv = U(outer.target) if outer is not None else None
        head_ok = False
        if init is not None and isinstance(init.value, ast.Subscript) and compact(init.value.slice) == iv:
            hd = init.value.value
            if isinstance(hd, ast.Attribute) and hd.attr == 'data':
                hd = hd.value
            hv = resolve_local(fn, hd.id) if isinstance(hd, ast.Name) else hd
            head_ok = hv is not None and per_array(hv, idxname)
        cells_ok = outer is not None and compact(outer.iter) in ('range(self.n_cells)', 'range(n_cells)')
        chk.decide(sentinel and adv_ok and nxt_ok, 'ordered-indices', who + ':chain-to-sentinel', node=loop, file=rel, func=who,
                   detail_bad='cell chain is not followed through next[%s] of array %s until UINT_MAX' % (cur, idxname),
                   detail_ok='while %s: append; %s' % (U(loop.test), U(adv[-1]) if adv else ''))
        chk.decide(head_ok and cells_ok and not cond_inside, 'ordered-indices', who + ':every-cell', node=outer or loop, file=rel, func=who,
                   detail_bad='traversal does not start from head[cell] of array %s for every cell' % idxname,
                   detail_ok='all n_cells chains of array %s' % idxname)


def rule_tree_count(chk):
    """the trees hand out `num_particles` ids: that count is the live particle count of the wrapped array, recorded by the same call that fills the id table"""
    rel = 'pysph/base/octree.pyx'
    t = M.cy(rel)
    n = 0
    for cls in M.classes(t):
        for name, fn in M.methods(cls).items():
            if 'pa_wrapper' not in M.arg_names(fn):
                continue
            fills = [a for a in ast.walk(fn) if isinstance(a, ast.Assign) and compact(a.targets[0]) == 'self.pids']
            if not fills:
                continue
            who = '%s.%s' % (cls.name, name)
            n += 1
            ws = [a for a in ast.walk(fn) if isinstance(a, ast.Assign) and compact(a.targets[0]) == 'self.num_particles']
            ok = bool(ws)
            for a in ws:
                v = a.value
                if isinstance(v, ast.Name):
                    v = resolve_local(fn, v.id)
                ok = ok and v is not None and compact(v) == 'pa_wrapper.get_number_of_particles()'
            g = C.build_cfg(fn)
            wn = [g.node_of(a) for a in ws]
            ok = ok and all(x is not None for x in wn) and g.must_pass(g.entry, g.exit, wn)
            chk.decide(ok, 'ordered-indices', who + ':count-is-live', node=ws[0] if ws else fn, file=rel, func=who,
                       detail_bad='the number of ids the tree hands out (self.num_particles) is %s, not pa_wrapper.get_number_of_particles() recorded on every path of the build: '
                                  'the serial builder leaves the root\'s own counter at 0, so re-ordering gets an empty or short index list'
                                  % ([compact(a.value) for a in ws] or 'never set'), detail_ok='self.num_particles = pa_wrapper.get_number_of_particles()')
    chk.floor('tree builders that fill the id table', n, 2)


def rule_apply(chk):
    t = M.cy(NB)
    fn = M.find_method(t, 'NNPS', 'spatially_order_particles')
    g = C.build_cfg(fn)
    calls = [c for c in M.calls(fn) if isinstance(c.func, ast.Attribute) and c.func.attr in ('c_align_array', 'align_array')]
    if not calls:
        chk.violated('apply-permutation', 'c_align_array', node=fn, file=NB, func='NNPS.spatially_order_particles',
                     detail='properties are never permuted')
        return
    c = calls[0]
    loop = M.enclosing(c, (ast.For,))
    ok = loop is not None and compact(loop.iter) == 'pa.properties.items()' and isinstance(loop.target, ast.Tuple)
    has_escape = loop is not None and any(isinstance(x, (ast.Continue, ast.Break, ast.If)) for b in loop.body for x in ast.walk(b))
    chk.decide(ok and not has_escape, 'apply-permutation', 'every-property', node=loop or c, file=NB, func='NNPS.spatially_order_particles',
               detail_bad='the permutation is not applied to every property of the array', detail_ok='for name, arr in pa.properties.items()')
    idx = compact(c.args[0]) if c.args else ''
    fill = [x for x in M.calls(fn) if M.call_name(x) == 'self.get_spatially_ordered_indices' and len(x.args) == 2
            and compact(x.args[1]) == idx and compact(x.args[0]) == 'pa_index']
    chk.decide(len(set(compact(k.args[0]) for k in calls)) == 1 and bool(fill), 'apply-permutation', 'one-index-array', node=c, file=NB,
               func='NNPS.spatially_order_particles',
               detail_bad='properties are permuted with an index array other than the one filled for pa_index',
               detail_ok='the single list filled by get_spatially_ordered_indices(pa_index, %s)' % idx)
    if ok:
        key = U(loop.target.elts[0])
        arrv = U(loop.target.elts[1])
        st = c.args[1] if len(c.args) > 1 else None
        sdef = compact(st) if st is not None and not isinstance(st, ast.Name) else None     # the look-up may be written in place
        for a in loop.body:
            if isinstance(a, ast.Assign) and st is not None and compact(a.targets[0]) == compact(st):
                sdef = compact(a.value)
        chk.decide(compact(c.func.value) == arrv and sdef == 'pa.stride.get(%s,1)' % key, 'apply-permutation', 'own-stride', node=c,
                   file=NB, func='NNPS.spatially_order_particles',
                   detail_bad='property %s is permuted with stride %s (definition %s)' % (arrv, U(st) if st is not None else None, sdef),
                   detail_ok='stride looked up for the same key')
    pav = [a for a in ast.walk(fn) if isinstance(a, (ast.AnnAssign, ast.Assign)) and
           compact(a.target if isinstance(a, ast.AnnAssign) else a.targets[0]) == 'pa' and a.value is not None]
    chk.decide(bool(pav) and compact(pav[0].value) == 'self.pa_wrappers[pa_index].pa', 'apply-permutation', 'same-array', node=fn,
               file=NB, func='NNPS.spatially_order_particles', detail_bad='permuted array is not pa_wrappers[pa_index].pa',
               detail_ok='pa = self.pa_wrappers[pa_index].pa')
    # real particles first again before anybody consumes the array
    ln = g.node_of(loop) if loop is not None else None
    al = [n.id for n in g.nodes if n.ast is not None and isinstance(n.ast, ast.Expr) and M.call_name(n.ast.value) == 'pa.align_particles']
    ok_here = ln is not None and bool(al) and g.must_pass(ln, g.exit, al) and all(ln in g.reachable(g.entry, avoid=[a]) for a in al)
    ok_solver = False
    sol = M.py(SOL)
    rp = M.find_method(sol, 'Solver', 'reorder_particles')
    if not ok_here:
        src = compact(rp)
        ok_solver = 'align_particles()' in src
    chk.decide(ok_here or ok_solver, 'real-first-after-permutation', 'align', node=fn, file=NB, func='NNPS.spatially_order_particles',
               detail_bad='after the permutation nobody re-establishes "Local particles occupy the first num_real_particles slots": '
                          'with a periodic/mirror domain the ordering interleaves ghosts with real particles, and stage loops '
                          'run over range(num_real_particles)',
               detail_ok='pa.align_particles() after the permutation')
    # solver side
    gs = C.build_cfg(rp)
    loops = [l for l in ast.walk(rp) if isinstance(l, ast.For)]
    ok = bool(loops) and compact(loops[0].iter) in ('range(len(self.particles))',) and any(
        M.call_name(x) == 'self.nnps.spatially_order_particles' and compact(x.args[0]) == U(loops[0].target) for x in M.calls(loops[0]))
    chk.decide(ok, 'reorder-all-arrays-then-update', 'all-arrays', node=rp, file=SOL, func='Solver.reorder_particles',
               detail_bad='not every particle array is re-ordered', detail_ok='for i in range(len(self.particles))')
    upd = [n.id for n in gs.nodes if n.ast is not None and isinstance(n.ast, ast.Expr) and M.call_name(n.ast.value) == 'self.nnps.update']
    ln = gs.node_of(loops[0]) if loops else None
    chk.decide(ln is not None and bool(upd) and gs.must_pass(ln, gs.exit, upd), 'reorder-all-arrays-then-update', 'update-after',
               node=rp, file=SOL, func='Solver.reorder_particles',
               detail_bad='the neighbour structures are not rebuilt after the particles were permuted (stale indices)',
               detail_ok='self.nnps.update() after the loop')


def main(chk):
    chk.explanation = ('For every CPU implementation of get_spatially_ordered_indices: output reset dominates appends, a single '
                       'unconditional append per slot of the per-array table (or per chain element up to the sentinel), table and '
                       'count selected by the same pa_index; the one index list is applied to every property with its own '
                       'stride; alignment re-established after the permutation; solver re-orders all arrays then updates.')
    n = 0
    files = cpu_nnps_files()
    for rel in files:
        t = M.cy(rel)
        for cls in M.classes(t):
            fn = M.methods(cls).get('get_spatially_ordered_indices')
            if fn is not None:
                n += 1
                rule_impl(chk, rel, cls, fn)
    chk.floor('implementations of get_spatially_ordered_indices', n, 5)
    chk.unit('files', files + [NB, SOL])
    rule_apply(chk)
    rule_tree_count(chk)
    chk.assume('that head/next, pid and key tables hold each particle exactly once is not decided (see C01)')


if __name__ == '__main__':
    run_check('C17', main)
